"""
Calls made with little stack left.

A caller may reach the library from deep inside its own recursion.  With r frames left below the interpreter's
recursion limit a library call either completes with the answer it gives anywhere else, or raises (RecursionError, or
whatever exception the library turns it into on the way out); it never returns something else (an `except Exception` around a helper that ran out of stack would do that).
`sweep(fn, same, remaining)` calls fn() with r = 1..remaining frames left and reports the first r at which the
outcome is neither.
"""
import sys


def _depth():
    f, n = sys._getframe(), 0
    while f is not None:
        n += 1
        f = f.f_back
    return n


def _dive(n, fn):
    if n <= 0:
        return fn()
    return _dive(n - 1, fn)


def sweep(fn, same, remaining=90):
    """fn() -> value (computed now, at the present depth, as the baseline).  Returns None or (r, value) of the
    first deviating call with r frames left.  *same(a, b)* compares two values."""
    base = fn()
    limit = sys.getrecursionlimit()
    here = _depth()
    for r in range(1, remaining + 1):
        n = limit - here - r - 2
        if n < 0:
            break
        try:
            got = _dive(n, fn)
        except Exception:  # noqa  RecursionError, or whatever the library turns it into on its way out
            continue
        if not same(base, got):
            return r, got
    return None


# ----------------------------------------------------------------------
# a standard task: a few representative calls of each property, swept over the last 80 frames under three limits
def _probes():
    import periodictable as pt
    from periodictable import nsf, fasta, activation

    def st_(f):
        return (repr(f.structure), f.density)

    def atoms(f):
        return sorted((repr(a), n) for a, n in f.atoms.items())

    def arr(x):
        import numpy as np
        if isinstance(x, (tuple, list)):
            return tuple(arr(v) for v in x)
        return None if x is None else np.asarray(x, float).tolist()

    def activation_probe():
        s = activation.Sample("Co30Fe70", 10.0)
        s.calculate_activation(activation.ActivationEnvironment(fluence=1e13, Cd_ratio=10, fast_ratio=50), exposure=2.0,
                               rest_times=[0, 1, 24])
        return sorted((repr(k.isotope), k.daughter, k.reaction, tuple(v)) for k, v in s.activity.items()), s.decay_time(1e-3)

    def composite_probe():
        calc = nsf.neutron_composite_sld([pt.formula("CuSO4"), pt.formula("H2O"), pt.formula("Gd[155]2O3")], wavelength=[1.0, 4.0])
        import numpy as np
        return arr(calc(np.array([1, 5, 0.25]), density=2.2))

    return {
        "C01": {"parse": lambda: st_(pt.formula("Ca{2+}(OH[1]{-})2 3H2O@1.2n")),
                "parse-nested": lambda: st_(pt.formula("((Fe[56]{3+}2O3)2(D2O)0.5)3 + 2NaCl")),
                "parse-isotopes": lambda: atoms(pt.formula("O[18]O[16]O U[238]U[235]O8 H{-}H{+}"))},
        "C02": {"atoms": lambda: atoms(2.5 * pt.formula("Fe4(Fe(CN)6)3") + pt.formula("Na{+}Cl{-}")),
                "mass-charge": lambda: (pt.formula("P{5+}O{2-}4(H2O)3").mass, pt.formula("P{5+}O{2-}4(H2O)3").charge),
                "mass-fraction": lambda: sorted((repr(a), v) for a, v in pt.formula("CaCO3(H2O)6").mass_fraction.items())},
        "C03": {"neutron_scattering": lambda: arr(pt.neutron_scattering("Gd[155]2O3+CaLu", density=7.4, wavelength=[0.5, 1.8, 6.0])),
                "neutron_sld": lambda: arr(pt.neutron_sld("H2O", density=1.0, wavelength=4.75))},
        "C05": {"xray_sld": lambda: arr(pt.xray_sld("SiO2", density=2.2, energy=[8.0, 12.3])),
                "f0": lambda: arr(pt.Fe.ion[2].xray.f0([0.0, 1.5, 7.0])),
                "refraction": lambda: arr(pt.xsf.index_of_refraction("Ni", density=8.9, energy=8.0))},
        "C11": {"wt%": lambda: st_(pt.formula("5wt% NaCl@2.16 // 3% KCl@1.98 // H2O@1")),
                "layers": lambda: st_(pt.formula("1 um Si@2.33 // 5 nm Ni[58]@9.1")),
                "mix_by_volume": lambda: st_(pt.mix_by_volume("H2O@1", 3, "D2O@1.1", 1))},
        "C12": {"natural-density": lambda: pt.formula("D2O", natural_density=1.0).density,
                "replace": lambda: st_(pt.formula("CH[1]3OH[1]@0.8").replace(pt.H[1], pt.D)),
                "volume": lambda: (pt.formula("NaCl").volume("cubic"), pt.formula("NaCl").volume(a=5.64))},
        "C13": {"str": lambda: str(1.5 * pt.formula("Ca{2+}(OH[1]{-})2 3H2O")),
                "round-trip": lambda: st_(pt.formula(str(pt.formula("((Fe[56]{3+}2O3)2(D2O)0.5)3 + 2NaCl")))),
                "repr": lambda: repr(pt.formula("D{+}2O{2-}", name="heavy"))},
        "C14": {"activation+decay_time": activation_probe},
        "C16": {"D2O_sld": lambda: arr(nsf.D2O_sld("C3H4H[1]NO@1.29n", 0.4, 0.7)),
                "D2O_match": lambda: arr(nsf.D2O_match("C3H4H[1]NO@1.29n"))},
        "C17": {"composite": composite_probe},
        "C18": {"sequence": lambda: (atoms(fasta.Sequence("p", "AKRBZX*MM").labile_formula), fasta.Sequence("p", "AKRBZX").cell_volume),
                "prefix": lambda: atoms(pt.formula("dna:ACGTNRY"))},
    }


def check(ctx, case):
    """case = {kind:'little-stack', property, probe}"""
    from .runner import Violation
    fn = _probes()[case["property"]][case["probe"]]
    ctx.case(("little-stack", case["property"], case["probe"]), nontrivial=True, sample=case,
             cls=["little-stack:" + case["probe"]])
    old = sys.getrecursionlimit()
    try:
        for limit in (old, 200, 90):
            try:
                sys.setrecursionlimit(limit)
                bad = sweep(fn, lambda a, b: a == b or repr(a) == repr(b), remaining=80)
            except RecursionError:
                continue
            if bad:
                sys.setrecursionlimit(old)
                raise Violation("%s:little-stack:%s" % (case["property"].lower(), case["probe"]),
                                "%s with %d frames left below the recursion limit %d returned %r; anywhere else it is %r"
                                % (case["probe"], bad[0], limit, bad[1], fn()), case)
    finally:
        sys.setrecursionlimit(old)


def task(ctx, prop):
    for probe in sorted(_probes()[prop]):
        ctx.check(check, {"kind": "little-stack", "property": prop, "probe": probe})
