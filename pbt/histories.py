"""
Histories of first-touch events executed on a fresh interpreter (C09, C10).

The calling process (a task of the runner) has never imported periodictable:
it is the zygote.  `run_histories` forks one child per history; the child
interprets the events, records one observation per event, and finally the
digest of everything the tables serve and the abstract loader state.

Events are JSON lists:
    ["read", prop, route, tbl]      getattr(obj, prop)
    ["hasattr", prop, route, tbl]   hasattr(obj, prop)
    ["getattr3", prop, route, tbl]  getattr(obj, prop, <default>)
    ["import", module]              import periodictable.<module>
    ["init", entry, tbl]            <entry>(table), entry in INIT_ENTRIES; "<entry>+reload" calls <entry>(table, reload=True)
    ["calc", name, tbl]             a calculator call (CALCS)
    ["ext", "ok"|"fail"]            a third-party delayed_load table whose loader works / raises, touched at once
    ["create", tbl]                 PeriodicTable(name) + mass.init + density.init   (C10)
    ["assign", prop, route, tbl]    obj.<prop> = sentinel                            (C10)
    ["mutate", prop, route, tbl]    in-place mutation of the value served            (C10)
    ["pickle", route, tbl]          pickle round trip of the atom                     (C10)
    ["formula", string, tbl]        formula(string, table=T): table membership        (C10)
    ["ambient", name]               a perturbation of pbt/ambient.py applied at that point of the history  (C09)
    ["crowd", n]                    n further private tables, each used for a parse                    (C10)
    ["keepdrop", tbl]               keep atoms of T, drop the table object, restore the atoms by pickle/copy   (C10)
tbl is "public", "T1" or "T2".
"""
from . import subtable
import hashlib
import io
import os
import pickle
import select
import sys
import traceback

LAZY_PROPS = ["covalent_radius", "covalent_radius_units", "covalent_radius_uncertainty",
              "crystal_structure", "neutron", "neutron_activation", "xray",
              "K_alpha", "K_beta1", "K_alpha_units", "K_beta1_units", "magnetic_ff"]
GROUP_OF = {"covalent_radius": "covalent_radius", "covalent_radius_units": "covalent_radius",
            "covalent_radius_uncertainty": "covalent_radius", "crystal_structure": "crystal_structure",
            "neutron": "neutron", "neutron_activation": "activation", "xray": "xray",
            "K_alpha": "emission", "K_beta1": "emission", "K_alpha_units": "emission",
            "K_beta1_units": "emission", "magnetic_ff": "magnetic_ff"}
GROUPS = ["covalent_radius", "crystal_structure", "neutron", "activation", "xray", "emission", "magnetic_ff",
          "mass_density", "core"]      # the last two are not lazy; they are in the digest for the isolation property (C10)
ROUTES = ["el+", "el-", "iso", "iso2", "ion", "isoion", "D", "n"]
MODULES = ["nsf", "xsf", "covalent_radius", "crystal_structure", "magnetic_ff", "activation", "fasta",
           "formulas", "cromermann"]
INIT_ENTRIES = ["mass.init", "density.init", "nsf.init", "xsf.init", "xsf.init_spectral_lines",
                "covalent_radius.init", "crystal_structure.init", "magnetic_ff.init", "activation.init"]
# the documented reload=True option: "how many times" a group is initialised must not matter either
RELOAD_ENTRIES = [e + "+reload" for e in INIT_ENTRIES if e != "xsf.init_spectral_lines"]
# the entry point applied to a deep copy / pickle round trip of the table object (the copy has its own list of loaded
# groups but its elements are the table's own atoms, which restore themselves by name)
CLONE_ENTRIES = [e + "+clone" for e in INIT_ENTRIES if e not in ("mass.init", "density.init")]
CALCS = ["neutron_sld", "neutron_scattering", "xray_sld", "volume", "activation", "list", "emission_table",
         "sld_table", "D2O_sld", "fasta", "xray_f0", "magnetic", "xray_n", "xray_N", "xray_all_fwd", "xray_all_rev",
         # secondary public routes to the same data (round 7): optional keywords, module-level functions,
         # Formula methods, legacy entry points, printed tables
         "activation_iaea", "abundance_fns", "activity_fn", "composite_sld", "D2O_match", "formula_methods",
         "refraction", "from_atoms", "atom_methods", "xsf_sld_table", "edep_table", "comparison_tables",
         "print_scattering", "cromermann", "volume_routes"]
# calculators that are events only (too slow or redundant for the digest of every history)
EVENT_ONLY_CALCS = ("xray_all_fwd", "xray_all_rev", "comparison_tables", "edep_table", "xsf_sld_table",
                    "print_scattering", "cromermann", "from_atoms", "activity_fn", "volume_routes")


# the actual name of each private table: an ordinary name and the empty string (falsy but accepted by PeriodicTable;
# a name is only a dictionary key for pickling, so nothing may depend on its truth value)
TABLE_NAMES = {"T1": "T1", "T2": ""}
TABLE_LABELS = dict((v, k) for k, v in TABLE_NAMES.items())


NO_TABLE_CALCS = ("D2O_sld", "fasta", "print_scattering", "cromermann", "D2O_match")


def zygote_prepare():
    """Import the heavy third-party modules once, so that children start fast."""
    assert "periodictable" not in sys.modules, "zygote must never import periodictable"
    import numpy  # noqa
    import pyparsing  # noqa
    import copy  # noqa
    import warnings
    warnings.simplefilter("ignore")


# ----------------------------------------------------------------------
# canonical form of served values
def canon(v, depth=0):
    import numpy as np
    if v is None or isinstance(v, (bool, int, str)):
        return v
    if isinstance(v, float):
        return repr(float(v))         # np.float64 is a float; its own repr depends on numpy's print options
    if isinstance(v, complex):
        return ["c", repr(float(v.real)), repr(float(v.imag))]
    if isinstance(v, np.generic):
        return canon(v.item(), depth)
    if isinstance(v, np.ndarray):
        if v.size <= 16:
            return ["nd", list(v.shape), [canon(x) for x in v.ravel().tolist()]]
        return ["nd", list(v.shape), hashlib.blake2b(np.ascontiguousarray(v).tobytes(), digest_size=8).hexdigest()]
    if isinstance(v, (list, tuple)):
        return [canon(x, depth + 1) for x in v]
    if isinstance(v, dict):
        return ["dict"] + sorted(([canon(k, depth + 1), canon(x, depth + 1)] for k, x in v.items()),
                                 key=lambda kv: repr(kv[0]))
    core = sys.modules.get("periodictable.core")
    if core is not None and isinstance(v, (core.Element, core.Isotope, core.Ion)):
        return ["atom", repr(v), getattr(v, "table", "?") if not isinstance(v, core.Ion) else v.element.table]
    name = type(v).__name__
    if depth > 6:
        return ["obj", name]
    if name == "Xray":
        return ["Xray", repr(v.element)]
    try:
        d = vars(v)
    except TypeError:
        return ["obj", name, repr(v)]
    return ["obj", name] + sorted([k, canon(x, depth + 1)] for k, x in d.items() if k != "element")


def _h(x):
    return hashlib.blake2b(repr(x).encode("utf8", "replace"), digest_size=8).hexdigest()


_SENT = "<no-attr>"


def _get(obj, name):
    try:
        return canon(getattr(obj, name))
    except AttributeError:
        return _SENT


def group_values(table, group):
    """Everything *table* serves for one property group, in canonical form."""
    out = []
    if group == "covalent_radius":
        for el in table:
            out.append([el.number, _get(el, "covalent_radius"), _get(el, "covalent_radius_uncertainty"),
                        _get(el, "covalent_radius_units")])
        for atom in (table.Fe[56], table.Fe.ion[2], table.D, table.Fe[56].ion[3]):
            out.append([repr(atom), _get(atom, "covalent_radius")])
    elif group == "crystal_structure":
        for el in table:
            out.append([el.number, _get(el, "crystal_structure")])
        for atom in (table.Fe[56], table.Fe.ion[2], table.D):
            out.append([repr(atom), _get(atom, "crystal_structure")])
    elif group == "neutron":
        for el in table:
            out.append([el.number, 0, _get(el, "neutron")])
            for iso in el:
                out.append([el.number, iso.isotope, _get(iso, "neutron"), _get(iso, "nuclear_spin")])
        for atom in (table.Fe.ion[2], table.Fe[56].ion[2], table.D.ion[1], table.Gd.ion[3]):
            out.append([repr(atom), _get(atom, "neutron")])
        for atom in (table.H, table.D, table.Gd, table.Gd[155], table.Lu, table.Fe.ion[3], table.Fm, table.Eu[151]):
            n = getattr(atom, "neutron", None)
            try:
                out.append([repr(atom), canon(n.sld(wavelength=2.5)) if n is not None else None])
            except Exception as e:  # noqa
                out.append([repr(atom), "exc:" + type(e).__name__])
    elif group == "activation":
        for el in table:
            for iso in el:
                v = _get(iso, "neutron_activation")
                if v != _SENT:
                    out.append([el.number, iso.isotope, v])
        out.append(["Fe", _get(table.Fe, "neutron_activation")])
        out.append(["Co59+", _get(table.Co[59].ion[2], "neutron_activation")])
    elif group == "xray":
        for atom in (table.H, table.C, table.Si, table.Fe, table.U, table.Fe.ion[2], table.Fe[56], table.D,
                     table.Fe[56].ion[2], table.O.ion[-2]):
            try:
                x = atom.xray
                out.append([repr(atom), canon(x), canon(x.scattering_factors(energy=8.0)),
                            canon(x.f0(1.5)) if hasattr(x, "f0") else None])
            except Exception as e:  # noqa
                out.append([repr(atom), "exc:" + type(e).__name__])
        for atom in (table.Fm, table[0]):
            try:
                out.append([repr(atom), canon(atom.xray), canon(atom.xray.sftable)])
            except Exception as e:  # noqa
                out.append([repr(atom), "exc:" + type(e).__name__])
    elif group == "emission":
        for el in table:
            out.append([el.number, _get(el, "K_alpha"), _get(el, "K_beta1"), _get(el, "K_alpha_units"),
                        _get(el, "K_beta1_units")])
        for atom in (table.Cu.ion[2], table.Cu[63], table.D):
            out.append([repr(atom), _get(atom, "K_alpha"), _get(atom, "K_alpha_units")])
    elif group == "magnetic_ff":
        for el in table:
            out.append([el.number, _get(el, "magnetic_ff")])
        for atom in (table.Fe.ion[2], table.Fe[56], table.D):
            out.append([repr(atom), _get(atom, "magnetic_ff")])
    elif group == "core":
        # what every table serves from core.py: names, symbols, charge and isotope lists, D/T aliases
        for el in table:
            out.append([el.number, el.symbol, el.name, canon(el.ions), canon(el.isotopes)])
            for iso in list(el)[:3]:
                out.append([el.number, iso.isotope, canon(iso.ions), _get(iso, "symbol"), _get(iso, "name")])
        for atom in (table.D, table.T, table.Fe.ion[2], table.Fe[56].ion[2], table.D.ion[1]):
            out.append([repr(atom), atom.symbol, atom.name, atom.number, canon(atom.ions), atom.charge,
                        getattr(atom, "isotope", 0)])
    elif group == "mass_density":
        for el in table:
            out.append([el.number, _get(el, "mass"), _get(el, "density"), _get(el, "number_density"),
                        _get(el, "interatomic_distance")])
            for iso in el:
                out.append([el.number, iso.isotope, _get(iso, "mass"), _get(iso, "abundance"), _get(iso, "density")])
        for atom in (table.Fe.ion[2], table.Fe[56].ion[2], table.D.ion[1]):
            out.append([repr(atom), _get(atom, "mass"), _get(atom, "density")])
    else:
        raise ValueError(group)
    return out


def calc(name, table, public):
    """A calculator call; returns canonical value. *table* None = default table."""
    import periodictable as pt
    kw = {} if public else {"table": table}
    T = table
    if name == "neutron_sld":
        return canon(pt.neutron_sld(pt.formula("H2O", **kw), density=1.0, wavelength=4.75))
    if name == "neutron_scattering":
        return canon(pt.neutron_scattering(pt.formula("Gd[155]2O3+CaLu", **kw), density=7.4, wavelength=[0.5, 1.8, 6.0]))
    if name == "xray_sld":
        return canon(pt.xray_sld(pt.formula("SiO2", **kw), density=2.2, energy=8.0))
    if name == "volume":
        f = pt.formula("NaCl", **kw)
        return canon([f.volume("cubic"), f.volume(a=5.64)])
    if name == "activation":
        from periodictable import activation
        env = activation.ActivationEnvironment(fluence=1e13, Cd_ratio=10, fast_ratio=50)
        s = activation.Sample(pt.formula("Co30Fe70", **kw), 10.0)
        s.calculate_activation(env, exposure=2.0, rest_times=[0, 1, 24])
        return canon(sorted((repr(k.isotope) + "|" + k.daughter + "|" + k.reaction, v) for k, v in s.activity.items()))
    if name == "list":
        buf = io.StringIO()
        old = sys.stdout
        sys.stdout = buf
        try:
            T.list("symbol", "covalent_radius", "K_alpha")
        finally:
            sys.stdout = old
        return _h(buf.getvalue()) + ":%d" % len(buf.getvalue())
    if name == "emission_table":
        from periodictable import xsf
        buf = io.StringIO()
        old = sys.stdout
        sys.stdout = buf
        try:
            xsf.emission_table(table=None if public else T)
        finally:
            sys.stdout = old
        return _h(buf.getvalue()) + ":%d" % len(buf.getvalue())
    if name == "sld_table":
        from periodictable import nsf
        buf = io.StringIO()
        old = sys.stdout
        sys.stdout = buf
        try:
            nsf.sld_table(wavelength=4.75, table=None if public else T)
        finally:
            sys.stdout = old
        return _h(buf.getvalue()) + ":%d" % len(buf.getvalue())
    if name == "D2O_sld":
        from periodictable import nsf
        return canon(nsf.D2O_sld(pt.formula("C3H4H[1]NO@1.29n", **kw), volume_fraction=0.4, D2O_fraction=0.7,
                                 wavelength=5.0))
    if name == "fasta":
        from periodictable import fasta
        s = fasta.Sequence("x", "AKRGD", type="aa")
        return canon([s.mass, s.sld, s.Dsld, s.D2Omatch])
    if name == "xray_f0":
        return canon([T.Fe.xray.f0(2.0), T.Fe.ion[3].xray.f0(2.0), T.O.ion[-2].xray.f0(0.5)])
    if name == "magnetic":
        return canon([T.Fe.magnetic_ff[2].j0_Q(1.0), T.Fe.ion[2].magnetic_ff[3].M_Q(0.5)])
    if name == "xray_n":       # the neutron has no x-ray table (and shares the file name n.nff with nitrogen)
        return canon([T[0].xray.sftable, T[0].xray.scattering_factors(energy=8.0)])
    if name == "xray_N":
        return canon([T.N.xray.scattering_factors(energy=8.0), T.N[15].ion[3].xray.scattering_factors(energy=8.0)])
    if name in ("xray_all_fwd", "xray_all_rev"):
        # the scattering-factor table of every element, visited by increasing or decreasing Z:
        # what is served must not depend on which element's table was loaded first
        els = [el for el in T]
        if name.endswith("rev"):
            els = els[::-1]
        seen = {}
        for el in els:
            t = el.xray.sftable
            seen[el.number] = None if t is None else canon(t)
        return _h(sorted(seen.items()))
    if name in ("activation_iaea", "abundance_fns", "activity_fn"):
        from periodictable import activation
        env = activation.ActivationEnvironment(fluence=1e13, Cd_ratio=10, fast_ratio=50)
        if name == "abundance_fns":
            # the two documented abundance sources, asked directly (elements only, so that nothing else loads the table)
            return canon([[f(a) for a in (T.Au[197], T.Co[59], T.Na[23], T.Cl[37], T.Li[6])]
                          for f in (activation.IAEA1987_isotopic_abundance, activation.NIST2001_isotopic_abundance)])
        if name == "activity_fn":
            r = activation.activity(T.Co[59], 1.0, env, 2.0, [0, 5])
            return canon(sorted((k.daughter + "|" + k.reaction, v) for k, v in r.items()))
        # natural elements and ions only: an explicit isotope would load the table through another path
        out = []
        for text in ("NaCl", "Au{3+}Cl3"):
            s = activation.Sample(pt.formula(text, **kw), 5.0)
            s.calculate_activation(env, exposure=2.0, rest_times=[0, 1],
                                   abundance=activation.IAEA1987_isotopic_abundance)
            out.append(sorted((repr(k.isotope) + "|" + k.daughter + "|" + k.reaction, v) for k, v in s.activity.items()))
            out.append(s.decay_time(1e-3))
        return canon(out)
    if name == "composite_sld":
        from periodictable import nsf
        mats = [pt.formula("Gd2O3", **kw), pt.formula("D2O", **kw), pt.formula("SiO2", **kw)]
        c1 = nsf.neutron_composite_sld(mats)                          # default wavelength
        c2 = nsf.neutron_composite_sld(mats, wavelength=[0.7, 4.75])
        import numpy as np
        w = np.array([1.0, 12.5, 3.0])
        return canon([c1(w, density=2.3), c2(w, density=2.3)])
    if name == "D2O_match":
        from periodictable import nsf
        return canon([nsf.D2O_match(pt.formula("C3H4H[1]NO@1.29n", **kw)),
                      nsf.D2O_match(pt.formula("C6H7H[1]5O6@1.5n", **kw), wavelength=2.0)])
    if name == "formula_methods":
        f = pt.formula("Gd[157]Fe{3+}O3@7", **kw)
        g = pt.formula("CaCO3@2.7", **kw)
        return canon([f.neutron_sld(wavelength=1.2), f.neutron_sld(energy=30.0), f.xray_sld(energy=8.0),
                      g.neutron_sld(), g.xray_sld(wavelength=1.54)])
    if name == "refraction":
        from periodictable import xsf
        f = pt.formula("Ni[58]O", **kw)
        return canon([xsf.index_of_refraction(f, natural_density=6.67, energy=[8.0, 12.0]),
                      xsf.mirror_reflectivity(f, density=6.67, energy=8.0, angle=[0.1, 0.3]),
                      xsf.xray_sld(f, natural_density=6.67, wavelength=1.54)])
    if name == "from_atoms":
        from periodictable import nsf, xsf
        return canon([nsf.neutron_sld_from_atoms({T.H: 2, T.O: 1}, density=1.0, wavelength=3.0),
                      xsf.xray_sld_from_atoms({T.Si: 1, T.O: 2}, density=2.2, energy=8.0)])
    if name == "atom_methods":
        return canon([T.Fe.neutron.sld(), T.H[2].neutron.scattering(wavelength=2.0), T.Gd.neutron.sld(wavelength=1.0),
                      T.Fe.xray.sld(energy=8.0), T.Fe[56].ion[2].xray.sld(wavelength=1.54),
                      T.Ni.neutron.has_sld(), T.Fm.neutron.has_sld()])
    if name in ("xsf_sld_table", "edep_table", "comparison_tables", "print_scattering"):
        from periodictable import nsf, xsf
        buf = io.StringIO()
        old = sys.stdout
        sys.stdout = buf
        tb = None if public else T
        try:
            if name == "xsf_sld_table":
                xsf.sld_table(wavelength=1.54, table=tb)
            elif name == "edep_table":
                nsf.energy_dependent_table(table=tb)
            elif name == "print_scattering":
                nsf.print_scattering("Gd2O3@7.4", wavelength=1.2)
            else:
                nsf.absorption_comparison_table(table=tb, tol=0.01)
                nsf.coherent_comparison_table(table=tb, tol=0.01)
                nsf.total_comparison_table(table=tb, tol=0.01)
                nsf.incoherent_comparison_table(table=tb, tol=0.01)
        finally:
            sys.stdout = old
        return _h(buf.getvalue()) + ":%d" % len(buf.getvalue())
    if name == "cromermann":
        from periodictable import cromermann
        return canon([cromermann.fxrayatq("Fe2+", 1.0), cromermann.fxrayatq("O", [0.0, 2.0], charge=-2),
                      cromermann.fxrayatstol("Ca2+", 0.1), cromermann.getCMformula("Na1+").atstol(0.2)])
    if name == "volume_routes":
        f = pt.formula("Fe{2+}O{2-}", **kw)
        return canon([f.volume(), f.volume("bcc"), f.volume(packing_factor=0.6), f.volume(a=4.3, b=4.3, c=4.3, beta=100)])
    raise ValueError(name)


def public_digest(table, public=True):
    d = {}
    for g in GROUPS:
        try:
            d[g] = _h(group_values(table, g))
        except Exception as e:  # noqa
            d[g] = "exc:%s:%s" % (type(e).__name__, str(e)[:80])
    for c in CALCS:
        if c in EVENT_ONLY_CALCS:
            continue
        if not public and c in NO_TABLE_CALCS:
            continue      # these calculators take no table argument
        try:
            d["calc:" + c] = _h(calc(c, table, public))
        except Exception as e:  # noqa
            d["calc:" + c] = "exc:%s:%s" % (type(e).__name__, str(e)[:80])
    return d


def abstract_state():
    """Kind of every lazy class attribute + loaded groups + imported submodules."""
    core = sys.modules["periodictable.core"]
    out = []
    for cls in (core.Element, core.Isotope, core.Ion):
        for p in LAZY_PROPS:
            if p in cls.__dict__:
                a = cls.__dict__[p]
                if isinstance(a, property):
                    k = "delayed" if getattr(a.fget, "__name__", "") == "getfn" else "property"
                else:
                    k = "value"
            else:
                k = "absent"
            out.append(k[0])
    props = ",".join(sorted(set(core.PUBLIC_TABLE.properties)))
    # Imported submodules are deliberately not part of the state: importing has no effect on the
    # loaders other than through the class attributes above (an import with such a side effect
    # shows up there), and 2^9 import subsets would multiply the state space for nothing.
    return "".join(out) + "|" + props


# ----------------------------------------------------------------------
# interpreter (runs in the child)
class World(object):
    def __init__(self):
        self.tables = {}

    def table(self, tbl):
        import periodictable as pt
        if tbl == "public":
            return pt.elements
        if tbl == "T0":
            # a bare private table as in the user guide (mass and density only): probing a lazy property through
            # one of its atoms is one more way of touching the public loaders for the first time (C09)
            if getattr(self, "bare", None) is None:
                from periodictable import core, mass, density
                self.bare = subtable.new("T0-bare")
                mass.init(self.bare)
                density.init(self.bare)
            return self.bare
        return self.tables[tbl]

    def obj(self, route, tbl):
        t = self.table(tbl)
        if route == "el+":
            return t.Fe
        if route == "el-":
            return t.Fm
        if route == "iso":
            return t.Fe[56]
        if route == "iso2":
            return t.Co[59]
        if route == "ion":
            return t.Fe.ion[2]
        if route == "isoion":
            return t.Fe[56].ion[2]
        if route == "D":
            return t.D
        if route == "n":
            return t[0]
        if route == "ed":
            return t.Gd[155]
        if route == "lu":
            return t.Lu
        if route == "cu":
            return t.Cu
        raise ValueError(route)


def do_event(w, ev):
    import importlib
    kind = ev[0]
    if kind == "read":
        return canon(getattr(w.obj(ev[2], ev[3]), ev[1]))
    if kind == "hasattr":
        return hasattr(w.obj(ev[2], ev[3]), ev[1])
    if kind == "getattr3":
        return canon(getattr(w.obj(ev[2], ev[3]), ev[1], "<default>"))
    if kind == "import":
        importlib.import_module("periodictable." + ev[1])
        return "ok"
    if kind == "init":
        entry, _, opt = ev[1].partition("+")
        mod, fn = entry.split(".")
        m = importlib.import_module("periodictable." + mod)
        if opt == "clone":
            import copy
            getattr(m, fn)(copy.deepcopy(w.table(ev[2])))
        elif opt == "reload":
            getattr(m, fn)(w.table(ev[2]), reload=True)
        else:
            getattr(m, fn)(w.table(ev[2]))
        return "ok"
    if kind == "calc":
        return calc(ev[1], w.table(ev[2]), ev[2] == "public")
    if kind == "ext":
        # ["ext", "ok"|"fail"]: the documented extension API (doc/sphinx/guide/extending.rst): a third-party table
        # registered with core.delayed_load and touched at once.  With "fail" its loader raises (the data file of the
        # extension is missing, say) and the caller catches that; the built-in groups must load as ever afterwards.
        import periodictable as pt
        from periodictable import core
        n = w.__dict__.setdefault("_ext_n", 0)
        w.__dict__["_ext_n"] = n + 1
        name = "verif_ext_%s_%d" % (ev[1], n)

        def loader():
            if ev[1] == "fail":
                raise IOError("extension table %s is not available" % name)
            setattr(core.Element, name, "Unknown")
            for el in pt.elements:
                setattr(el, name, "discovered:%d" % el.number)
        core.delayed_load([name], loader)
        try:
            return canon(getattr(pt.elements.Mg, name))
        except IOError:
            return "IOError"
    if kind == "create":
        from periodictable import core, mass, density
        t = subtable.new(TABLE_NAMES.get(ev[1], ev[1]))
        mass.init(t)
        density.init(t)
        w.tables[ev[1]] = t
        return "ok"
    if kind == "assign":
        # every assignment gets its own copy of the value: the generator hands the same dict object to every event,
        # and two tables holding it would look like a shared mutable object (a false alarm met at seed 2)
        import copy
        setattr(w.obj(ev[2], ev[3]), ev[1], copy.deepcopy(ev[4]) if len(ev) > 4 else "<assigned>")
        return "ok"
    if kind == "mutate":
        return mutate(w.obj(ev[2], ev[3]), ev[1])
    if kind == "pickle":
        o = w.obj(ev[1], ev[2])
        return pickle.loads(pickle.dumps(o)) is o
    if kind == "keepdrop":
        # ["keepdrop", tbl]: keep only some atoms (and a formula built from atoms) of a private table, drop every
        # reference to the PeriodicTable object itself, collect garbage, then restore the kept objects through
        # pickle (three protocols), copy and deepcopy: each must come back as the identical object of that table
        import copy
        import gc
        import periodictable as pt
        t = w.tables.pop(ev[1])
        kept = [t.Fe, t.Fe[56], t.Fe.ion[3], t.O[18].ion[-2], t.D, t[0]]
        f = pt.formula([(2, t.Fe), (3, t.O[18].ion[-2])])
        masses = [a.mass for a in kept]
        del t
        gc.collect()
        bad = []
        for a, m in zip(kept, masses):
            for how, fn in (("pickle0", lambda x: pickle.loads(pickle.dumps(x, 0))),
                            ("pickle2", lambda x: pickle.loads(pickle.dumps(x, 2))),
                            ("pickleH", lambda x: pickle.loads(pickle.dumps(x, pickle.HIGHEST_PROTOCOL))),
                            ("copy", copy.copy), ("deepcopy", copy.deepcopy)):
                try:
                    b = fn(a)
                    if b is not a or b.mass != m:
                        bad.append("%s(%r) is another object" % (how, a))
                except Exception as e:  # noqa
                    bad.append("%s(%r) raised %s" % (how, a, type(e).__name__))
        for how, fn in (("pickle", lambda x: pickle.loads(pickle.dumps(x))), ("deepcopy", copy.deepcopy)):
            try:
                g = fn(f)
                if [id(x) for x in g.atoms] != [id(x) for x in f.atoms]:
                    bad.append("%s(formula) holds other atoms" % how)
            except Exception as e:  # noqa
                bad.append("%s(formula) raised %s" % (how, type(e).__name__))
        return bad[:4]
    if kind == "lookup":
        # ["lookup", how, key, tbl] -> which object a by-name/by-symbol/by-string lookup serves
        t = w.table(ev[3])
        a = getattr(t, ev[1])(ev[2])
        z, iso, ch = a.number, getattr(a, "isotope", 0), a.charge
        mine = t[z]
        if iso:
            mine = mine[iso]
        return [repr(a), TABLE_LABELS.get(a.table, a.table), a is mine]
    if kind == "ambient":
        # ["ambient", name]: the caller changes process state in the middle of a history (pbt/ambient.py), e.g. turns
        # warnings into errors before the first touch of a group
        from . import ambient
        ambient.enter([ev[1]], 0, "", "history", "/repo")
        return "ok"
    if kind == "crowd":
        # ["crowd", n]: n further private tables are created and each parses two formula strings (a service with one
        # table per user); returns the crowd tables whose formulas hold atoms of another table
        import periodictable as pt
        from periodictable import mass, density
        crowd = w.__dict__.setdefault("_crowd", [])
        bad = []
        for k in range(ev[1]):
            t = subtable.new("crowd-%d" % len(crowd))
            mass.init(t)
            density.init(t)
            crowd.append(t)
            for text in ("H2O", "Fe[56]{2+}2O{2-}3"):
                f = pt.formula(text, table=t)
                names = set(a.table for a in f.atoms)
                if names != {"crowd-%d" % (len(crowd) - 1)}:
                    bad.append([k, sorted(names)])
        return bad
    if kind == "formula":
        import periodictable as pt
        t = w.table(ev[2])
        f = formula_route(pt, ev[1], t)
        return sorted(set(TABLE_LABELS.get(a.table, a.table) for a in f.atoms))
    raise ValueError(kind)


FORMULA_ROUTES = ["route:parse_formula", "route:mix_by_weight:str", "route:mix_by_volume:str", "route:mix_by_weight:obj",
                  "route:mix_by_volume:obj", "route:mix_by_weight:obj-nokw", "route:mix_by_volume:obj-nokw",
                  "route:clone", "route:clone-kw", "route:dict", "route:seq", "route:atom", "route:arith", "route:hill",
                  "route:replace", "route:change_table", "route:nested-mixture"]


def formula_route(pt, spec, t):
    """A formula whose atoms must all belong to table *t*: formula(text, table=t), or one of the other public
    ways of producing a formula on a given table (FORMULA_ROUTES)."""
    if not spec.startswith("route:"):
        return pt.formula(spec, table=t)
    from periodictable import formulas
    r = spec[6:]
    if r == "parse_formula":
        return formulas.parse_formula("Fe[56]{2+}2O{2-}3", table=t)
    if r.startswith("mix_by_"):
        fn = pt.mix_by_weight if r.startswith("mix_by_weight") else pt.mix_by_volume
        how = r.split(":")[1]
        if how == "str":
            return fn("H2O@1", 2, "D2O@1n", 1, "Na{+}Cl{-}@2.16", 0.5, table=t)
        comps = [pt.formula("H2O@1", table=t), pt.formula("D2O@1n", table=t), pt.formula("Na{+}Cl{-}@2.16", table=t)]
        if how == "obj":
            return fn(comps[0], 2, comps[1], 1, comps[2], 0.5, table=t)
        return fn(comps[0], 2, comps[1], 1, comps[2], 0.5)
    if r == "clone":
        return pt.formula(pt.formula("CaCO[18]3+6H2O", table=t))
    if r == "clone-kw":
        return pt.formula(pt.formula("CaCO[18]3+6H2O", table=t), density=2.0, table=t)
    if r == "dict":
        return pt.formula({t.H: 2, t.O[18].ion[-2]: 1, t.D: 1})
    if r == "seq":
        return pt.formula([(1, t.Ca), (1, t.C), (3, t.O), (6, [(2, t.H[1]), (1, t.O.ion[-2])])])
    if r == "atom":
        return pt.formula(t.Fe[56].ion[2])
    if r == "arith":
        return 2 * pt.formula("NaCl", table=t) + pt.formula("D2O", table=t)
    if r == "hill":
        return pt.formula("OH2Fe[56]{2+}C", table=t).hill
    if r == "replace":
        return pt.formula("C3H4H[1]NO", table=t).replace(t.H[1], t.D, 0.5)
    if r == "change_table":
        return pt.formula("Fe[56]{2+}2O{2-}3+D{+}").change_table(t)
    if r == "nested-mixture":
        return pt.formula("20vol% (10 wt% NaCl@2.16 // H2O@1) // D2O@1n", table=t)
    raise ValueError(spec)


def mutate(obj, prop):
    """Mutate in place the value served for *prop*; returns what was done."""
    import numpy as np
    v = getattr(obj, prop)
    if isinstance(v, dict):
        if v and all(isinstance(k, int) for k in v):        # magnetic_ff: {charge: MagneticFormFactor}
            k = sorted(v)[0]
            x = v[k]
            for name in sorted(vars(x)):
                val = getattr(x, name)
                if isinstance(val, (list, tuple)) and val:
                    setattr(x, name, tuple([9.0] + list(val[1:])))
                    return "obj-attr:%s[%d].%s" % (prop, k, name)
            x.mutated = 1
            return "obj-new-attr"
        v["mutated"] = 99.0
        if "a" in v:
            v["a"] = -1.0
        return "dict-item"
    if isinstance(v, list):
        if v and hasattr(v[0], "__dict__"):
            v[0].__dict__["thermal"] = -5.0
            v[0].__dict__["mutated"] = 1
            return "list-elem-attr"
        v.append("mutated")
        return "list-append"
    if isinstance(v, np.ndarray):
        v.flat[0] = -7.0
        return "ndarray"
    if v is None or isinstance(v, (int, float, str, tuple)):
        return "immutable"
    if type(v).__name__ == "Neutron":
        v.b_c = 1234.5
        v.absorption = 4321.0
        if v.nsf_table is not None:
            v.nsf_table[1][0] = 99 + 0j
        return "Neutron-attrs"
    if type(v).__name__ == "Xray":
        t = v.sftable
        if t is not None:
            t[1][:] += 1000.0      # the whole f1 column, so that every energy is affected
            return "Xray-table"
        return "Xray-notable"
    v.mutated = 1
    return "obj-new-attr"


def complete_tables(w):
    """Initialise every remaining property group of every private table."""
    import importlib
    for name in sorted(w.tables):
        for entry in INIT_ENTRIES:
            mod, fn = entry.split(".")
            getattr(importlib.import_module("periodictable." + mod), fn)(w.tables[name])


def mutable_ids(table):
    """{id: label} of the mutable objects reachable from the atoms of *table*
    through instance attributes and the lazily served properties."""
    import numpy as np
    import types
    core = sys.modules["periodictable.core"]
    seen = {}
    keep = []

    def walk(o, label, depth):
        if o is None or isinstance(o, (bool, int, float, complex, str, bytes, type, types.FunctionType,
                                       types.ModuleType, types.MethodType, property)):
            return
        if isinstance(o, (core.Element, core.Isotope, core.Ion, core.IonSet, core.PeriodicTable)):
            return
        if isinstance(o, tuple):
            for x in o:
                walk(x, label, depth + 1)
            return
        if id(o) in seen or depth > 6:
            return
        if any(o is cls.__dict__.get("neutron") for cls in (core.Element, core.Isotope)):
            label = label + ":placeholder"      # the class-level default served to atoms without data
        seen[id(o)] = label
        keep.append(o)
        if isinstance(o, dict):
            for x in o.values():
                walk(x, label, depth + 1)
        elif isinstance(o, (list, set)):
            for x in o:
                walk(x, label, depth + 1)
        elif isinstance(o, np.ndarray):
            if o.base is not None:
                walk(o.base, label, depth + 1)
        elif hasattr(o, "__dict__"):
            for k, x in vars(o).items():
                if k != "element":
                    walk(x, label, depth + 1)

    def atom(a, names):
        for k, x in list(vars(a).items()):
            if k not in ("element", "ion", "_isotopes", "name", "symbol"):
                walk(x, k.lstrip("_"), 0)
        for p in names:
            try:
                walk(getattr(a, p), p, 0)
            except Exception:  # noqa
                pass

    for el in table:
        atom(el, LAZY_PROPS)
        for iso in el:
            atom(iso, ["neutron", "neutron_activation"])
    for a in (table.Fe.ion[2], table.Fe[56].ion[2], table.O.ion[-2], table.D.ion[1]):
        atom(a, ["xray"])
    return seen, keep


def run_history(events, want_digest=True, want_values=None, digest_tables=("public",), final=None):
    """Executed in the child. Returns dict(obs=[...], digest={tbl: {...}}, state=str)."""
    assert "periodictable" not in sys.modules
    w = World()
    obs = []
    for ev in events:
        try:
            obs.append(["ok", do_event(w, ev)])
        except BaseException as e:  # noqa
            obs.append(["exc", type(e).__name__, str(e)[:120]])
    out = {"obs": obs}
    import periodictable  # noqa
    out["state"] = abstract_state()
    if final == "c10":
        try:
            complete_tables(w)
            digest_tables = ["public"] + sorted(w.tables)
            ids = {}
            for tbl in digest_tables:
                ids[tbl] = mutable_ids(w.table(tbl))
            shared = []
            for i, a in enumerate(digest_tables):
                for b in digest_tables[i + 1:]:
                    common = set(ids[a][0]) & set(ids[b][0])
                    for k in sorted(set(ids[a][0][c] for c in common)):
                        shared.append([a, b, k])
            out["shared"] = shared
        except BaseException as e:  # noqa
            out["final_error"] = "%s: %s" % (type(e).__name__, str(e)[:200])
    if want_digest:
        out["digest"] = {}
        for tbl in digest_tables:
            if tbl == "public" or tbl in w.tables:
                out["digest"][tbl] = public_digest(w.table(tbl), tbl == "public")
    if want_values:
        out["values"] = {}
        for tbl, g in want_values:
            try:
                out["values"]["%s/%s" % (tbl, g)] = (group_values(w.table(tbl), g) if not g.startswith("calc:")
                                                      else calc(g[5:], w.table(tbl), tbl == "public"))
            except Exception as e:  # noqa
                out["values"]["%s/%s" % (tbl, g)] = "exc:%s:%s" % (type(e).__name__, e)
    return out


# ----------------------------------------------------------------------
# fork server
def _child(fn, arg, wfd):
    try:
        devnull = os.open(os.devnull, os.O_WRONLY)
        os.dup2(devnull, 2)
        try:
            res = fn(arg)
        except BaseException:  # noqa
            res = {"error": traceback.format_exc()}
        data = pickle.dumps(res, 4)
        with os.fdopen(wfd, "wb") as f:
            f.write(data)
    finally:
        os._exit(0)


def run_parallel(fn, args, par=4):
    """Run fn(arg) for each arg, each in its own forked child; keep *par* running."""
    args = list(args)
    results = [None] * len(args)
    active = {}
    nxt = 0
    while nxt < len(args) or active:
        while nxt < len(args) and len(active) < par:
            r, wfd = os.pipe()
            sys.stdout.flush()
            pid = os.fork()
            if pid == 0:
                os.close(r)
                for fd in list(active):
                    try:
                        os.close(fd)
                    except OSError:
                        pass
                _child(fn, args[nxt], wfd)
            os.close(wfd)
            active[r] = (nxt, pid, [])
            nxt += 1
        ready, _, _ = select.select(list(active), [], [], 60)
        for fd in ready:
            chunk = os.read(fd, 1 << 16)
            idx, pid, buf = active[fd]
            if chunk:
                buf.append(chunk)
                continue
            os.close(fd)
            os.waitpid(pid, 0)
            del active[fd]
            data = b"".join(buf)
            try:
                results[idx] = pickle.loads(data) if data else {"error": "child died without output"}
            except Exception:  # noqa
                results[idx] = {"error": "unreadable child output"}
    return results


def run_histories(histories, par=4, **kw):
    def fn(h):
        return run_history(h, **kw)
    return run_parallel(fn, histories, par)


# ----------------------------------------------------------------------
# canonical run
def canonical_prelude():
    """Touch every group once through an element read, in registration order."""
    return [["read", "covalent_radius", "el+", "public"],
            ["read", "crystal_structure", "el+", "public"],
            ["read", "neutron", "el+", "public"],
            ["read", "neutron_activation", "iso2", "public"],
            ["read", "xray", "el+", "public"],
            ["read", "K_alpha", "el+", "public"],
            ["read", "magnetic_ff", "el+", "public"]]


def canonical(events, par=8):
    """Canonical observation of every event: the event executed right after the canonical
    prelude, each in its OWN interpreter (so that events cannot influence each other's canonical
    observation), + the canonical digest.  The digest after prelude+event must equal the digest
    after the prelude alone, for every event: the canonical order is stable under every event."""
    pre = canonical_prelude()
    rs = run_histories([pre] + [pre + [e] for e in events], par=par)
    r0 = rs[0]
    if "error" in r0:
        raise RuntimeError("canonical run failed: " + r0["error"])
    obs = {}
    unstable = {}
    for e, r in zip(events, rs[1:]):
        if "error" in r:
            raise RuntimeError("canonical run failed: " + r["error"])
        obs[ev_key(e)] = r["obs"][len(pre)]
        d = diff_digest(r0["digest"]["public"], r["digest"]["public"])
        if d:
            unstable[ev_key(e)] = d
    return {"obs": obs, "digest": r0["digest"]["public"], "state": r0["state"], "unstable": unstable}


def ev_key(ev):
    return "/".join(str(x) for x in ev)


def diff_digest(a, b):
    return sorted(k for k in set(a) | set(b) if a.get(k) != b.get(k))


def ddmin(history, fails):
    """Delta debugging: shortest sub-history (by removing events) that still fails."""
    h = list(history)
    n = 2
    while len(h) >= 2:
        size = max(1, len(h) // n)
        subsets = [h[:i] + h[i + size:] for i in range(0, len(h), size)]
        for s in subsets:
            if s and fails(s):
                h = s
                n = max(n - 1, 2)
                break
        else:
            if size == 1:
                break
            n = min(len(h), n * 2)
    return h
