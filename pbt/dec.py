"""
Decimal arithmetic of the oracles is done in an explicit context, never in the thread's current one: the ambient
layer (pbt/ambient.py) lowers the precision of the thread's context, which a caller of the library may do and the
library must not be sensitive to.
"""
import decimal
import functools

HI = decimal.Context(prec=80, rounding=decimal.ROUND_HALF_EVEN,
                     traps=[decimal.InvalidOperation, decimal.DivisionByZero, decimal.Overflow])


def highprec(fn):
    """Run *fn* (a pure oracle function: no library calls inside) with the 80-digit context current."""
    @functools.wraps(fn)
    def wrapper(*a, **k):
        with decimal.localcontext(HI):
            return fn(*a, **k)
    return wrapper
