"""
Shared generators and comparison helpers for the neutron properties C03, C04
and C17: atom pools restricted to atoms with neutron data, compounds (flat
{atom: count} dicts and rendered derivation trees), density and wavelength
arguments, and the tolerance rule.
"""
from . import subtable
import math
from fractions import Fraction

from hypothesis import strategies as st

from .runner import Violation
from . import formula_ast as fa
from .atoms import Pool, resolve, spec_key, spec_class, DT
from .refcalc_neutron import Ref, OUTPUTS, sigma_i_of_sld_inc

_STATE = {}

REL = 1e-10


def env():
    """Per process: table, reference calculator, pools, interpolation axis."""
    if _STATE:
        return _STATE
    import numpy as np
    import periodictable
    from periodictable import nsf
    T = periodictable.elements
    R = Ref(T)
    pool = Pool(T)
    S = _STATE
    S.update(np=np, pt=periodictable, nsf=nsf, table=T, ref=R, pool=pool)

    def data(sym, a):
        z = pool.Z[sym]
        return R.has_data((z, a, 0))

    elements, isotopes, ions, iso_ions, edep, eflag, nodata = [], [], [], [], [], [], []
    for sym in pool.symbols:
        z, isos, chg = pool.info[sym]
        el = T[z]
        for a in [0] + list(isos):
            key = (z, a, 0)
            if R.lacks_data(key):
                nodata.append([sym, a, 0])
                continue
            if not R.has_data(key):
                continue                      # Ra, Ra-226: b_c without density, not judged
            atom = el[a] if a else el
            if R.is_tabulated(z, a):
                edep.append([sym, a, 0])
                for c in chg:
                    edep.append([sym, a, c])
                continue
            if atom.neutron.is_energy_dependent:
                eflag.append([sym, a, 0])
            (isotopes if a else elements).append([sym, a, 0])
            for c in chg:
                (iso_ions if a else ions).append([sym, a, c])
    S["specs"] = dict(element=elements, isotope=isotopes, ion=ions, isotope_ion=iso_ions,
                      edep=edep, eflag=eflag, nodata=nodata)
    S["edep_neutral"] = [s for s in edep if s[2] == 0]
    S["with_data"] = [s for s in elements + isotopes + S["edep_neutral"]]
    S["node_meV"] = sorted(set(round(e * 1000.0, 6) for rows in R.rows.values() for e, _ in rows))
    S["axis"] = _probe_axis(S)
    return S


_PRIVATE = {}
CUSTOM_BC = [("H", 0), ("O", 0), ("C", 0), ("Fe", 0), ("Ni", 58), ("Si", 0), ("Na", 0), ("Cl", 0)]


def penv():
    """A private, customised PeriodicTable (one per process) with its own reference calculator.
    Built like doc/sphinx/guide/customizing.rst: mass and density initialised on the private
    table and rescaled to H[1] = 1, then the neutron data loaded on it, and the scattering
    length of a few atoms changed (b_c and the real part of b_c_complex together), so that any
    mix-up with the public table shows in the numbers."""
    if _PRIVATE:
        return _PRIVATE
    S = env()
    from periodictable import core, mass, density, nsf
    pub = S["table"]
    pub.H.neutron.b_c                      # the public neutron data are loaded first
    T = subtable.new("c03-private-H=1")
    mass.init(T)
    density.init(T)
    scale = pub.H[1].mass
    for el in T:
        el._mass /= scale
        if getattr(el, "_density", None) is not None:
            el._density /= scale
        for iso in el:
            iso._mass /= scale
    nsf.init(T)
    for sym, a in CUSTOM_BC:
        at = T.symbol(sym)
        at = at[a] if a else at
        n = at.neutron
        n.b_c = n.b_c * 1.5
        n.b_c_complex = complex(n.b_c, n.b_c_complex.imag)
    _PRIVATE.update(table=T, ref=Ref(T), pool=Pool(T), scale=scale)
    return _PRIVATE


def _probe_axis(S):
    """Which reading of 'interpolated' the tree under test uses (documentation is
    silent): linear in wavelength or linear in energy.  One choice per run."""
    R, pt, T = S["ref"], S["pt"], S["table"]
    z = T.Gd.number
    rows = R.rows[(z, 157)]
    ok = {"wavelength": True, "energy": True}
    for j in (5, 30, 70):
        lam = 0.5 * (R.wavelength(rows[j][0] * 1000) + R.wavelength(rows[j + 1][0] * 1000))
        got = pt.neutron_sld({T.Gd[157]: 1}, density=7.0, wavelength=lam)
        for axis in ok:
            v, f = R.scattering({(z, 157, 0): 1}, 7.0, lam, axis)
            for o, g in zip(("sld_re", "sld_im"), got):
                if not abs(g - v[o]) <= 1e-9 * abs(v[o]) + f[o]:
                    ok[axis] = False
    if ok["wavelength"] or not ok["energy"]:
        return "wavelength"
    return "energy"


# ----------------------------------------------------------------------
# strategies (call env() first)
def atom_spec(edep_weight=5):
    S = env()["specs"]
    alts = [st.sampled_from(S["element"])] * 3 + [st.sampled_from(S["isotope"])] * 3
    alts += [st.sampled_from(S["ion"])] * 2 + [st.sampled_from(S["isotope_ion"])]
    alts += [st.sampled_from([["D", 0, 0], ["T", 0, 0]]),
             st.sampled_from([[s, 0, c] for s in ("D", "T") for c in env()["pool"].info["H"][2]])]
    alts += [st.sampled_from(S["edep"])] * edep_weight + [st.sampled_from(S["eflag"])]
    return st.one_of(*alts)


def _float_count():
    return st.one_of(st.integers(1, 12), st.integers(1, 12),
                     st.floats(-3, 3).map(lambda x: float("%.6g" % 10 ** x)))


def common_factor():
    """1 mostly; otherwise a common multiplier of all counts over 24 decades (the results do not
    depend on the size of the unit cell)."""
    return st.one_of(st.just(1), st.just(1), st.just(1),
                     st.floats(-12, 12).map(lambda x: float("%.6g" % 10 ** x)),
                     st.sampled_from([1e-12, 1e-10, 1e-9, 1e9, 1e12]))


def flat_compound(max_atoms=8, atoms=None):
    a = atoms if atoms is not None else atom_spec()
    base = st.lists(st.tuples(a, _float_count()).map(list), min_size=1, max_size=max_atoms,
                    unique_by=lambda t: tuple(_canon(t[0])))
    return st.tuples(base, common_factor()).map(
        lambda t: {"kind": "dict", "atoms": [[sp, n if t[1] == 1 else n * t[1]] for sp, n in t[0]]})


def _canon(spec):
    s, a, c = spec
    return ("H", DT[s], c) if s in DT else (s, a, c)


def tree_compound(depth=2, atoms=None, max_groups=3, max_atoms=3):
    a = atoms if atoms is not None else atom_spec()
    return fa.compound(env()["pool"], depth=depth, atoms=a, max_groups=max_groups, max_atoms=max_atoms,
                       density=False).map(lambda t: {"kind": "tree", "tree": t})


def compound(depth=2):
    return st.one_of(flat_compound(), tree_compound(depth))


def density_value():
    """(0, 25] g/cm^3: ordinary condensed matter values, and log-uniform down to 1e-12 (dilute
    gases) with a share of the extreme tail."""
    lg = lambda lo, hi: st.floats(lo, hi).map(lambda x: float("%.6g" % 10 ** x))
    return st.one_of(st.integers(1, 25000).map(lambda k: k / 1000.0),
                     st.integers(1, 25000).map(lambda k: k / 1000.0),
                     st.integers(1, 999).map(lambda k: k / 100000.0),
                     lg(-12, math.log10(25.0)), lg(-12, -8),
                     st.sampled_from([1e-12, 1.8e-9, 5e-10, 1e-9, 25.0]))


def density_arg(tag=True):
    alts = [st.tuples(st.just("density"), density_value()), st.tuples(st.just("natural_density"), density_value())]
    if tag:
        alts.append(st.tuples(st.sampled_from(["tag:", "tag:n", "tag:i"]),
                              st.integers(1, 25000).map(lambda k: k / 1000.0)))
    return st.one_of(*alts).map(list)


def one_wavelength():
    E = env()
    R = E["ref"]
    lo, hi = math.log10(0.05), math.log10(50.0)
    return st.one_of(
        st.floats(lo, hi).map(lambda x: min(50.0, max(0.05, 10 ** x))),
        st.floats(math.log10(0.3), math.log10(9.5)).map(lambda x: 10 ** x),
        st.floats(math.log10(0.3), math.log10(9.5)).map(lambda x: 10 ** x),
        st.sampled_from(E["node_meV"]).map(R.wavelength),
        st.sampled_from([0.05, 50.0, 1.798, 4.75, 0.2, 12.0]))


SCALAR_FORMS = ("scalar", "int", "np.float32", "np.float64", "np.int64", "0d", "0d-int")
INT_FORMS = ("int", "np.int64", "0d-int", "intlist", "inttuple", "intarray32", "intarray64")
VECTOR_FORMS = ("list", "tuple", "array", "array2d", "intlist", "inttuple", "intarray32", "intarray64")
ALL_FORMS = ("scalar", "scalar", "scalar", "int", "np.float32", "np.float64", "np.int64", "0d", "0d-int",
             "list", "tuple", "array", "array", "array2d", "intlist", "intlist", "inttuple", "intarray32", "intarray64")


def wavelength_arg(max_len=6, forms=ALL_FORMS, by=("wavelength", "energy")):
    def mk(t):
        form, how, lams, r = t
        if form in SCALAR_FORMS:
            lams = lams[:1]
        shape = None
        if form == "array2d":
            n = len(lams)
            rows = [k for k in range(1, n + 1) if n % k == 0]
            k = rows[r % len(rows)]
            shape = [k, n // k]
        return {"form": form, "by": how, "lams": lams, "shape": shape}
    return st.tuples(st.sampled_from(forms), st.sampled_from(by),
                     st.lists(one_wavelength(), min_size=1, max_size=max_len), st.integers(0, 11)).map(mk)


def wl_values(form, by, lams):
    """(numbers handed to the library, wavelengths at which the reference judges them).
    Integer forms carry whole Angstrom / whole meV; np.float32 carries the float32 value."""
    E = env()
    np, R = E["np"], E["ref"]
    vals = [R.energy(l) for l in lams] if by == "energy" else list(lams)
    if form in INT_FORMS:
        hi = 50 if by == "wavelength" else 10 ** 6
        vals = [max(1, min(hi, int(round(x)))) for x in vals]
    elif form == "np.float32":
        vals = [float(np.float32(x)) for x in vals]
    ref = [R.wavelength(float(x)) for x in vals] if by == "energy" else [float(x) for x in vals]
    return vals, ref


def wl_object(form, vals, shape=None):
    """(argument object, expected shape of the outputs)"""
    np = env()["np"]
    n = len(vals)
    if form in ("scalar", "int"):
        return vals[0], ()
    if form == "np.float32":
        return np.float32(vals[0]), ()
    if form == "np.float64":
        return np.float64(vals[0]), ()
    if form == "np.int64":
        return np.int64(vals[0]), ()
    if form in ("0d", "0d-int"):
        return np.array(vals[0]), ()
    if form in ("list", "intlist"):
        return list(vals), (n,)
    if form in ("tuple", "inttuple"):
        return tuple(vals), (n,)
    if form == "array":
        return np.array(vals, dtype=float), (n,)
    if form == "intarray32":
        return np.array(vals, dtype=np.int32), (n,)
    if form == "intarray64":
        return np.array(vals, dtype=np.int64), (n,)
    if form == "array2d":
        return np.array(vals, dtype=float).reshape(tuple(shape)), tuple(shape)
    raise ValueError(form)


def wl_rel(form):
    """float32 input gives float32 precision in the outputs that are proportional to it"""
    return 1e-6 if form == "np.float32" else REL


# ----------------------------------------------------------------------
# building the library arguments
def build_compound(c, table=None):
    """(object for the library, {(Z,A,charge): float count}, specs, description); dict
    compounds are keyed by the atoms of *table* (default: the public table)"""
    E = env()
    if c["kind"] == "dict":
        obj, comp = {}, {}
        for spec, n in c["atoms"]:
            atom = resolve(table if table is not None else E["table"], spec)
            assert atom not in obj
            obj[atom] = n
            comp[spec_key(E["pool"], spec)] = float(n)
        return obj, comp, [s for s, _ in c["atoms"]], "dict"
    tree = c["tree"]
    comp = dict((k, float(v)) for k, v in fa.composition(E["pool"], tree).items())
    return fa.render(tree), comp, [a[1] for a, _ in fa.atoms_of(tree["g"])], "string"


def describe(c):
    if c["kind"] == "dict":
        return "{" + ", ".join("%s: %r" % (_spec_str(s), n) for s, n in c["atoms"]) + "}"
    return fa.render(c["tree"])


def _spec_str(spec):
    return fa.render_atom(["a", spec, False, None])


def build_density(d, obj, comp):
    """(obj, kwargs, reference density)"""
    R = env()["ref"]
    how, val = d
    if how == "density":
        return obj, {"density": val}, val
    if how == "natural_density":
        return obj, {"natural_density": val}, R.density_from_natural(comp, val)
    suffix = how.split(":")[1]
    if not isinstance(obj, str):
        return obj, {"density": val}, val
    s = obj + "@" + ("%.3f" % val) + suffix
    return s, {}, (R.density_from_natural(comp, val) if suffix == "n" else val)


def build_wavelength(w):
    """(kwargs, [lambda...] as the reference sees them, expected output shape or () for scalar)"""
    vals, lams = wl_values(w["form"], w["by"], list(w["lams"]))
    arg, shape = wl_object(w["form"], vals, w.get("shape"))
    return {("energy" if w["by"] == "energy" else "wavelength"): arg}, lams, shape


def flatten(result):
    """neutron_scattering result -> dict over OUTPUTS"""
    sld, xs, pen = result
    if sld is None or xs is None:
        from .runner import Violation
        raise Violation("c03:none-with-data", "the calculator returned %r although every atom of the compound has "
                        "neutron data in the table" % (result,))
    return dict(zip(OUTPUTS, list(sld) + list(xs) + [pen]))


def check_shape(prefix, name, value, shape, case):
    np = env()["np"]
    got = np.shape(value)
    if got != tuple(shape):
        raise Violation("%s:shape" % prefix, "%s has shape %r, wavelength argument has shape %r"
                        % (name, got, tuple(shape)), case)


def close(got, want, floor, rel=REL):
    return abs(got - want) <= rel * abs(want) + floor      # False for NaN


F32_DELTA = 5e-7      # a float32 energy/wavelength moves the point of evaluation by a few float32 ulps


def compare_outputs(prefix, got, comp, density, lams, case, tag, outputs=OUTPUTS, axis=None, rel=REL, ref=None):
    """got: dict output -> value/array (already shape checked); reference at each wavelength.

    rel > REL marks the np.float32 argument form: the library converts and interpolates in float32,
    so for compounds with an energy dependent atom it may evaluate anywhere within F32_DELTA
    (relative) of the exact wavelength.  An output is then accepted inside [min, max] of the
    reference over that interval (its ends, the exact point and every table node inside it: the
    reference is piecewise linear), widened by rel x |value| and rel x the scale of the operands
    (not of the possibly cancelling sum).  Every other case: |got - ref| <= rel |ref| + floor."""
    E = env()
    np = E["np"]
    R = ref or E["ref"]
    axis = axis or E["axis"]
    flat = dict((o, np.asarray(got[o], dtype=float).reshape(-1)) for o in outputs)
    wide = rel > REL and any(R.is_tabulated(z, a) for z, a, c in comp)
    for i, lam in enumerate(lams):
        v, f = R.scattering(comp, density, lam, axis)
        pts = [(v, f)]
        if wide:
            lo, hi = lam * (1 - F32_DELTA), lam * (1 + F32_DELTA)
            extra = [lo, hi]
            for z, a, c in comp:
                if R.is_tabulated(z, a):
                    extra += [x for x in R.node_wavelengths(z, a) if lo < x < hi]
            pts += [R.scattering(comp, density, x, axis) for x in extra]
        for o in outputs:
            g = float(flat[o][i])
            if wide:
                k = rel / 1e-13                      # floors are 1e-13 x operand scale
                vals = [p[0][o] for p in pts]
                tol = rel * max(abs(x) for x in vals) + k * max(p[1][o] for p in pts)
                ok = min(vals) - tol <= g <= max(vals) + tol
                if o == "sld_inc":
                    sv = [p[0]["sigma_i"] for p in pts]
                    st_ = 2 * rel * max(sv) + k * max(p[1]["sigma_i"] for p in pts)
                    ok = ok and g >= 0 and min(sv) - st_ <= sigma_i_of_sld_inc(g, v["N"]) <= max(sv) + st_
            else:
                ok = close(g, v[o], f[o], rel)
                if o == "sld_inc":
                    ok = ok and g >= 0 and close(sigma_i_of_sld_inc(g, v["N"]), v["sigma_i"], f["sigma_i"], 2 * rel)
            if not ok:
                raise Violation("%s:%s:%s" % (prefix, o, tag),
                                "%s = %r, documented equations give %r at wavelength %r A (density %r)"
                                % (o, g, v[o], lam, density), case)


class Retained(object):
    """Results handed to the caller stay the caller's: every array returned by a sequence of calls is
    kept together with a copy taken at return time; later calls must not change it, and arrays of
    different calls (or the components of one result, or the caller's own argument arrays) must not
    share memory."""

    def __init__(self, prefix, case, foreign=()):
        self.prefix, self.case = prefix, case
        self.kept = []                      # (label, name, object, copy)
        self.foreign = list(foreign)        # (name, array) of the caller

    def _arrays(self, named):
        np = env()["np"]
        return [(n, x) for n, x in named if isinstance(x, np.ndarray)]

    def add(self, label, named):
        """named: [(output name, value)] of one call"""
        np = env()["np"]
        self.verify("before " + label)
        new = self._arrays(named)
        for i, (n1, x1) in enumerate(new):
            for n2, x2 in new[i + 1:]:
                if x1.size and x2.size and np.shares_memory(x1, x2):
                    raise Violation(self.prefix + ":results-share-memory",
                                    "%s: %s and %s of one result share memory" % (label, n1, n2), self.case)
            for lab, n2, x2, _ in self.kept:
                if x1.size and x2.size and np.shares_memory(x1, x2):
                    raise Violation(self.prefix + ":results-share-memory",
                                    "%s of %s shares memory with %s of %s" % (n1, label, n2, lab), self.case)
            for n2, x2 in self._arrays(self.foreign):
                if x1.size and x2.size and np.shares_memory(x1, x2):
                    raise Violation(self.prefix + ":results-share-memory",
                                    "%s of %s shares memory with the caller's %s" % (n1, label, n2), self.case)
        for n, x in new:
            self.kept.append((label, n, x, x.copy()))
        self.verify("after " + label)

    def verify(self, when=""):
        np = env()["np"]
        for lab, n, x, c in self.kept:
            if not (x.shape == c.shape and bool(np.array_equal(x, c, equal_nan=True))):
                raise Violation(self.prefix + ":result-changed-after-return",
                                "%s returned by %s was %r when returned and is %r %s" % (n, lab, c, x, when), self.case)


def has_edep(comp):
    R = env()["ref"]
    return any(R.is_tabulated(z, a) for z, a, c in comp)


def comp_classes(specs, comp):
    R = env()["ref"]
    cls = set("atom:" + spec_class(s) for s in specs)
    n_e = sum(1 for z, a, c in comp if R.is_tabulated(z, a))
    if n_e:
        cls.add("edep:present")
        cls.add("edep:with-ordinary" if n_e < len(comp) else "edep:only")
        if any(R.is_tabulated(z, a) and (z, a) == (R.zLu, 0) for z, a, c in comp):
            cls.add("edep:natural-Lu")
    else:
        cls.add("edep:absent")
    if any(s in env()["specs"]["eflag"] for s in specs):
        cls.add("atom:E-flag-no-table")
    cls.add("natoms:%d" % min(len(comp), 8))
    return sorted(cls)


# ----------------------------------------------------------------------
# decimal counts (C04 regrouping)
def dec(fr):
    """Spelling of a positive Fraction with a finite decimal expansion as a grammar count."""
    fr = Fraction(fr)
    assert fr > 0
    k = 0
    while (fr * 10 ** k).denominator != 1:
        k += 1
        if k > 40:
            raise ValueError(fr)
    if k == 0:
        return str(fr.numerator)
    digits = str(int(fr * 10 ** k)).rjust(k + 1, "0")
    return digits[:-k] + "." + digits[-k:]
