"""
One formula holding atoms of TWO tables (an atom-keyed mapping accepts any atoms; a user who customises one element on a
private table and takes the rest from the public one builds exactly this).  Every atom keeps its own count, mass,
charge and covalent radius: equal species of different tables are different atoms.
"""
import math


def check(ctx, prop):
    from .runner import Violation
    import periodictable as pt
    from periodictable import core, mass, density, covalent_radius
    from . import subtable
    T = subtable.new("mixed-%s" % prop.lower())
    mass.init(T)
    density.init(T)
    covalent_radius.init(T)
    pt.elements.Fe.covalent_radius           # public group loaded
    T.Fe._mass = 60.0
    T.Fe.covalent_radius = 1.0
    T.H._mass = 1.5
    pub = pt.elements
    cases = [
        ("same element, two tables", {pub.H: 2, T.H: 3, pub.O: 1}),
        ("same ion, two tables", {pub.Fe.ion[2]: 1, T.Fe.ion[2]: 2, pub.O.ion[-2]: 3}),
        ("same isotope, two tables", {pub.Fe[56]: 1, T.Fe[56]: 4, T.Fe: 2, pub.Fe: 1}),
    ]
    for label, d in cases:
        case = {"kind": "mixed-tables", "property": prop, "case": label}
        ctx.case(("mixed-tables", prop, label), nontrivial=True, sample=case, cls=["mixed-tables"])
        for how, f in (("dict", pt.formula(d)), ("sequence", pt.formula([(n, a) for a, n in d.items()])),
                       ("sum", sum((n * pt.formula(a) for a, n in list(d.items())[1:]),
                                   list(d.items())[0][1] * pt.formula(list(d.items())[0][0])))):
            atoms = f.atoms
            if len(atoms) != len(d) or any(not any(a is b and abs(atoms[a] - n) < 1e-12 for a in atoms) for b, n in d.items()):
                raise Violation("%s:mixed-tables:atoms" % prop.lower(), "%s via %s: atoms %r, given %r" % (label, how, atoms, d), case)
            want_m = sum(n * a.mass for a, n in d.items())
            if abs(f.mass - want_m) > 1e-12 * want_m:
                raise Violation("%s:mixed-tables:mass" % prop.lower(), "%s via %s: mass %r, sum of the atoms' own masses %r"
                                % (label, how, f.mass, want_m), case)
            want_q = sum(n * getattr(a, "charge", 0) for a, n in d.items())
            if abs(f.charge - want_q) > 1e-12:
                raise Violation("%s:mixed-tables:charge" % prop.lower(), "%s via %s: charge %r expected %r" % (label, how, f.charge, want_q), case)
            h = f.hill
            if sorted((id(a), n) for a, n in h.atoms.items()) != sorted((id(a), n) for a, n in atoms.items()):
                raise Violation("%s:mixed-tables:hill" % prop.lower(), "%s via %s: Hill form %r has atoms %r, the formula %r"
                                % (label, how, h, h.atoms, atoms), case)
            want_v = sum(n * 4.0 / 3.0 * math.pi * a.covalent_radius ** 3 for a, n in d.items()) / (math.pi / 6) * 1e-24
            got_v = f.volume("cubic")
            if abs(got_v - want_v) > 1e-12 * want_v:
                raise Violation("%s:mixed-tables:volume" % prop.lower(), "%s via %s: volume('cubic') %r, from the atoms' own radii %r"
                                % (label, how, got_v, want_v), case)


def task(ctx, prop):
    ctx.check(lambda c, case: check(c, prop), {"kind": "mixed-tables", "property": prop})
