"""
Coverage-guided search (atheris / libFuzzer) over the SAME strategies and oracles as the Hypothesis search.

A property module registers a thorough-tier task

    ("fuzz-valid", fuzz.from_task, dict(prop="C01", source="valid-0", runs=40000))

where *source* names one of its own Hypothesis tasks: the driver calls that task with a capturing context, takes the
(strategy, fn, to_case) of its first `ctx.search(...)` call, and hands them to the fuzzer instead of to Hypothesis'
own generator.  The fuzzer runs in a subprocess (libFuzzer owns its process and leaves through os._exit, so no result
could be returned from inside a task):

    python -m pbt.fuzz C01 valid-0 --runs 30000 --seed 7 --out /path/result.json --corpus DIR [--skip bucket ...]

Bytes are decoded into structured values by Hypothesis itself (`test.hypothesis.fuzz_one_input`), so libFuzzer mutates
the choice sequence of the strategy while coverage feedback comes from periodictable and pyparsing, which are imported
under atheris' instrumentation.  The semantic oracle is inside the target; a crash of the library is judged like in the
runner.  Every failure found is replayed in the parent task WITHOUT the fuzzer (`module.replay`), and only a failure that
reproduces there is reported; `-seed` and `-runs` pin a campaign only approximately, so the saved case is the
reproducible unit.  If atheris is not installed the task counts one inconclusive unit and reports nothing.
"""
import json
import os
import subprocess
import sys
import time

HERE = os.path.dirname(os.path.dirname(os.path.abspath(__file__)))
DEPS = os.path.join(HERE, ".deps")


def available():
    return os.path.isdir(os.path.join(DEPS, "atheris"))


def extend(out, prop, sources, runs=12000):
    """Append one coverage-guided task per source task name to a thorough-tier task list."""
    for src in sources:
        out.append(("fuzz:" + src, from_task, dict(prop=prop, source=src, runs=runs)))
    return out


def from_task(ctx, prop, source, runs, max_rounds=2):
    return task(ctx, prop, source, runs, max_rounds)


def task(ctx, prop, target, runs, max_rounds=2):
    """Parent side: run the campaign, replay what it found, record violations."""
    from .runner import Violation
    import importlib
    if not available():
        ctx.inconclusive += 1
        ctx.count("fuzz:atheris-not-installed")
        return
    mod = importlib.import_module("pbt.props." + prop.lower())
    skip = sorted(ctx.excluded)
    out = "/tmp/verif-fuzz-%s-%s-%d.json" % (prop, target, os.getpid())
    corpus = "/tmp/verif-fuzz-corpus-%s-%s-%d" % (prop, target, os.getpid())
    import shutil
    for rnd in range(max_rounds):
        if os.path.exists(out):
            os.remove(out)
        env = dict(os.environ, PYTHONPATH=os.pathsep.join([HERE, DEPS, os.environ.get("PYTHONPATH", "")]))
        cmd = [sys.executable, "-m", "pbt.fuzz", prop, target, "--runs", str(runs), "--seed", str(ctx.seed),
               "--out", out, "--corpus", corpus] + [a for b in skip for a in ("--skip", b)]
        t0 = time.time()
        shutil.rmtree(corpus, ignore_errors=True)
        os.makedirs(corpus)
        try:
            p = subprocess.run(cmd, env=env, cwd=HERE, capture_output=True, text=True)
        finally:
            shutil.rmtree(corpus, ignore_errors=True)
        res = json.load(open(out)) if os.path.exists(out) else None
        if os.path.exists(out):
            os.remove(out)
        if res is None:
            raise RuntimeError("fuzz driver left no result (exit %s): %s" % (p.returncode, (p.stderr or "")[-600:]))
        ctx.count("fuzz:execs", res["execs"])
        ctx.count("fuzz:decoded-cases", res["cases"])
        ctx.evaluations += res["cases"]
        for h in res.get("nontrivial", []):
            ctx.nontrivial.add(bytes.fromhex(h))
        for s in res.get("samples", [])[:3]:
            if len(ctx.nt_samples) < 8:
                ctx.nt_samples.append(s)
        for k, v in res.get("classes", {}).items():
            ctx.count(k, v)
        ctx.extra.setdefault("fuzz", []).append({"target": target, "round": rnd, "execs": res["execs"],
                                                  "cases": res["cases"], "wall_s": round(time.time() - t0, 1),
                                                  "found": (res.get("violation") or {}).get("bucket")})
        v = res.get("violation")
        if not v:
            return
        # replay without the fuzzer: only a failure that reproduces from the saved case is reported
        try:
            mod.replay(ctx, v["case"])
        except Violation as again:
            ctx.violation(again.bucket, again.message + " [found by coverage-guided fuzzing]",
                          again.case if again.case is not None else v["case"])
        except Exception:  # noqa - judged by the runner's generic handling
            ctx.check(lambda c, case: mod.replay(c, case), v["case"])
        else:
            ctx.inconclusive += 1
            ctx.count("fuzz:found-but-not-reproduced")
        skip.append(v["bucket"])


# ----------------------------------------------------------------------
def main(argv):
    import argparse
    ap = argparse.ArgumentParser()
    ap.add_argument("prop")
    ap.add_argument("target")
    ap.add_argument("--runs", type=int, default=10000)
    ap.add_argument("--seed", type=int, default=1)
    ap.add_argument("--out", required=True)
    ap.add_argument("--skip", action="append", default=[])
    ap.add_argument("--corpus", required=True)
    a = ap.parse_args(argv)
    repo = os.environ.get("VERIF_REPO", "/repo")
    sys.path.insert(0, repo)
    import warnings
    warnings.simplefilter("ignore")
    import atheris
    with atheris.instrument_imports(include=["periodictable", "pyparsing"]):
        import periodictable  # noqa
        import periodictable.formulas  # noqa
    assert os.path.abspath(periodictable.__file__).startswith(os.path.abspath(repo)), periodictable.__file__
    import importlib
    from hypothesis import given, settings, HealthCheck
    from .runner import Ctx, Violation, lib_frame
    mod = importlib.import_module("pbt.props." + a.prop.lower())
    ctx = Ctx(a.prop, "fuzz-" + a.target, "thorough", a.seed, a.skip)

    state = {"execs": 0, "violation": None, "last": 0.0}

    def dump():
        res = {"execs": state["execs"], "cases": ctx.evaluations, "violation": state["violation"],
               "nontrivial": [h.hex() for h in list(ctx.nontrivial)[:200000]], "samples": ctx.nt_samples[:3],
               "classes": ctx.classes}
        tmp = a.out + ".tmp"
        with open(tmp, "w") as f:
            json.dump(res, f)
        os.replace(tmp, a.out)

    def campaign(name, strategy, fn, max_examples, to_case=None, **kw):
        """Stands in for ctx.search inside the source task: whatever the task set up before its search is in place."""
        to_case = to_case or (lambda v: v)

        @settings(database=None, deadline=None, suppress_health_check=list(HealthCheck))
        @given(strategy)
        def test(value):
            try:
                fn(ctx, value)
            except Violation as v:
                if v.bucket in ctx.excluded:
                    return
                state["violation"] = {"bucket": v.bucket, "message": v.message,
                                      "case": v.case if v.case is not None else to_case(value)}
                dump()
                os._exit(0)
            except Exception as e:  # noqa
                fr = lib_frame(e.__traceback__)
                if fr is None:
                    raise
                bucket = "exc:%s:%s" % (type(e).__name__, fr)
                if bucket in ctx.excluded:
                    return
                state["violation"] = {"bucket": bucket, "message": "%s: %s" % (type(e).__name__, str(e)[:200]),
                                      "case": to_case(value)}
                dump()
                os._exit(0)

        fuzz_one = test.hypothesis.fuzz_one_input

        def one(data):
            state["execs"] += 1
            fuzz_one(data)
            now = time.time()
            if now - state["last"] > 5.0 or state["execs"] >= a.runs - 3:
                state["last"] = now
                dump()

        # a few large pseudo-random buffers so that strategies which need many choices decode from the start
        import random
        rnd = random.Random(a.seed)
        for k in range(24):
            with open(os.path.join(a.corpus, "seed-%02d" % k), "wb") as f:
                f.write(bytes(rnd.getrandbits(8) for _ in range(32 * (1 + k % 8) * (1 + k // 8))))
        dump()
        atheris.Setup([sys.argv[0], "-runs=%d" % a.runs, "-seed=%d" % (a.seed or 1), "-max_len=2048",
                       "-print_final_stats=0", "-verbosity=0", "-artifact_prefix=%s/" % a.corpus, a.corpus], one)
        # libFuzzer leaves through _exit when the runs are used up: the periodic dump() is the result
        atheris.Fuzz()
        dump()
        os._exit(0)

    ctx.search = campaign
    if hasattr(mod, "prepare"):
        ctx.shared = mod.prepare("thorough")
    for name, tfn, kw in mod.tasks("thorough"):
        if name == a.target:
            tfn(ctx, **kw)
            break
    raise SystemExit("task %r of %s made no ctx.search call" % (a.target, a.prop))


if __name__ == "__main__":
    main(sys.argv[1:])
