"""
Private tables that are instances of a *user subclass* of the public class PeriodicTable.

doc/sphinx/guide/customizing.rst creates private tables with ``core.PeriodicTable(name)`` and remarks that support
for custom tables "could be made much smoother by delegating all properties not defined in the custom table back to
the base table".  A user can do exactly that with a subclass; the library's own code must then keep addressing the
table through the documented interface (``table[Z]``, ``table.symbol()``, attributes the table defines itself),
never through attributes a subclass may answer differently or through the iteration order of a subclass.

OverlayTable  undefined attributes are looked up in the public table (``__getattr__``)
ChemicalTable iteration lists the chemical elements only (no neutron); lookups are untouched
Both          both customisations
"""


def classes():
    from periodictable import core, elements

    class OverlayTable(core.PeriodicTable):
        def __getattr__(self, name):
            return getattr(elements, name)

    class ChemicalTable(core.PeriodicTable):
        def __iter__(self):
            for el in core.PeriodicTable.__iter__(self):
                if el.number > 0:
                    yield el

    class Both(ChemicalTable):
        def __getattr__(self, name):
            return getattr(elements, name)

    return {"overlay": OverlayTable, "chemical": ChemicalTable, "both": Both}


def make(flavour, name):
    return classes()[flavour](name)


# set by pbt/ambient.py ("subclass" perturbation): every private table a check creates is then an instance of the
# user subclass *Both* instead of core.PeriodicTable
FLAVOUR = None


def new(name):
    """A private table for a check: core.PeriodicTable(name), or the user subclass when the ambient layer says so."""
    if FLAVOUR is None:
        from periodictable import core
        return core.PeriodicTable(name)
    return make(FLAVOUR, name)
