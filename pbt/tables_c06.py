"""
Independent readers of the tables embedded in periodictable/mass.py,
density.py and constants.py (used by props/c06.py only).

Nothing here goes through the loaders under test: the *source text* of the
modules is parsed with ``ast`` (string constants, keyword names of the
``dict(...)`` call, numeric literals), rows are split with regular
expressions and numbers are held as ``decimal.Decimal``.
"""
import ast
import os
import re
from decimal import Decimal, getcontext
from .dec import highprec, HI

# arithmetic on these Decimals is done in pbt.dec.HI (explicitly or under @highprec), never in the thread context

SQRT12 = HI.sqrt(Decimal(12))


def module_path(name):
    import periodictable
    return os.path.join(os.path.dirname(os.path.abspath(periodictable.__file__)), name + ".py")


def module_ast(name):
    with open(module_path(name), "rb") as f:
        return ast.parse(f.read())          # bytes: the coding cookie is honoured


def assigned(tree, names):
    """{name: ast value node} for top-level ``name = ...`` statements (last one wins)."""
    out = {}
    for node in tree.body:
        if isinstance(node, ast.Assign) and len(node.targets) == 1 and isinstance(node.targets[0], ast.Name):
            if node.targets[0].id in names:
                out[node.targets[0].id] = node.value
    return out


# ----------------------------------------------------------------------
# uncertainty notation
_NUM = r"[-+]?(?:\d+(?:\.\d*)?|\.\d+)"
_RE_PAREN = re.compile(r"^(%s)\((\d+(?:\.\d*)?|\.\d+)\)(#?)$" % _NUM)
_RE_PLAIN = re.compile(r"^(%s)$" % _NUM)
# blanks inside the brackets do not change what the interval denotes: [lo, hi]
_RE_NOMINAL = re.compile(r"^\[\s*(%s)\s*\]$" % _NUM)
_RE_RANGE = re.compile(r"^\[\s*(%s)\s*,\s*(%s)\s*\]$" % (_NUM, _NUM))
# one value cell of a white-space separated table: a bracketed group (blanks allowed inside) or a blank-free token
_CELL = r"(\[[^\]]*\]|[^\s\[\]]\S*)"


def decimals_of(text):
    """number of digits after the decimal point as written"""
    return len(text.split(".", 1)[1]) if "." in text else 0


@highprec
def read_unc(text):
    """
    Read one value in the documented notations.  Returns a dict with
    ``kind`` in {missing, plain, paren, nominal, range} and
    ``value``/``unc`` as Decimal (None, None for missing); for ``range``
    also ``low``/``high``.  Raises ValueError for anything else.
    """
    if text == "":
        return dict(kind="missing", value=None, unc=None)
    m = _RE_RANGE.match(text)
    if m:
        lo, hi = Decimal(m.group(1)), Decimal(m.group(2))
        return dict(kind="range", low=lo, high=hi, value=(lo + hi) / 2, unc=(hi - lo) / SQRT12)
    m = _RE_NOMINAL.match(text)
    if m:
        return dict(kind="nominal", value=Decimal(m.group(1)), unc=Decimal(0))
    m = _RE_PAREN.match(text)
    if m:
        v, u = m.group(1), m.group(2)
        if "." in u:
            unc = Decimal(u)                                    # 23.0(1.0): literal
        else:
            unc = Decimal(int(u)).scaleb(-decimals_of(v))       # 23.0035(12): units of the last decimal
        return dict(kind="paren", value=Decimal(v), unc=unc, hash=bool(m.group(3)),
                    unc_digits=len(u), decimals=decimals_of(v), unc_point="." in u)
    m = _RE_PLAIN.match(text)
    if m:
        return dict(kind="plain", value=Decimal(m.group(1)), unc=Decimal(0))
    raise ValueError("not in a documented uncertainty notation: %r" % (text,))


# ----------------------------------------------------------------------
# mass.py
_RE_ISOMASS = re.compile(r"^(\d+)-([A-Za-z]+)-(\d+),([^,]*),([^,]*),([^,]*)$")
_RE_ELMASS = re.compile(r"^(\d+)\s+([A-Za-z]+)\s+(\S+)\s+%s" % _CELL)
_RE_ABHEAD = re.compile(r"^(\d+)\s+([A-Za-z]+)\s+(\S+)")
_RE_ABISO = re.compile(r"^[ \t]+(\d+)\s+%s" % _CELL)


@highprec
def mass_tables():
    """
    Returns dict with
      isotope_mass: list of (z, sym, a, mass_text, avg_text)  in file order
      element_mass: {z: (sym, value_text)}    ('-' rows omitted)
      abundance:    {z: (sym, {a: value_text})}
      problems:     [(table, row text, reason)]  rows that could not be laid out (skipped, never raised)
    """
    nodes = assigned(module_ast("mass"), ("isotope_mass", "element_mass", "isotope_abundance"))
    text = {k: ast.literal_eval(v) for k, v in nodes.items()}
    problems = []
    iso = []
    for ln in text["isotope_mass"].split("\n"):
        m = _RE_ISOMASS.match(ln)
        if not m:
            problems.append(("isotope_mass", ln, "row is not z-El-A,mass,abundance,weight"))
            continue
        iso.append((int(m.group(1)), m.group(2), int(m.group(3)), m.group(4), m.group(6)))
    elm = {}
    for ln in text["element_mass"].split("\n"):
        m = _RE_ELMASS.match(ln)
        if not m:
            problems.append(("element_mass", ln, "row is not Z symbol name value"))
            continue
        if m.group(4) != "-":
            if int(m.group(1)) in elm:
                problems.append(("element_mass", ln, "Z listed twice"))
                continue
            elm[int(m.group(1))] = (m.group(2), m.group(4))
    ab = {}
    cur = None
    for ln in text["isotope_abundance"].split("\n"):
        m = _RE_ABISO.match(ln)
        if m:
            if cur is None:
                problems.append(("isotope_abundance", ln, "isotope row before any element header"))
            elif int(m.group(1)) in ab[cur][1]:
                problems.append(("isotope_abundance", ln, "isotope listed twice for Z=%d" % cur))
            else:
                ab[cur][1][int(m.group(1))] = m.group(2)
            continue
        m = _RE_ABHEAD.match(ln)
        if not m:
            problems.append(("isotope_abundance", ln, "neither an element header nor an isotope row"))
            continue
        if int(m.group(1)) in ab:
            problems.append(("isotope_abundance", ln, "element listed twice"))
            cur = None
            continue
        cur = int(m.group(1))
        ab[cur] = (m.group(2), {})
    return dict(isotope_mass=iso, element_mass=elm, abundance=ab, problems=problems)


class Bad(object):
    """Marker for a cell that is not in a documented notation."""

    def __init__(self, text):
        self.text = text

    def __repr__(self):
        return "Bad(%r)" % (self.text,)


# ----------------------------------------------------------------------
# density.py
@highprec
def density_table():
    """{symbol: Decimal or None} from the keyword names of ``element_densities = dict(...)``
    as written in the source; numbers from the literal's source text."""
    path = module_path("density")
    with open(path, "rb") as f:
        src = f.read()
    tree = ast.parse(src)
    node = assigned(tree, ("element_densities",))["element_densities"]
    if not (isinstance(node, ast.Call) and getattr(node.func, "id", None) == "dict" and not node.args):
        raise ValueError("element_densities is not a dict(...) call")
    text = src.decode("latin-1")
    out = {}

    def number(n):
        if isinstance(n, ast.Constant) and n.value is None:
            return None
        if isinstance(n, ast.Constant) and isinstance(n.value, (int, float)) and not isinstance(n.value, bool):
            return Decimal(ast.get_source_segment(text, n))
        return Bad(ast.get_source_segment(text, n))

    for kw in node.keywords:
        if kw.arg is None or kw.arg in out:
            raise ValueError("density keyword %r" % kw.arg)
        v = kw.value
        if isinstance(v, ast.Tuple):
            out[kw.arg] = number(v.elts[0]) if v.elts else Bad("()")
        else:
            out[kw.arg] = number(v)
    return out


# ----------------------------------------------------------------------
# constants.py
@highprec
def constants():
    """{name: Decimal} of the numeric literals assigned in constants.py"""
    path = module_path("constants")
    with open(path, "rb") as f:
        src = f.read()
    text = src.decode("latin-1")
    out = {}
    for node in ast.parse(src).body:
        if isinstance(node, ast.Assign) and isinstance(node.targets[0], ast.Name) \
                and isinstance(node.value, ast.Constant) and isinstance(node.value.value, (int, float)):
            out[node.targets[0].id] = Decimal(ast.get_source_segment(text, node.value))
    return out
