"""
Reference neutron calculator: the equations of the ``neutron_scattering``
docstring (periodictable/nsf.py) in plain Python complex arithmetic.

Inputs are the *served* per-atom fields (b_c, absorption, total, mass; C07/C06
tie those to the raw tables) and, for the energy dependent rare earths, the
rows of ``periodictable.nsf_tables.ENERGY_DEPENDENT_TABLES`` read directly here
(own energy -> wavelength conversion from the physical constants, own linear
interpolation, own end clamping).  Nothing in this file calls a function of
periodictable.nsf.

Documented equations used (k runs over the atoms, n_k their counts):

    m      = sum n_k m_k                       m_k(ion) = m_k(atom) - charge*m_e
    V      = m / rho / N_A * (1e8)^3           N = sum n_k / V
    Im b_k = -sigma_ak / (1000 * 2 * 1.798)    (ordinary atoms)
    b_k    = table(E) interpolated, end values outside the range   (energy dependent)
    sigma_sk = 4 pi |b_k|^2 / 100              (energy dependent; else tabulated total)
    b      = sum n_k b_k / sum n_k             sigma_s = sum n_k sigma_sk / sum n_k
    sigma_c = 4 pi |b|^2 / 100                 sigma_a = -1000 * 4 pi Im(b) / k, k = 2 pi / lambda
    sigma_i = sigma_s - sigma_c  (clipped at 0: "never negative")
    b_i    = sqrt(100 sigma_i / (4 pi))
    rho_re = 10 N Re b   rho_im = -10 N Im b   rho_inc = 10 N b_i
    Sigma_coh = N sigma_c   Sigma_abs = N sigma_a   Sigma_inc = N sigma_i
    t_u    = 1 / (N sigma_s + N sigma_a)
    lambda = sqrt(h^2 / (2 m_n E))
Natural Lu has no table of its own: it is the abundance weighted mix of
Lu-175 (ordinary) and Lu-176 (tabulated), abundances from the isotope table.
"""
import math

ABS_WAVELENGTH = 1.798          # documented wavelength of the tabulated absorption
FOUR_PI_100 = 4.0 * math.pi / 100.0
OUTPUTS = ("sld_re", "sld_im", "sld_inc", "coh_xs", "abs_xs", "inc_xs", "penetration")


class Ref(object):
    """Reference calculator bound to one periodic table."""

    def __init__(self, table=None):
        import periodictable
        from periodictable import constants as K
        from periodictable.nsf_tables import ENERGY_DEPENDENT_TABLES
        self.table = table if table is not None else periodictable.elements
        self.NA = K.avogadro_number
        self.me = K.electron_mass
        self.h = K.plancks_constant * K.electron_volt          # J s
        self.mn = K.neutron_mass * K.atomic_mass_constant      # kg
        self.eV = K.electron_volt                              # J / eV
        self.rows = {}
        for (sym, iso), rows in ENERGY_DEPENDENT_TABLES.items():
            z = self.table.symbol(sym).number
            rr = sorted((float(r[0]), complex(float(r[1]), float(r[2]))) for r in rows)
            assert all(rr[i][0] < rr[i + 1][0] for i in range(len(rr) - 1))
            self.rows[(z, iso or 0)] = rr
        self.zLu = self.table.symbol("Lu").number
        self._atom = {}

    # -- unit conversions ------------------------------------------------
    def wavelength(self, energy_meV):
        """lambda (A) = sqrt(h^2 / (2 m_n E))"""
        e_joule = energy_meV * 1e-3 * self.eV
        return self.h / math.sqrt(2.0 * self.mn * e_joule) * 1e10

    def energy(self, wavelength):
        """E (meV) = h^2 / (2 m_n lambda^2)"""
        lam = wavelength * 1e-10
        return self.h * self.h / (2.0 * self.mn * lam * lam) / self.eV * 1e3

    def velocity_wavelength(self, v):
        """lambda (A) = h / (m_n v)"""
        return self.h / (self.mn * v) * 1e10

    # -- per atom data ---------------------------------------------------
    def is_tabulated(self, z, a):
        return (z, a) in self.rows or (z, a) == (self.zLu, 0)

    def atom(self, key):
        """(mass, b_c, absorption, total) of (Z, A, charge) from the served fields."""
        if key not in self._atom:
            z, a, c = key
            at = self.table[z]
            if a:
                at = at[a]
            n = at.neutron
            self._atom[key] = (float(at.mass) - c * self.me, n.b_c, n.absorption, n.total)
        return self._atom[key]

    def has_data(self, key):
        """b_c tabulated and the element has a density (Ra has b_c but no density:
        neither 'with data' nor 'without data' for the checks)."""
        z, a, c = key
        m, b, ab, tot = self.atom(key)
        return b is not None and self.table[z].density is not None

    def lacks_data(self, key):
        return self.atom(key)[1] is None

    def node_wavelengths(self, z, a):
        rows = self.rows[(z, a) if (z, a) in self.rows else (self.zLu, 176)]
        return [self.wavelength(e * 1000.0) for e, _ in rows]

    def _interp(self, rows, lam, axis):
        """b and the scale of the bracketing nodes; rows ascending in energy."""
        if axis == "wavelength":
            x = lam
            xs = [self.wavelength(e * 1000.0) for e, _ in rows]     # descending
            xs, ys = xs[::-1], [b for _, b in rows][::-1]
        else:
            x = self.energy(lam) / 1000.0
            xs, ys = [e for e, _ in rows], [b for _, b in rows]
        if x <= xs[0]:
            return ys[0], abs(ys[0])
        if x >= xs[-1]:
            return ys[-1], abs(ys[-1])
        lo, hi = 0, len(xs) - 1
        while hi - lo > 1:
            mid = (lo + hi) // 2
            if xs[mid] <= x:
                lo = mid
            else:
                hi = mid
        t = (x - xs[lo]) / (xs[hi] - xs[lo])
        return ys[lo] + t * (ys[hi] - ys[lo]), max(abs(ys[lo]), abs(ys[hi]))

    def b_sigma(self, key, lam, axis="wavelength"):
        """(b_k complex fm, sigma_sk barn, scale of |b|, scale of sigma_s, scale of Re b,
        scale of Im b) at wavelength lam.  The scales bound the operands of the sums: the
        value itself for ordinary atoms, the larger bracketing node for tabulated ones
        (the interpolation amplifies the rounding of the energy/wavelength conversion)."""
        z, a, c = key
        if (z, a) in self.rows:
            b, s = self._interp(self.rows[(z, a)], lam, axis)
            return b, FOUR_PI_100 * abs(b) ** 2, s, FOUR_PI_100 * s * s, s, s
        if (z, a) == (self.zLu, 0):
            lu = self.table[z]
            b175 = self.b_sigma((z, 175, 0), lam, axis)[0]
            b176, s176 = self._interp(self.rows[(z, 176)], lam, axis)
            w175, w176 = lu[175].abundance, lu[176].abundance
            b = (b175 * w175 + b176 * w176) / 100.0
            s = (abs(b175) * w175 + s176 * w176) / 100.0
            return b, FOUR_PI_100 * abs(b) ** 2, s, FOUR_PI_100 * s * s, s, s
        m, bc, ab, tot = self.atom(key)
        b = complex(bc, -ab / (1000.0 * 2.0 * ABS_WAVELENGTH))
        return b, tot, abs(b), tot, abs(b.real), abs(b.imag)

    # -- compound --------------------------------------------------------
    def density_from_natural(self, comp, natural_density):
        """density of the isotope substituted compound whose natural-abundance
        version has *natural_density* (same cell volume; ion charge kept)."""
        nat = act = 0.0
        for (z, a, c), n in comp.items():
            n = float(n)
            nat += n * (float(self.table[z].mass) - c * self.me)
            act += n * self.atom((z, a, c))[0]
        return natural_density * act / nat

    def scattering(self, comp, density, lam, axis="wavelength"):
        """Reference outputs and absolute floors at one wavelength.

        comp: {(Z, A, charge): count}.  Returns (values, floors): dicts over
        OUTPUTS plus 'sigma_i' (barn per atom), 'N'.  floors[o] is the absolute
        error allowed on output o on top of the relative tolerance; it is
        1e-13 times the scale of the operands of the last sum/difference.
        """
        items = [(k, float(n)) for k, n in sorted(comp.items())]
        ntot = math.fsum(n for _, n in items)
        mass = math.fsum(n * self.atom(k)[0] for k, n in items)
        N = ntot * density * self.NA * 1e-24 / mass        # atoms / A^3
        bs = [(n,) + self.b_sigma(k, lam, axis) for k, n in items]     # (n, b, sigma, scales...)
        b = complex(math.fsum(t[0] * t[1].real for t in bs),
                    math.fsum(t[0] * t[1].imag for t in bs)) / ntot
        sigma_s = math.fsum(t[0] * t[2] for t in bs) / ntot
        s_re = math.fsum(abs(t[0]) * t[5] for t in bs) / ntot
        s_im = math.fsum(abs(t[0]) * t[6] for t in bs) / ntot
        s_abs = math.fsum(abs(t[0]) * t[3] for t in bs) / ntot
        s_sig = math.fsum(abs(t[0]) * t[4] for t in bs) / ntot
        sigma_c = FOUR_PI_100 * abs(b) ** 2
        sigma_i = max(sigma_s - sigma_c, 0.0)
        sigma_a = -1000.0 * 4.0 * math.pi * b.imag / (2.0 * math.pi / lam)
        b_i = math.sqrt(100.0 * sigma_i / (4.0 * math.pi))
        v = dict(sld_re=10.0 * N * b.real, sld_im=-10.0 * N * b.imag, sld_inc=10.0 * N * b_i,
                 coh_xs=N * sigma_c, abs_xs=N * sigma_a, inc_xs=N * sigma_i,
                 penetration=1.0 / (N * sigma_s + N * sigma_a),
                 sigma_i=sigma_i, N=N)
        e = 1e-13
        f_c = 2.0 * FOUR_PI_100 * s_abs * s_abs
        f_i = e * (s_sig + f_c)
        f = dict(sld_re=e * 10.0 * N * s_re, sld_im=e * 10.0 * N * s_im,
                 coh_xs=e * N * f_c, abs_xs=e * N * 2000.0 * lam * s_im, inc_xs=N * f_i,
                 sigma_i=f_i, penetration=0.0)
        # rho_inc = 10 N sqrt(sigma_i / (4 pi / 100)): an error f_i on sigma_i moves the root by
        # sqrt(f_i / ..) near the clip and by f_i / (2 sqrt(sigma_i ..)) away from it
        if sigma_i <= 4.0 * f_i:
            f["sld_inc"] = 10.0 * N * math.sqrt(f_i / FOUR_PI_100)
        else:
            f["sld_inc"] = 10.0 * N * f_i / math.sqrt(sigma_i * FOUR_PI_100)
        return v, f


def sigma_i_of_sld_inc(sld_inc, N):
    """invert rho_inc = 10 N sqrt(100 sigma_i / 4 pi)"""
    b_i = sld_inc / (10.0 * N)
    return FOUR_PI_100 * b_i * b_i
