"""
Operation histories over formula variables (used by C02, C13, C19).

A history is a JSON-able list of operations.  Operations that need an existing
variable name it by an index that is taken modulo the number of live variables
(an operation that needs a variable when none exists is skipped), so every list
Hypothesis draws - and every list it shrinks to - is a valid program.

    ["str",  tree, name|None]                     v = formula(render(tree), name=name)
    ["atom", spec]                                v = formula(atom)
    ["dict", [[spec, count], ...], name, density] v = formula({atom: count, ...}, name=, density=)
    ["seq",  nested, name]                        v = formula([(count, atom | nested), ...])
    ["copy", i, name, density]                    v = formula(vars[i], name=, density=)
    ["add",  i, j]                                v = vars[i] + vars[j]
    ["mul",  n, i]                                v = n * vars[i]
    ["iadd", i, j]                                vars[i] += vars[j]
    ["again", k]                                  run the k-th earlier constructor again
    ["on", "private", <constructor op>]           the constructor with the atoms of the private table
                                                  (formula(str, table=T), T's atoms in dict/sequence)
    ["chtable", i, "private"|"public"]            vars[i].change_table(that table)   (in place)
    ["empty", how, name, density]                 the empty formula: how = "''" formula(''), "()" formula(),
                                                  "None" formula(None), "Formula()", "[]" formula([]), "{}" formula({})

    ["retable", k]                                the masses of the private table (every element and isotope) are
                                                  rescaled by FACTORS[k] (the documented customisation el._mass = ...);
                                                  the pristine masses are restored when the history ends
A count or multiplier written {"F": [p, q]} is fractions.Fraction(p, q) (exact=True).

With zeros=True the trees of "str" constructors carry counts written as zero ('0.', '0.0', '.0', '.00': the
zero spellings of the documented grammar) in any position; the model count is then 0.

Every variable lives on one table; the second operand of + and += is chosen (by its index) among the
variables living on the table of the first.

    nested = {"t": 0|1, "p": [[count, spec | nested], ...]}    ("t": build a tuple instead of a list)

The *model* of a variable is {(Z, A, charge): Fraction}; it is updated by the
obvious algebra and never looks at the library objects.
"""
from . import subtable
from fractions import Fraction

from hypothesis import strategies as st

from . import formula_ast as fa
from .atoms import Pool, resolve, spec_key, spec_class

_STATE = {}

MAX_LEAVES = 250          # structure leaves per variable (f += f doubles)
MAG_HI = Fraction(10) ** 30
MAG_LO = Fraction(1, 10 ** 30)

CUSTOM_MASS = {"H": 2.5, "C": 13.5, "O": 17.25, "Fe": 60.125, "Na": 20.0}
NAMES = ["water", "heavy water", "permalloy", "x", "Fe2O3", "10%", "a'b", "(", "0"]


def env():
    if not _STATE:
        import periodictable
        _STATE["pt"] = periodictable
        _STATE["table"] = periodictable.elements
        _STATE["pool"] = Pool(periodictable.elements)
        _STATE["formula"] = periodictable.formula
        _STATE["emass"] = periodictable.constants.electron_mass
        _STATE["avogadro"] = periodictable.constants.avogadro_number
        # a private table with its own atoms; a few masses are changed so that an atom taken from the
        # wrong table also shows in masses
        from periodictable import core, mass, density as density_module
        T = subtable.new("fops-private")
        mass.init(T)
        density_module.init(T)
        for sym, m in CUSTOM_MASS.items():
            getattr(T, sym)._mass = m
        _STATE["tables"] = {"public": periodictable.elements, "private": T}
        pristine = {}
        for el in T:
            if el.number == 0:
                continue
            pristine[(el.number, 0)] = el._mass
            for a_ in el.isotopes:
                pristine[(el.number, a_)] = el[a_]._mass
        _STATE["pristine"] = pristine
    return _STATE


# ----------------------------------------------------------------------
# strategies
FACTORS = [0.5, 2.0, 1.25, 0.75, 3.0]


def val(c):
    """The Python number of a JSON count ({"F": [p, q]} is a Fraction)."""
    return Fraction(c["F"][0], c["F"][1]) if isinstance(c, dict) else c


def is_exact(c):
    return isinstance(c, dict) or (isinstance(c, int) and not isinstance(c, bool))


def number(zero=False, wide=True, exact=False):
    """A JSON number usable as a count or multiplier: small and large integers,
    six-digit decimals m*10**e and full-mantissa floats in [1e-6, 1e6]."""
    alts = [st.integers(2, 12), st.integers(1, 9999),
            st.tuples(st.integers(1, 999999), st.integers(-9, 1)).map(lambda t: float("%de%d" % t)),
            st.sampled_from([0.5, 0.25, 1.5, 2.0, 1.0, 1, 3, 1e-6, 1e6, 0.1, 1e-3, 1e3, 1.0000001])]
    if wide:
        alts.append(st.floats(1e-6, 1e6, allow_nan=False, allow_infinity=False))
    if zero:
        alts.append(st.sampled_from([0, 0.0, 1, 1.0]))
    if exact:
        alts.append(st.tuples(st.integers(1, 40), st.sampled_from([3, 7, 9, 6, 11, 2])).map(lambda t: {"F": [t[0], t[1]]}))
    return st.one_of(*alts)


def name():
    return st.one_of(st.none(), st.none(), st.sampled_from(NAMES),
                     st.text(st.characters(min_codepoint=32, max_codepoint=126), min_size=1, max_size=8))


def density():
    return st.one_of(st.none(), st.none(), st.sampled_from([1.0, 2.5, 0.001, 19.3]))


def nested(pool, depth=2, count=None):
    cnt = count if count is not None else number()
    leaf = pool.atom()
    if depth <= 0:
        frag = leaf
    else:
        frag = st.one_of(leaf, leaf, st.deferred(lambda: nested(pool, depth - 1, count)))
    return st.tuples(st.integers(0, 1), st.lists(st.tuples(cnt, frag).map(list), min_size=1, max_size=4)
                     ).map(lambda t: {"t": t[0], "p": t[1]})


ZEROS = ["0.", "0.0", ".0", ".00"]
EMPTIES = ["''", "()", "None", "Formula()", "[]", "{}"]


def _count_slots(tree):
    slots = []

    def walk(gs):
        for g in gs:
            if g[0] == "i":
                slots.append((g, 1))
                for a in g[2]:
                    slots.append((a, 3))
            else:
                slots.append((g, 3))
                walk(g[1])
    walk(tree["g"])
    return slots


def _with_zeros(pool, tree, picks):
    if not picks:
        return tree
    import json
    tree = json.loads(json.dumps(tree))
    slots = _count_slots(tree)
    for k, z in picks:
        c, i = slots[k % len(slots)]
        c[i] = z
    if tree["d"] is not None and not any(fa.composition(pool, tree).values()):
        tree["d"] = None          # a density for nothing at all is not asked for
    return tree


def zero_counts(pool, tree):
    """Trees in which up to two counts (atom subscript, group multiplier, leading multiplier) are written as zero."""
    picks = st.one_of(st.just([]), st.lists(st.tuples(st.integers(0, 60), st.sampled_from(ZEROS)).map(list),
                                            min_size=1, max_size=2))
    return st.tuples(tree, picks).map(lambda t: _with_zeros(pool, t[0], t[1]))


def constructor(pool, count=None, tree=None, tables=False, zeros=False, empties=False, exact=False):
    if exact and count is None:
        count = number(exact=True)
    if zeros:
        tree = zero_counts(pool, tree if tree is not None else fa.compound(pool, depth=2, max_groups=3, max_atoms=3))
    base = _constructor(pool, count, tree)
    if empties:
        empty = st.tuples(st.just("empty"), st.sampled_from(EMPTIES), name(), density()).map(list)
        base = st.tuples(st.integers(0, 7), base, empty).map(lambda t: t[2] if t[0] == 0 else t[1])
    if not tables:
        return base
    # (one_of drops repeated branches, so the share is set by a drawn flag: 1 constructor in 5 is private)
    return st.tuples(st.integers(0, 4), base).map(lambda t: ["on", "private", t[1]] if t[0] == 0 else t[1])


def _constructor(pool, count=None, tree=None):
    cnt = count if count is not None else number()
    tree = tree if tree is not None else fa.compound(pool, depth=2, max_groups=3, max_atoms=3)
    return st.one_of(
        st.tuples(st.just("str"), tree, name()).map(list),
        st.tuples(st.just("atom"), pool.atom()).map(list),
        st.tuples(st.just("dict"), st.lists(st.tuples(pool.atom(), cnt).map(list), min_size=1, max_size=5),
                  name(), density()).map(list),
        st.tuples(st.just("seq"), nested(pool, 2, count), name()).map(list),
    )


def operator(mult=None, tables=False, retable=False, exact=False):
    if exact and mult is None:
        mult = number(zero=True, exact=True)
    if not tables:
        return _operator(mult)
    # weighted choice (one_of drops repeated branches): a drawn kind selects the strategy
    idx = st.integers(0, 7)
    n = mult if mult is not None else number(zero=True)
    alt = {
        "chtable": st.tuples(st.just("chtable"), idx, st.sampled_from(["private", "private", "public"])).map(list),
        "again": st.tuples(st.just("again"), idx).map(list),
        "copy": st.tuples(st.just("copy"), idx, name(), density()).map(list),
        "clone": st.tuples(st.just("clone"), idx, st.sampled_from(["copy", "deepcopy", "pickle"])).map(list),
        "add": st.tuples(st.just("add"), idx, idx).map(list),
        "mul": st.tuples(st.just("mul"), n, idx).map(list),
        "iadd": st.tuples(st.just("iadd"), idx, idx, st.sampled_from([False, False, True])).map(list),
    }
    kinds = ["chtable"] * 2 + ["again"] + ["copy"] * 2 + ["clone"] * 2 + ["add"] * 3 + ["mul"] * 4 + ["iadd"] * 4
    if retable:
        alt["retable"] = st.tuples(st.just("retable"), st.integers(0, 4)).map(list)
        kinds = kinds + ["retable"] * 2
        # operations the library REJECTS (the caller catches the exception): nothing may change (C02's observer
        # compares every variable with its snapshot after the step)
        alt["bad"] = st.tuples(st.just("bad"), idx, st.sampled_from(BAD_OPS)).map(list)
        kinds = kinds + ["bad"] * 2
    return st.sampled_from(kinds).flatmap(lambda k: alt[k])


BAD_OPS = ["iadd-int", "add-str", "iadd-none", "replace-none", "volume-bad-name", "natural-density-bad", "sld-bad-wavelength",
           "formula-bad-string", "dict-bad-count", "mul-bad", "mul-decimal", "mul-decimal"]


class _BadNumber(object):
    def __float__(self):
        raise ValueError("not a number today")

    def __array__(self, *a, **k):
        raise ValueError("not an array today")


def do_bad(E, f, how):
    """One operation on the formula *f* that the library rejects; the exception is swallowed as a caller would.
    Returns True if it did raise."""
    formula = E["formula"]
    try:
        if how == "iadd-int":
            g = f
            g += 3
        elif how == "add-str":
            f + "H2O"
        elif how == "iadd-none":
            g = f
            g += None
        elif how == "replace-none":
            f.replace(None, None)
        elif how == "volume-bad-name":
            f.volume("dodecahedral")
        elif how == "natural-density-bad":
            f.natural_density = _BadNumber()
        elif how == "sld-bad-wavelength":
            f.neutron_sld(wavelength=_BadNumber())
        elif how == "formula-bad-string":
            formula(str(f) + ")(")
        elif how == "dict-bad-count":
            formula(dict((a, _BadNumber()) for a in f.atoms)).mass
        elif how == "mul-bad":
            (_BadNumber() * f).mass
        elif how == "mul-decimal":
            import decimal
            g = decimal.Decimal(2) * f
            g.mass, g.atoms, g.charge
        else:
            raise ValueError(how)
    except Exception:  # noqa
        return True
    return False


def _operator(mult=None):
    idx = st.integers(0, 7)
    n = mult if mult is not None else number(zero=True)
    return st.one_of(
        st.tuples(st.just("copy"), idx, name(), density()).map(list),
        # a Formula that went through copy.copy / copy.deepcopy / a pickle round trip is a formula in its own right
        st.tuples(st.just("clone"), idx, st.sampled_from(["copy", "deepcopy", "pickle"])).map(list),
        st.tuples(st.just("add"), idx, idx).map(list),
        st.tuples(st.just("add"), idx, idx).map(list),
        st.tuples(st.just("mul"), n, idx).map(list),
        st.tuples(st.just("mul"), n, idx).map(list),
        st.tuples(st.just("mul"), n, idx).map(list),
        st.tuples(st.just("iadd"), idx, idx).map(list),
        st.tuples(st.just("iadd"), idx, idx).map(list),
        st.tuples(st.just("iadd"), idx, idx, st.just(True)).map(list),
        # build the same thing again (same string / atom / dict / sequence as an earlier constructor):
        # a constructor must give a fresh formula every time, whatever happened to the earlier one
        st.tuples(st.just("again"), idx).map(list),
    )


def history(pool, max_steps=30, count=None, mult=None, tree=None, tables=False, zeros=False, empties=False,
            retable=False, exact=False):
    c = constructor(pool, count, tree, tables, zeros, empties, exact)
    o = operator(mult, tables, retable, exact)
    step = st.one_of(o, o, o, c)
    rest = max_steps - 3
    tail = st.one_of(st.lists(step, min_size=0, max_size=min(6, rest)),
                     st.lists(step, min_size=min(8, rest), max_size=rest),
                     st.lists(step, min_size=min(8, rest), max_size=rest))
    return st.tuples(st.lists(c, min_size=1, max_size=3), tail).map(lambda t: t[0] + t[1])


# ----------------------------------------------------------------------
# model
def madd(a, b):
    out = dict(a)
    for k, v in b.items():
        out[k] = out.get(k, 0) + v
    return out


def mscale(a, n):
    return dict((k, v * n) for k, v in a.items())


def nested_model(pool, node):
    total = {}
    for c, frag in node["p"]:
        part = nested_model(pool, frag) if isinstance(frag, dict) else {spec_key(pool, frag): Fraction(1)}
        for k, v in part.items():
            total[k] = total.get(k, 0) + v * Fraction(val(c))
    return total


def nested_build(table, node):
    out = []
    for c, frag in node["p"]:
        out.append((val(c), nested_build(table, frag) if isinstance(frag, dict) else resolve(table, frag)))
    return tuple(out) if node["t"] else out


def nested_counts(node):
    for c, f in node["p"]:
        yield c
        if isinstance(f, dict):
            for x in nested_counts(f):
                yield x


def nested_leaves(node):
    return sum(nested_leaves(f) if isinstance(f, dict) else 1 for _, f in node["p"])


def nested_specs(node):
    for _, f in node["p"]:
        if isinstance(f, dict):
            for s in nested_specs(f):
                yield s
        else:
            yield f


def leaves(structure):
    n = 0
    for _, frag in structure:
        n += leaves(frag) if isinstance(frag, (list, tuple)) else 1
    return n


def depth(structure):
    d = 0
    for _, frag in structure:
        if isinstance(frag, (list, tuple)):
            d = max(d, 1 + depth(frag))
    return d


def mag_ok(comp):
    return all(v == 0 or MAG_LO <= v <= MAG_HI for v in comp.values())


class Var(object):
    __slots__ = ("f", "comp", "operand", "origin", "table", "exact")

    def __init__(self, f, comp, origin, table="public"):
        self.table = table        # the table whose atoms the formula holds
        self.exact = False        # every count and multiplier that went into it is an int or a Fraction
        self.f = f
        self.comp = comp
        self.operand = False      # was an operand of an earlier + or *
        self.origin = origin


class Step(object):
    """What one executed operation did (handed to the observer)."""
    __slots__ = ("index", "op", "kind", "new", "changed", "operands", "inputs", "flags")


def interpret(ops, observer=None, before=None, mag=(MAG_LO, MAG_HI)):
    """Run *ops*.  before(step_index, op, vars) is called before an operation
    that will be executed, observer(step, vars) after it.  Returns (vars, flags, skipped)."""
    E = env()
    pool, formula = E["pool"], E["formula"]
    vars_ = []
    flags = {"mul-multi": False, "iadd-after-operand": False, "kinds": [], "classes": set()}
    skipped = 0
    ctor_ops = []
    state = {"retabled": False}
    try:
        return _interpret(E, ops, observer, before, mag, vars_, flags, skipped, ctor_ops, state)
    finally:
        if state["retabled"]:
            T = E["tables"]["private"]
            for (z, a_), m in E["pristine"].items():
                (T[z][a_] if a_ else T[z])._mass = m


def _interpret(E, ops, observer, before, mag, vars_, flags, skipped, ctor_ops, state):
    pool, formula = E["pool"], E["formula"]
    for index, op in enumerate(ops):
        kind = op[0]
        which = "public"
        if kind == "again":
            if not ctor_ops:
                skipped += 1
                continue
            which, op = ctor_ops[op[1] % len(ctor_ops)]
            kind = op[0]
            flags["kinds"].append("again")
        else:
            if kind == "on":
                which, op = op[1], op[2]
                kind = op[0]
                flags["kinds"].append("on-private-table")
            if kind in ("str", "atom", "dict", "seq", "empty"):
                ctor_ops.append((which, op))
        table = E["tables"][which]
        st_ = Step()
        st_.index, st_.op, st_.kind = index, op, kind
        st_.new = st_.changed = None
        st_.operands, st_.inputs, st_.flags = [], None, flags
        if kind in ("copy", "clone", "bad", "add", "mul", "iadd", "chtable", "retable") and not vars_:
            skipped += 1
            continue
        n = len(vars_)
        # -- decide whether the operation is within the size/magnitude budget
        if kind == "add" or kind == "iadd":
            # the second operand is chosen among the variables living on the table of the first
            ia = op[1] % n
            a = vars_[ia]
            same = [k for k in range(n) if vars_[k].table == a.table]
            ib = same[op[2] % len(same)] if len(same) < n else op[2] % n
            b = vars_[ib]
            if leaves(a.f.structure) + leaves(b.f.structure) > MAX_LEAVES:
                skipped += 1
                continue
        if kind == "mul":
            a = vars_[op[2] % n]
            m = mscale(a.comp, Fraction(val(op[1])))
            if not all(v == 0 or mag[0] <= v <= mag[1] for v in m.values()):
                skipped += 1
                continue
        if before is not None:
            before(index, op, vars_)
        if kind == "str":
            s = fa.render(op[1])
            kw = {} if which == "public" else {"table": table}
            f = formula(s, name=op[2], **kw) if op[2] is not None else formula(s, **kw)
            v = Var(f, fa.composition(pool, op[1]), "str", which)
            v.exact = all(c[i] is None or "." not in c[i] for c, i in _count_slots(op[1]))
            if any(c[i] in ZEROS for c, i in _count_slots(op[1])):
                flags["kinds"].append("zero-count-in-string")
            for a_, _ in fa.atoms_of(op[1]["g"]):
                flags["classes"].add(spec_class(a_[1]))
        elif kind == "empty":
            kw = {}
            if op[2] is not None:
                kw["name"] = op[2]
            if op[3] is not None:
                kw["density"] = op[3]
            how = op[1]
            if how == "''":
                f = formula('', **(kw if which == "public" else dict(kw, table=table)))
            elif how == "()":
                f = formula(**kw)
            elif how == "None":
                f = formula(None, **kw)
            elif how == "Formula()":
                f = E["pt"].formulas.Formula(**kw)
            elif how == "[]":
                f = formula([], **kw)
            else:
                f = formula({}, **kw)
            v = Var(f, {}, "empty", which)
            v.exact = True
        elif kind == "atom":
            f = formula(resolve(table, op[1]))
            v = Var(f, {spec_key(pool, op[1]): Fraction(1)}, "atom", which)
            v.exact = True
            flags["classes"].add(spec_class(op[1]))
        elif kind == "dict":
            d, comp = {}, {}
            for spec, c in op[1]:
                k = spec_key(pool, spec)
                if k in comp:
                    continue            # D and H[2] are one atom: keep the first
                comp[k] = Fraction(val(c))
                d[resolve(table, spec)] = val(c)
                flags["classes"].add(spec_class(spec))
            kw = {}
            if op[2] is not None:
                kw["name"] = op[2]
            if op[3] is not None:
                kw["density"] = op[3]
            keep = dict(d)
            f = formula(d, **kw)
            st_.inputs = ("dict", d, keep)
            v = Var(f, comp, "dict", which)
            v.exact = all(is_exact(c) for _, c in op[1])
        elif kind == "seq":
            seq = nested_build(table, op[1])
            keep = nested_build(table, op[1])
            f = formula(seq, name=op[2]) if op[2] is not None else formula(seq)
            st_.inputs = ("seq", seq, keep)
            v = Var(f, nested_model(pool, op[1]), "seq", which)
            v.exact = all(is_exact(c) for c in nested_counts(op[1]))
            for s_ in nested_specs(op[1]):
                flags["classes"].add(spec_class(s_))
        elif kind == "copy":
            a = vars_[op[1] % n]
            kw = {}
            if op[2] is not None:
                kw["name"] = op[2]
            if op[3] is not None:
                kw["density"] = op[3]
            f = formula(a.f, **kw)
            st_.operands = [op[1] % n]
            v = Var(f, dict(a.comp), "copy", a.table)
            v.exact = a.exact
        elif kind == "bad":
            a = vars_[op[1] % n]
            raised = do_bad(E, a.f, op[2])
            flags["kinds"].append("bad:%s:%s" % (op[2], "raised" if raised else "accepted"))
            st_.operands = [op[1] % n]
            v = None
            if op[2] == "mul-decimal":
                # the equal, valid multiplier right after the rejected Decimal one: a new variable, judged as any product
                f = 2 * a.f
                v = Var(f, mscale(a.comp, Fraction(2)), "mul", a.table)
                v.exact = a.exact
        elif kind == "clone":
            import copy as _copy
            import pickle as _pickle
            a = vars_[op[1] % n]
            f = {"copy": _copy.copy, "deepcopy": _copy.deepcopy,
                 "pickle": lambda x: _pickle.loads(_pickle.dumps(x))}[op[2]](a.f)
            st_.operands = [op[1] % n]
            v = Var(f, dict(a.comp), "clone", a.table)
            v.exact = a.exact
        elif kind == "add":
            f = a.f + b.f
            st_.operands = [ia, ib]
            a.operand = b.operand = True
            v = Var(f, madd(a.comp, b.comp), "add", a.table)
            v.exact = a.exact and b.exact
        elif kind == "mul":
            a = vars_[op[2] % n]
            if val(op[1]) not in (0, 1) and len(a.f.structure) > 1:
                flags["mul-multi"] = True
            f = val(op[1]) * a.f
            st_.operands = [op[2] % n]
            a.operand = True
            v = Var(f, mscale(a.comp, Fraction(val(op[1]))), "mul", a.table)
            v.exact = a.exact and is_exact(op[1])
        elif kind == "iadd":
            i, j = ia, ib
            if a.operand:
                flags["iadd-after-operand"] = True
            obj = a.f
            # ["iadd", i, j, True]: twice in a row, nothing read in between (the second structure tuple may land at
            # the address of the first one's predecessor: a memo validated by identity would go stale)
            for _ in range(2 if (len(op) > 3 and op[3]) else 1):
                obj += b.f
                a.comp = madd(a.comp, b.comp)
            st_.operands = [j]
            st_.changed = i
            a.exact = a.exact and b.exact
            st_.inputs = ("iadd", obj, a.f)
            a.f = obj
            v = None
        elif kind == "retable":
            factor = FACTORS[op[1] % len(FACTORS)]
            T = E["tables"]["private"]
            for (z, a_), m in E["pristine"].items():
                (T[z][a_] if a_ else T[z])._mass = m * factor
            state["retabled"] = True
            v = None
        elif kind == "chtable":
            i = op[1] % n
            a = vars_[i]
            obj = a.f.change_table(E["tables"][op[2]])
            st_.changed = i
            st_.inputs = ("chtable", obj, a.f)
            a.f = obj if obj is not None else a.f
            a.table = op[2]
            a.origin = "chtable"
            v = None
        else:
            raise ValueError("unknown op %r" % (op,))
        flags["kinds"].append(kind)
        if v is not None:
            vars_.append(v)
            st_.new = len(vars_) - 1
        if observer is not None:
            observer(st_, vars_)
    return vars_, flags, skipped
