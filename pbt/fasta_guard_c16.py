"""
State guard for the biomolecule tables (used by C16 and C18).

The fasta tables are module-level objects shared by every call in a process.
A call that builds a Sequence/Molecule, or evaluates an 'aa:'/'dna:'/'rna:'
formula, must leave them exactly as they were.  `TableGuard` snapshots every
table molecule once (object identities, formula structures, densities and the
stored numbers), reports what differs later, and puts the snapshot back so
that the rest of the task runs on clean tables (a failure found later is then
a property of that later case, not an echo of the first one).
"""

TABLES = ("AMINO_ACID_CODES", "NUCLEIC_ACID_COMPONENTS", "CARBOHYDRATE_RESIDUES", "LIPIDS",
          "RNA_BASES", "DNA_BASES", "RNA_CODES", "DNA_CODES")
CODE_TABLE_NAMES = {"aa": "AMINO_ACID_CODES", "dna": "DNA_CODES", "rna": "RNA_CODES"}
FORMULAS = ("labile_formula", "natural_formula", "formula")
NUMBERS = ("name", "cell_volume", "charge", "mass", "Dmass", "sld", "Dsld", "D2Omatch")
CONSTANTS = ("H2O_SLD", "D2O_SLD")
MAX_REPORTS = 2


def limit_memory(gib=4):
    """Cap the address space of this task's process, so that a runaway allocation in the library raises MemoryError
    (reported as a violation with the library frame) instead of getting the worker killed, which would stall the pool."""
    try:
        import resource
        soft, hard = resource.getrlimit(resource.RLIMIT_AS)
        want = gib << 30
        if hard != resource.RLIM_INFINITY:
            want = min(want, hard)
        resource.setrlimit(resource.RLIMIT_AS, (want, hard))
    except Exception:  # noqa
        pass


def _same(a, b):
    if a is b:
        return True
    try:
        if a != a and b != b:     # NaN
            return True
    except Exception:  # noqa
        pass
    try:
        return type(a) is type(b) and bool(a == b)
    except Exception:  # noqa
        return False


def _atoms_text(formula):
    try:
        return ", ".join("%s:%r" % (a, n) for a, n in sorted(formula.atoms.items(), key=lambda t: str(t[0])))
    except Exception as e:  # noqa
        return "<%s>" % type(e).__name__


class TableGuard(object):
    def __init__(self, fasta, prefix, tables=TABLES):
        self.fasta = fasta
        self.prefix = prefix
        self.tables = tuple(tables)
        self.reported = 0
        self.checks = 0
        self.snap = {}
        for t in self.tables:
            tab = getattr(fasta, t)
            entries = {}
            for k in tab:              # insertion order of the table
                m = tab[k]
                rec = {"obj": m, "formulas": {}, "numbers": {}}
                for f in FORMULAS:
                    fo = getattr(m, f)
                    rec["formulas"][f] = (fo, fo.structure, fo.density, fo.name, _atoms_text(fo))
                for a in NUMBERS:
                    rec["numbers"][a] = getattr(m, a)
                entries[k] = rec
            self.snap[t] = (tab, list(tab), entries)
        self.code_tables = dict(fasta.CODE_TABLES)
        self.constants = dict((c, getattr(fasta, c)) for c in CONSTANTS)

    # ------------------------------------------------------------------
    def diff(self):
        """[(table, key, what, before, after)] of everything that is not as in the snapshot."""
        fa = self.fasta
        out = []
        self.checks += 1
        for c, v in self.constants.items():
            if not _same(getattr(fa, c, None), v):
                out.append(("constants", c, "value", v, getattr(fa, c, None)))
        for t, tab in self.code_tables.items():
            if fa.CODE_TABLES.get(t) is not tab:
                out.append(("CODE_TABLES", t, "table object", "the module's table", "another object"))
        if sorted(fa.CODE_TABLES) != sorted(self.code_tables):
            out.append(("CODE_TABLES", "*", "keys", sorted(self.code_tables), sorted(fa.CODE_TABLES)))
        for t in self.tables:
            tab, keys, entries = self.snap[t]
            if getattr(fa, t) is not tab:
                out.append((t, "*", "table object", "the module's table", "another object"))
            if list(tab) != keys:
                out.append((t, "*", "keys", keys, list(tab)))
            for k, rec in entries.items():
                m = tab.get(k)
                if m is not rec["obj"]:
                    out.append((t, k, "entry object", "the module's molecule", repr(m)))
                    continue
                for f, (fo, structure, density, name, text) in rec["formulas"].items():
                    now = getattr(m, f, None)
                    if now is not fo:
                        out.append((t, k, f + " object", text, _atoms_text(now) if now is not None else None))
                        continue
                    if not _same(fo.structure, structure):
                        out.append((t, k, f + " atoms", text, _atoms_text(fo)))
                    if not _same(fo.density, density):
                        out.append((t, k, f + ".density", density, fo.density))
                    if not _same(fo.name, name):
                        out.append((t, k, f + ".name", name, fo.name))
                for a, v in rec["numbers"].items():
                    now = getattr(m, a, None)
                    if not _same(now, v):
                        out.append((t, k, a, v, now))
        return out

    def restore(self):
        fa = self.fasta
        for c, v in self.constants.items():
            setattr(fa, c, v)
        for t, tab in self.code_tables.items():
            fa.CODE_TABLES[t] = tab
        for t in list(fa.CODE_TABLES):
            if t not in self.code_tables:
                del fa.CODE_TABLES[t]
        for t in self.tables:
            tab, keys, entries = self.snap[t]
            setattr(fa, t, tab)
            if list(tab) != keys or any(tab.get(k) is not entries[k]["obj"] for k in keys):
                tab.clear()
                for k in keys:
                    tab[k] = entries[k]["obj"]
            for k, rec in entries.items():
                m = rec["obj"]
                for f, (fo, structure, density, name, text) in rec["formulas"].items():
                    fo.structure = structure
                    fo.density = density
                    fo.name = name
                    setattr(m, f, fo)
                for a, v in rec["numbers"].items():
                    setattr(m, a, v)

    # ------------------------------------------------------------------
    def verify(self, ctx, history, when):
        """Record one violation per modified table entry (at most MAX_REPORTS per task), then restore.
        *history*: the JSON cases executed since the tables were last known to be intact."""
        changes = self.diff()
        if not changes:
            return False
        seen = set()
        for t, k, what, before, after in changes:
            if (t, k) in seen:
                continue
            seen.add((t, k))
            ctx.count("table-modified")
            bucket = "%s:table-modified:%s:%s" % (self.prefix, t, k)
            if bucket in ctx.found:
                continue
            if bucket not in ctx.excluded:
                if self.reported >= MAX_REPORTS:
                    ctx.count("table-modified:not-reported")
                    continue
                self.reported += 1
            ctx.violation(bucket,
                          "fasta.%s[%r] %s changed %s: %s -> %s (tables are shared by every later call in the process)"
                          % (t, k, what, when, str(before)[:160], str(after)[:160]),
                          {"kind": "history", "calls": list(history)})
        self.restore()
        left = self.diff()
        if left:
            # cannot be put back: later cases of this task run on modified tables
            ctx.count("table-modified:not-restorable")
            self.__init__(self.fasta, self.prefix, self.tables)
        return True


def molecule_digest(m):
    """Everything a Molecule/Sequence reports, as a JSON-able list."""
    def atoms(f):
        return sorted((str(a), float(n)) for a, n in f.atoms.items())
    return [atoms(m.labile_formula), atoms(m.natural_formula), m.labile_formula.density, m.natural_formula.density,
            m.cell_volume, m.charge, m.mass, m.Dmass, m.sld, m.Dsld, m.D2Omatch]


DIGEST_NAMES = ["labile_formula atoms", "natural_formula atoms", "labile_formula.density", "natural_formula.density",
                "cell_volume", "charge", "mass", "Dmass", "sld", "Dsld", "D2Omatch"]


def digest_diff(a, b):
    """None, or the name and the two values of the first entry that differs (exact comparison:
    the same call in the same process has no reason to round differently)."""
    for nm, x, y in zip(DIGEST_NAMES, a, b):
        if not (x == y or (x != x and y != y)):
            return "%s: %s then %s" % (nm, str(x)[:200], str(y)[:200])
    return None
