"""
C11 - mixtures keep the requested mass or volume proportions and a consistent density.

A case is a *mixture tree* (JSON-able):

    part  ::= ["c", compound_tree]                      a compound of pbt/formula_ast.py
            | ["g", mix, dtag|None, [pad, pad]]         '(' mixture ')' with optional '@' density
    mix   ::= ["p", by, [q...], [part...], [[sp, full]...], [sep...]]     percentage, by in "w" "v"; n-1 quantities
            | ["q", kind, [item...], [sep...]]                            quantity, kind in "m" (mass/volume units) "l" (length)
    item  ::= ["u", q, unit, sp, part]                  count unit part
            | ["r", [item...], [sep...], k, [pad, pad]] repeated group '(' quantity ')' k

The tree is (1) rendered to a string of the documented grammar and parsed by the
library, (2) translated into mix_by_weight / mix_by_volume calls, (3) evaluated
by the reference calculator pbt/refcalc_mix.py (Fractions, atom masses only).
All three must agree.  API-only cases add float quantities, zero quantities, the
keywords density=, natural_density=, name=, table= and formula-unit scaling.
"""
from .. import subtable
from decimal import Decimal
from fractions import Fraction
from math import log10

from hypothesis import strategies as st

from ..runner import Violation, lib_frame
from .. import formula_ast as fa
from .. import refcalc_mix as rc
from ..atoms import Pool, atom_key

PROPERTY = "C11"
RULE = ("Hypothesis draws a mixture tree: 1..6 parts, each a compound derivation tree (all atom classes, with or "
        "without '@' density, single atoms with table density) or a parenthesised mixture; quantities are decimal "
        "spellings over 12 decades (1e-8..1e7) incl. zeros; 'wt%'/'vol%' with bare '%' or repeated word on later parts, "
        "all 13 units in every position, layers, repeated groups '( ... )k', optional spaces. The tree is rendered and "
        "parsed, translated into mix_by_weight/mix_by_volume calls, and evaluated by an independent reference "
        "(Fractions over atom masses): composition vectors normalised to sum 1 must agree (rel 1e-11 plus the "
        "rounding floor of '100 - sum'), zero-quantity parts absent, density = total mass / total volume or unknown, "
        "total_mass / thickness = the stated amount; a volume quantity of a material of unknown density and "
        "percentages above 100 must raise. API cases also use keywords, Formula-or-string components, private tables "
        "and a rescaled formula unit; series cases make 2..6 calls (both functions, zero quantities, density=/"
        "natural_density=/name=) on the SAME Formula objects and require after every call that no component changed "
        "(structure, density, name), that the result is a new object, and that the result agrees with the reference. "
        "non-trivial = >= 3 parts at one level, or quantities spanning >= 4 decades, or a "
        "nested / repeated group (a component that is itself a mixture); distinct by rendered string (+ call shape).")
ASSUMPTIONS = [
    "atom.mass and atom.density of the table atoms are trusted (C06); Formula.mass/.density are not used by the oracle",
    "only forms derivable from the documented grammar plus '(mixture)@density' and '( quantity )count' (used by the "
    "property text and the test-suite) are generated; a unit is always followed by white space; mass/volume units "
    "are not mixed with lengths; the 13 alternative spellings of wt%/vol% in the code are not documented and not generated",
    "'components with zero quantity vanish' is read as: a zero quantity of a material of unknown density changes "
    "nothing (atoms, density, no error by volume); besides the reference, results with zero quantities are compared "
    "with the same call / string without those components (rel 1e-12)",
    "cases the documentation leaves open are skipped and counted: a zero quantity in a VOLUME unit (mL ...) of a "
    "material whose density is unknown (the documentation requires the density for materials given by volume), percentages whose exact remainder is in (0, 1e-6) or exactly 0 with non-integer percentages "
    "(float rounding of '100 - sum' decides), a repeated group whose quantities are all zero; a list of absolute "
    "quantities that are all zero is not generated (the first is made 1)",
    "tolerance: rel 1e-11 on normalised counts and density, plus 4*n*100*2^-52/remainder for every percentage "
    "node (the implementation computes the remainder as 100 - sum in doubles); total_mass/thickness rel 1e-12",
]

_STATE = {}

MASS_U = {"ng": Fraction(1, 10**9), "ug": Fraction(1, 10**6), "mg": Fraction(1, 10**3), "g": Fraction(1), "kg": Fraction(1000)}
VOL_U = {"nL": Fraction(1, 10**9), "uL": Fraction(1, 10**6), "mL": Fraction(1, 10**3), "L": Fraction(1)}
LEN_U = {"nm": Fraction(1, 10**9), "um": Fraction(1, 10**6), "mm": Fraction(1, 10**3), "cm": Fraction(1, 10**2)}
SEPS = [" // ", " // ", " // ", "//", " //", "// ", "  //  "]
EPS = 2.0 ** -52


def env():
    if not _STATE:
        import periodictable
        from periodictable import core, mass, density
        T = subtable.new("c11-private")
        mass.init(T)
        density.init(T)
        _STATE["tables"] = {"public": periodictable.elements, "private": T}
        _STATE["pool"] = Pool(periodictable.elements)
        known = [el.symbol for el in periodictable.elements if el.number > 0 and el.density is not None]
        _STATE["dense_pool"] = Pool(periodictable.elements, symbols=known)
        _STATE["pt"] = periodictable
        _STATE["emass"] = periodictable.constants.electron_mass
    return _STATE


# ----------------------------------------------------------------------
# strategies
def spell(dec, drop_zero=False, trail=""):
    """Spelling of a positive Decimal as a documented `count` (number | fraction)."""
    s = format(dec, "f")                 # positional: '0.00012', '1200', '12.50'
    if "." in s:
        s = s.rstrip("0")
        if s.endswith("."):
            s = s[:-1]
    if "." not in s:
        return s + trail                 # '12' or '12.'
    if drop_zero and s.startswith("0."):
        s = s[1:]                        # '.5'
    return s


def qty(lo=-8, hi=3, zero=False):
    """Decimal spelling of a positive quantity, 1..4 significant digits, decades lo..hi+3."""
    plain = st.integers(1, 100).map(str)
    wide = st.tuples(st.integers(1, 9999), st.integers(lo, hi), st.booleans(), st.sampled_from(["", "", "."])).map(
        lambda t: spell(Decimal(t[0]).scaleb(t[1]), t[2], t[3]))
    alts = [plain, wide, wide, wide, plain, wide, wide, wide, wide]
    if zero:
        alts.append(st.sampled_from(["0.", "0.0", ".0", "0.00"]))
    return st.one_of(*alts)


def single_atom(pool):
    return st.tuples(pool.atom(), st.sampled_from([None, None, "2", "0.5", "3"]), st.sampled_from([None, None, "2", "1.5"])).map(
        lambda t: {"g": [["i", t[1], [["a", t[0], False, t[2]]]]], "s": [], "d": None})


def dtag():
    return st.tuples(fa.count_str(allow_none=False, max_int=25), st.sampled_from(["", "", "n", "i"])).map(list)


def gtag():
    return st.tuples(fa.count_str(allow_none=False, max_int=25), st.sampled_from(["n", "n", "", "i"])).map(list)


# Strategies are built once per (dense, depth, width) and never inside flatmap:
# building a strategy per draw costs far more than the draw.
_MEMO = {}


def memo(fn):
    def wrapped(*args):
        key = (fn.__name__,) + args
        if key not in _MEMO:
            _MEMO[key] = fn(*args)
        return _MEMO[key]
    return wrapped


@memo
def compound_part(dense):
    """A compound; *dense*: its density is almost always known."""
    E = env()
    body = fa.compound(E["pool"], depth=2, max_groups=3, max_atoms=3, density=False)
    tagged = st.tuples(body, dtag()).map(lambda t: dict(t[0], d=t[1]))
    if dense:
        alts = [single_atom(E["dense_pool"])] * 3 + [tagged] * 3 + [single_atom(E["pool"])]
    else:
        alts = [single_atom(E["pool"])] * 2 + [tagged] * 2 + [body] * 2
    return st.one_of(*alts).map(lambda t: ["c", t])


PADS = [["", ""], ["", ""], ["", ""], [" ", " "], [" ", ""], ["", " "]]


def _seps(n):
    return st.lists(st.sampled_from(SEPS), min_size=n, max_size=n)


@memo
def part(dense, depth, width):
    if depth <= 0:
        return compound_part(dense)
    grouped = st.tuples(mix(dense, depth - 1, width), st.one_of(st.none(), dtag(), gtag()), st.sampled_from(PADS)).map(
        lambda t: ["g", t[0], t[1], t[2]])
    return st.one_of(compound_part(dense), compound_part(dense), grouped)


def fit_percents(qs):
    """scale the percentages down by powers of ten until their sum is <= 100"""
    qs = list(qs)
    for _ in range(12):
        if sum(Fraction(q) for q in qs) <= 100:
            break
        qs = [spell(Decimal(q).scaleb(-1), False, "") if Fraction(q) != 0 else q for q in qs]
    return qs


@memo
def pct_mix(dense, depth, width):
    width = max(2, width)
    one = st.one_of(st.integers(1, 60).map(str), qty(-6, -2, zero=True), qty(-3, -2),
                    st.sampled_from(["50", "10", "25", "33.3", "99", "0.5", ".1", "12.5"]))

    def mk(t):
        by, parts, qs, mode, fmt, seps = t
        n = len(parts)
        qs = qs[:n - 1]
        mode = {7: 0, 3: 0, 13: 1}.get(mode, 2)
        if mode == 1:
            # integer percentages adding up to exactly 100: the last part gets nothing
            ints = [max(1, int(Fraction(q)) % 40) for q in qs]
            ints[-1] = 100 - sum(ints[:-1]) if sum(ints[:-1]) < 100 else 1
            qs = [str(v) for v in ints]
        if mode != 0:
            qs = fit_percents(qs)
        else:
            # percentages above 100 must be refused
            for _ in range(12):
                if sum(Fraction(q) for q in qs) > 101:
                    break
                qs = [spell(Decimal(q).scaleb(1), False, "") if Fraction(q) != 0 else "60" for q in qs]
        return ["p", by, qs, parts, fmt[:n - 1], seps[:n - 1]]
    return st.tuples(st.sampled_from(["w", "v"]) if dense else st.sampled_from(["w", "w", "w", "v"]),
                     st.lists(part(dense, depth, max(2, width - 1)), min_size=2, max_size=width),
                     st.lists(one, min_size=width - 1, max_size=width - 1),
                     st.integers(0, 19),
                     st.lists(st.tuples(st.booleans(), st.sampled_from([False, False, True])).map(list),
                              min_size=width - 1, max_size=width - 1),
                     _seps(width - 1)).map(mk)


@memo
def items(dense, depth, width, kind, rep_depth):
    if kind == "l":
        units = list(LEN_U)
    else:
        units = list(MASS_U) + list(VOL_U) if dense else list(MASS_U) * 2 + list(VOL_U)
    u = st.tuples(qty(zero=True), st.sampled_from(units), st.booleans(), part(dense, depth, max(2, width - 1))).map(
        lambda t: ["u", t[0], t[1], t[2], t[3]])
    if rep_depth > 0:
        inner = items(dense, depth, max(2, width - 2), kind, rep_depth - 1)
        rep = st.tuples(inner, fa.count_str(allow_none=False, max_int=40), st.sampled_from(PADS)).map(
            lambda t: ["r", t[0][0], t[0][1], t[1], t[2]])
        one = st.one_of(u, u, u, rep)
    else:
        one = u
    def fix(t):
        its, seps = t
        if all(it[0] == "u" and Fraction(it[1]) == 0 for it in its):
            # all-zero absolute quantities mean nothing: make the first one positive
            its = [["u", "1"] + its[0][2:]] + its[1:]
        return its, seps[:len(its) - 1]
    return st.tuples(st.lists(one, min_size=1, max_size=width), _seps(width - 1)).map(fix)


@memo
def qty_mix(dense, depth, width):
    m = items(dense, depth, width, "m", 2).map(lambda t: ["q", "m", t[0], t[1]])
    l = items(dense, depth, width, "l", 2).map(lambda t: ["q", "l", t[0], t[1]])
    return st.one_of(m, m, l) if dense else m


@memo
def mix(dense, depth, width):
    return st.one_of(pct_mix(dense, depth, width), qty_mix(dense, depth, width))


# ----------------------------------------------------------------------
# rendering (documented grammar)
def render_part(p):
    if p[0] == "c":
        return fa.render(p[1])
    _, m, tag, pads = p
    s = "(" + pads[0] + render_mix(m) + pads[1] + ")"
    if tag is not None:
        s += "@" + tag[0] + tag[1]
    return s


def render_items(its, seps):
    out = ""
    for k, it in enumerate(its):
        if k:
            out += seps[k - 1]
        if it[0] == "u":
            _, q, unit, sp, p = it
            out += q + (" " if sp else "") + unit + " " + render_part(p)
        else:
            _, inner, iseps, cnt, pads = it
            out += "(" + pads[0] + render_items(inner, iseps) + pads[1] + ")" + cnt
    return out


def render_mix(m):
    if m[0] == "p":
        _, by, qs, parts, fmt, seps = m
        word = "wt%" if by == "w" else "vol%"
        out = ""
        for k, p in enumerate(parts):
            if k:
                out += seps[k - 1]
            if k < len(qs):
                sp, full = fmt[k]
                out += qs[k] + (" " if sp else "") + (word if (k == 0 or full) else "%") + " "
            out += render_part(p)
        return out
    return render_items(m[2], m[3])


# ----------------------------------------------------------------------
# reference evaluation
class Over100(Exception):
    pass


class Ref(object):
    """Evaluates a tree with the reference calculator; collects the expected
    error conditions and the tolerance slack instead of stopping at the first."""

    def __init__(self, E, table):
        self.E = E
        self.T = table
        self.em = E["emass"]
        self.errors = []      # expected exceptions ("need-density", "over-100")
        self.ambiguous = []
        self.slack = 0.0
        self.cls = set()

    def q(self, s):
        return Fraction(float(s))

    def part(self, p):
        if p[0] == "c":
            comp = fa.composition(self.E["pool"], p[1])
            return comp, rc.compound_density(self.T, comp, p[1]["d"], self.em)
        _, m, tag, _ = p
        comp, rho, _ = self.mix(m)
        self.cls.add("nested")
        if tag is not None and comp:
            self.cls.add("grouped-density:@" + tag[1])
            rho = Fraction(float(tag[0]))
            if tag[1] == "n":
                rho = rho / rc.natural_ratio(self.T, comp, self.em)
        return comp, rho

    # "components with zero quantity vanish": a zero quantity of a material
    # whose density is unknown changes nothing (the reference drops zero
    # quantities before it looks at any density)
    def _mixw(self, parts):
        if any(q == 0 and r is None for _, r, q in parts):
            self.cls.add("zero-quantity-of-unknown-density")
        return rc.mix_weight(self.T, parts, self.em)

    def _mixv(self, parts):
        if any(q == 0 and r is None for _, r, q in parts):
            self.cls.add("zero-quantity-of-unknown-density")
        try:
            return rc.mix_volume(self.T, parts, self.em)
        except rc.NeedDensity:
            self.errors.append("need-density")
            # carry on with a placeholder so that further conditions are collected
            return rc.mix_weight(self.T, parts, self.em)[0], None

    def mix(self, m):
        """-> (comp, rho, total) ; total in grams or metres for quantity mixtures"""
        if m[0] == "p":
            _, by, qs, parts, _, _ = m
            vals = [self.q(x) for x in qs]
            rem = 100 - sum(vals)
            n = len(parts)
            if rem < 0:
                if rem > -Fraction(1, 10**6):
                    self.ambiguous.append("percentages within 1e-6 above 100")
                self.errors.append("over-100")
                rem = Fraction(0)
            elif rem == 0:
                if any(v.denominator != 1 for v in vals):
                    self.ambiguous.append("remainder exactly 0 with non-integer percentages")
                self.cls.add("remainder:0")
            elif rem < Fraction(1, 10**6):
                self.ambiguous.append("remainder in (0, 1e-6)")
            else:
                self.slack += 4 * n * 100 * EPS / float(rem)
            if any(v == 0 for v in vals):
                self.cls.add("zero-quantity")
            ev = [self.part(p) for p in parts]
            trip = [(c, r, q) for (c, r), q in zip(ev, vals + [rem])]
            self.cls.add("pct:" + ("wt" if by == "w" else "vol"))
            comp, rho = (self._mixw if by == "w" else self._mixv)(trip)
            return comp, rho, None
        _, kind, its, _ = m
        comp, rho, total = self.items(kind, its)
        return comp, rho, total

    def items(self, kind, its):
        trip = []
        for it in its:
            if it[0] == "u":
                _, qs, unit, _, p = it
                c, r = self.part(p)
                v = self.q(qs)
                self.cls.add("unit:" + unit)
                if v == 0:
                    self.cls.add("zero-quantity")
                if kind == "l":
                    amount = v * LEN_U[unit]
                elif unit in MASS_U:
                    amount = v * MASS_U[unit]
                else:
                    if r is None:
                        if v == 0:
                            self.ambiguous.append("zero volume of unknown density")
                        else:
                            self.errors.append("need-density")
                        amount = v
                    else:
                        amount = v * VOL_U[unit] * 1000 * r
                trip.append((c, r, amount))
            else:
                _, inner, _, cnt, _ = it
                c, r, tot = self.items(kind, inner)
                self.cls.add("repeated-group")
                if tot == 0:
                    self.ambiguous.append("all-zero group")
                trip.append((c, r, tot * self.q(cnt)))
        total = sum(q for _, _, q in trip)
        if total == 0:
            self.ambiguous.append("all-zero quantities")
        comp, rho = (self._mixv if kind == "l" else self._mixw)(trip)
        return comp, rho, total


# ----------------------------------------------------------------------
# translation into API calls
class CannotBuild(Exception):
    pass


def build_part(E, T, p):
    pt = E["pt"]
    if p[0] == "c":
        return pt.formula(fa.render(p[1]), table=T)
    _, m, tag, _ = p
    kw = {}
    if tag is not None:
        kw["natural_density" if tag[1] == "n" else "density"] = float(tag[0])
    return build_mix(E, T, m, kw)


def build_mix(E, T, m, kw=None):
    pt = E["pt"]
    kw = dict(kw or {})
    if m[0] == "p":
        _, by, qs, parts, _, _ = m
        vals = [Fraction(float(x)) for x in qs]
        if sum(vals) > 100:
            raise CannotBuild("percentages above 100 have no equivalent call")
        quant = [float(v) for v in vals] + [float(100 - sum(vals))]
        args = []
        for p, q in zip(parts, quant):
            args += [build_part(E, T, p), q]
        return (pt.mix_by_weight if by == "w" else pt.mix_by_volume)(*args, **kw)
    f, _ = build_items(E, T, m[1], m[2], kw)
    return f


def build_items(E, T, kind, its, kw=None):
    """mix_by_weight(part, grams, ...) / mix_by_volume(part, metres, ...) -> (formula, total)"""
    pt = E["pt"]
    args = []
    total = 0.0
    for it in its:
        if it[0] == "u":
            _, qs, unit, _, p = it
            f = build_part(E, T, p)
            v = float(qs)
            if kind == "l":
                amount = v * float(LEN_U[unit])
            elif unit in MASS_U:
                amount = v * float(MASS_U[unit])
            else:
                if f.density is None:
                    raise CannotBuild("volume of a material without density")
                amount = v * float(VOL_U[unit]) * 1000. * f.density
        else:
            _, inner, _, cnt, _ = it
            f, tot = build_items(E, T, kind, inner)
            amount = tot * float(cnt)
        args += [f, amount]
        total += amount
    fn = pt.mix_by_volume if kind == "l" else pt.mix_by_weight
    return fn(*args, **(kw or {})), total


# ----------------------------------------------------------------------
# comparison
def close(x, y, rel):
    return x == y or abs(x - y) <= rel * max(abs(x), abs(y))


def compare(f, comp, rho, T, tol, tag, case, check_rho=True):
    """Formula *f* against the reference material (comp, rho)."""
    got = {}
    for atom, n in f.atoms.items():
        k = atom_key(atom)
        if k in got or atom is not rc.key_atom(T, k):
            raise Violation("c11:%s:identity" % tag, "atom %r is not the (unique) object of the table in use" % (atom,), case)
        got[k] = n
    want = dict((k, v) for k, v in comp.items() if v != 0)
    if set(got) != set(want):
        extra = sorted(set(got) - set(want))
        missing = sorted(set(want) - set(got))
        sub = "zero-quantity-present" if extra and not missing else "atoms"
        raise Violation("c11:%s:%s" % (tag, sub), "atoms present %r; unexpected %r missing %r" % (sorted(got), extra, missing), case)
    if any(not (v > 0) for v in got.values()):
        raise Violation("c11:%s:atoms" % tag, "non-positive count in %r" % (got,), case)
    if want:
        gn = rc.normalised(got)
        wn = rc.normalised(want)
        for k in sorted(wn):
            if not close(gn[k], wn[k], tol):
                raise Violation("c11:%s:proportions" % tag,
                                "fraction of %r is %.15g expected %.15g (rel %.2e, tol %.2e)"
                                % (k, gn[k], wn[k], abs(gn[k] - wn[k]) / wn[k], tol), case)
    if check_rho:
        if rho is None:
            if f.density is not None:
                raise Violation("c11:%s:density-invented" % tag, "density %r expected unknown" % (f.density,), case)
        elif f.density is None or not close(float(f.density), float(rho), tol):
            raise Violation("c11:%s:density" % tag, "density %r expected %.15g" % (f.density, float(rho)), case)


def decades(vals):
    vals = [float(v) for v in vals if v > 0]
    return log10(max(vals) / min(vals)) if len(vals) > 1 else 0.0


def shape(m):
    """(widest level, nested?, top-level quantities)"""
    nested = [False]
    width = [0]

    def part(p):
        if p[0] == "g":
            nested[0] = True
            walk(p[1])

    def its(items):
        width[0] = max(width[0], len(items))
        for it in items:
            if it[0] == "u":
                part(it[4])
            else:
                nested[0] = True
                its(it[1])

    def walk(m):
        if m[0] == "p":
            width[0] = max(width[0], len(m[3]))
            for p in m[3]:
                part(p)
        else:
            its(m[2])
    walk(m)
    return width[0], nested[0]


def top_quantities(m):
    if m[0] == "p":
        vals = [Fraction(float(x)) for x in m[2]]
        return vals + [100 - sum(vals)]
    return [Fraction(float(it[1])) for it in m[2] if it[0] == "u"]


def units_in(m, first=True, out=None):
    """[(unit, is_first_token_of_the_string)]"""
    out = [] if out is None else out

    def part(p, first):
        if p[0] == "g":
            walk(p[1], False)

    def its(items, first):
        for k, it in enumerate(items):
            if it[0] == "u":
                out.append((it[2], first and k == 0))
                part(it[4], False)
            else:
                its(it[1], False)

    def walk(m, first):
        if m[0] == "p":
            for p in m[3]:
                part(p, False)
        else:
            its(m[2], first)
    walk(m, first)
    return out


def reject_feature(m, s, exc=None):
    """Label for the bucket of a rejected valid string: which documented
    feature it uses that is a known separate way of failing."""
    import re
    feats = []

    def part(p):
        if p[0] == "g":
            walk(p[1])

    def its(kind, items):
        for it in items:
            if it[0] == "u":
                part(it[4])
            else:
                if kind == "l":
                    feats.append("repeated-layer-group")
                its(kind, it[1])

    def walk(m):
        if m[0] == "p":
            for k, p in enumerate(m[3]):
                if 1 <= k < len(m[2]) and not m[4][k][1] and render_part(p)[:1] in "0123456789.":
                    feats.append("bare-percent-before-leading-count")
                part(p)
        else:
            its(m[1], m[2])
    walk(m)
    if re.search(r"(?:^|[(])[ (]*[0-9.]+ ?L ", s):
        feats.append("unit-L-first")
    # the exception tells which of the features present is the one that failed
    hint = {"AttributeError": "repeated-layer-group", "ValueError": "unit-L-first",
            "ParseException": "bare-percent-before-leading-count"}.get(type(exc).__name__ if exc is not None else "")
    if hint in feats:
        return hint
    for f in ("unit-L-first", "repeated-layer-group", "bare-percent-before-leading-count"):
        if f in feats:
            return f
    return "other"


# ----------------------------------------------------------------------
# metamorphic: the same mixture without its zero-quantity components
class NoStrip(Exception):
    pass


def strip_zero(m):
    """The tree without its zero-quantity components (recursively); raises
    NoStrip when what is left is not a mixture of the grammar any more."""
    def part(p):
        if p[0] == "c":
            return p
        return ["g", strip_zero(p[1]), p[2], p[3]]

    def its(items, seps):
        out, so = [], []
        for k, it in enumerate(items):
            if it[0] == "u":
                if Fraction(float(it[1])) == 0:
                    continue
                new = ["u", it[1], it[2], it[3], part(it[4])]
            else:
                a, b = its(it[1], it[2])
                new = ["r", a, b, it[3], it[4]]
            if out:
                so.append(seps[k - 1] if k else " // ")
            out.append(new)
        if not out:
            raise NoStrip()
        return out, so

    if m[0] == "q":
        a, b = its(m[2], m[3])
        return ["q", m[1], a, b]
    _, by, qs, parts, fmt, seps = m
    vals = [Fraction(float(x)) for x in qs]
    qs, parts, fmt = list(qs), [part(p) for p in parts], list(fmt)
    if 100 - sum(vals) == 0:
        # the last part gets nothing: the part before it becomes the base
        parts.pop()
        qs.pop()
        fmt.pop()
        vals.pop()
    keep = [k for k in range(len(parts)) if k >= len(qs) or vals[k] != 0]
    parts2 = [parts[k] for k in keep]
    qs2 = [qs[k] for k in keep if k < len(qs)]
    fmt2 = [fmt[k] for k in keep if k < len(qs)]
    if len(parts2) < 2 or len(qs2) != len(parts2) - 1:
        raise NoStrip()
    return ["p", by, qs2, parts2, fmt2, [" // "] * (len(parts2) - 1)]


def same_material(f, g, T, tag, what, case, extra=()):
    """f (with zero-quantity components) and g (without) are the same material."""
    a = rc.normalised(dict((atom_key(x), n) for x, n in f.atoms.items()))
    b = rc.normalised(dict((atom_key(x), n) for x, n in g.atoms.items()))
    if set(a) != set(b) or any(not close(a[k], b[k], 1e-12) for k in a):
        raise Violation("c11:zero-quantity:%s:atoms" % tag, "%s: atoms %r without the zero-quantity components %r" % (what, a, b), case)
    if (f.density is None) != (g.density is None) or (f.density is not None and not close(f.density, g.density, 1e-12)):
        raise Violation("c11:zero-quantity:%s:density" % tag, "%s: density %r, without the zero-quantity components %r"
                        % (what, f.density, g.density), case)
    for attr in extra:
        x, y = getattr(f, attr, None), getattr(g, attr, None)
        if x is None or y is None or not close(x, y, 1e-12):
            raise Violation("c11:zero-quantity:%s:%s" % (tag, attr), "%s: %s %r, without the zero-quantity components %r"
                            % (what, attr, x, y), case)


# ----------------------------------------------------------------------
def check_string(ctx, value):
    E = env()
    m, which = value["mix"], value["table"]
    T = E["tables"][which]
    s = render_mix(m)
    case = {"kind": "string", "mix": m, "table": which, "string": s}
    ref = Ref(E, T)
    comp, rho, total = ref.mix(m)
    kind = {"pw": "wt%", "pv": "vol%", "qm": "mass-units", "ql": "layers"}[m[0] + m[1]]
    if ref.ambiguous:
        ctx.count("skipped:" + ref.ambiguous[0])
        return
    width, nested = shape(m)
    span = decades(top_quantities(m))
    cls = ["form:" + kind, "table:" + which, "parts:%d" % min(width, 6), "decades:%d" % min(int(span), 12)]
    cls += sorted(ref.cls)
    for u, first in units_in(m):
        if first:
            cls.append("first-unit:" + u)
    cls.append("density:" + ("known" if rho is not None else "unknown"))
    if ref.errors:
        cls.append("expect-error:" + ref.errors[0])
    ctx.case(("s", which, s), nontrivial=(width >= 3 or span >= 4 or nested),
             sample={"string": s, "table": which}, cls=cls)
    tol = 1e-11 + ref.slack

    try:
        f = E["pt"].formula(s, table=T)
    except Exception as e:  # noqa
        if ref.errors:
            return
        fr = lib_frame(e.__traceback__) or "?"
        raise Violation("c11:string-rejected:%s:%s:%s" % (reject_feature(m, s, e), type(e).__name__, fr),
                        "%r raised %s: %s" % (s, type(e).__name__, str(e)[:200]), case)
    if ref.errors:
        raise Violation("c11:%s:accepted" % ref.errors[0],
                        "%r must raise (%s) but gave %r density %r" % (s, ref.errors[0], f.structure, f.density), case)
    compare(f, comp, rho, T, tol, kind, case)
    if m[0] == "q":
        attr = "total_mass" if m[1] == "m" else "thickness"
        got = getattr(f, attr, None)
        if got is None or not close(float(got), float(total), 1e-12 + ref.slack):
            raise Violation("c11:%s:%s" % (kind, attr), "%r: %s is %r expected %.15g" % (s, attr, got, float(total)), case)

    # the same string without its zero-quantity components
    if "zero-quantity" in ref.cls or "remainder:0" in ref.cls:
        try:
            m2 = strip_zero(m)
        except NoStrip:
            m2 = None
        if m2 is not None:
            s2 = render_mix(m2)
            ctx.count("metamorphic:without-zero-quantity")
            try:
                f2 = E["pt"].formula(s2, table=T)
            except Exception as e:  # noqa
                if lib_frame(e.__traceback__) is None:
                    raise
                raise Violation("c11:zero-quantity:string:%s" % type(e).__name__,
                                "%r is accepted but %r (zero quantities removed) raised %s: %s" % (s, s2, type(e).__name__, e), case)
            same_material(f, f2, T, "string", "%r vs %r" % (s, s2), case,
                          extra=(["total_mass"] if m[:2] == ["q", "m"] else ["thickness"] if m[0] == "q" else []))

    # the corresponding API calls
    try:
        g = build_mix(E, T, m)
    except CannotBuild:
        return
    except Exception as e:  # noqa
        fr = lib_frame(e.__traceback__)
        if fr is None:
            raise
        raise Violation("c11:api-equivalent:%s:%s" % (type(e).__name__, fr),
                        "calls equivalent to %r raised %s: %s" % (s, type(e).__name__, str(e)[:200]), case)
    compare(g, comp, rho, T, tol, "api-equivalent", case)


def check_api(ctx, value):
    """mix_by_weight / mix_by_volume with keywords, strings or formulas, zero
    quantities and a rescaled formula unit."""
    E = env()
    pt = E["pt"]
    which = value["table"]
    T = E["tables"][which]
    by = value["by"]
    parts = value["parts"]
    quant = [float(q) for q in value["q"]]
    case = dict(value, kind="api")
    ref = Ref(E, T)
    ev = [ref.part(p) for p in parts]
    trip = [(c, r, Fraction(q)) for (c, r), q in zip(ev, quant)]
    comp, rho = (ref._mixw if by == "w" else ref._mixv)(trip)
    if ref.ambiguous:
        ctx.count("skipped:" + ref.ambiguous[0])
        return
    if not comp and ("density" in value["kw"] or "natural_density" in value["kw"]):
        ctx.count("skipped:density keyword on an empty mixture")
        return
    strings = [render_part(p) if p[0] == "c" else render_mix(p[1]) for p in parts]
    nested = any(p[0] == "g" for p in parts)
    span = decades(quant)
    kw = value["kw"]
    cls = ["form:api-" + ("weight" if by == "w" else "volume"), "table:" + which, "parts:%d" % len(parts),
           "decades:%d" % min(int(span), 12), "density:" + ("known" if rho is not None else "unknown")]
    cls += sorted(ref.cls) + ["kw:" + k for k in sorted(kw)] + (["zero-quantity"] if any(q == 0 for q in quant) else [])
    if not any(q > 0 for q in quant):
        cls.append("all-zero")
    if ref.errors:
        cls.append("expect-error:" + ref.errors[0])
    ctx.case(("a", which, by, tuple(strings), tuple(value["q"]), tuple(value["as"]), repr(sorted(kw.items())), repr(value["scale"])),
             nontrivial=(len(parts) >= 3 or span >= 4 or nested),
             sample={"call": "mix_by_%s" % ("weight" if by == "w" else "volume"), "components": strings,
                     "quantities": value["q"], "kw": kw, "table": which}, cls=cls)
    tol = 1e-11 + ref.slack
    fn = pt.mix_by_weight if by == "w" else pt.mix_by_volume

    def make(scale, raw=False):
        args = []
        for k, (p, how, q) in enumerate(zip(parts, value["as"], quant)):
            if how == "str" and (p[0] == "c" or p[2] is None):
                c = strings[k]
                if scale is not None and scale[0] == k:
                    c = pt.formula(c, table=T)
            else:
                c = build_part(E, T, p)
            if scale is not None and scale[0] == k:
                d = c.density
                c = scale[1] * c
                c.density = d
            args += [c, q]
        if raw:
            return args
        kws = dict(kw)
        if which == "private" or value.get("pass_table"):
            kws["table"] = T
        return fn(*args, **kws)

    for scale in (None, value["scale"]):
        if scale is not None and scale[0] >= len(parts):
            continue
        tag = "api-%s" % ("weight" if by == "w" else "volume") + ("" if scale is None else ":rescaled-unit")
        try:
            f = make(scale)
        except CannotBuild:
            # a nested component needs a volume of a material of unknown density
            continue
        except Exception as e:  # noqa
            fr = lib_frame(e.__traceback__)
            if fr is None:
                raise
            if ref.errors and isinstance(e, ValueError):
                continue
            # a component given as a mixture string may be rejected for one of
            # the reasons a string case is: same event, same bucket
            for k, p in enumerate(parts):
                if p[0] == "g":
                    feat = reject_feature(p[1], strings[k], e)
                    if feat != "other":
                        raise Violation("c11:string-rejected:%s:%s:%s" % (feat, type(e).__name__, fr),
                                        "component %r raised %s: %s" % (strings[k], type(e).__name__, str(e)[:200]), case)
            if ref.errors:
                raise Violation("c11:%s:%s" % (ref.errors[0], type(e).__name__),
                                "documented ValueError, got %s: %s" % (type(e).__name__, e), case)
            raise Violation("c11:%s:%s:%s" % (tag, type(e).__name__, fr), "%s: %s" % (type(e).__name__, str(e)[:200]), case)
        if ref.errors:
            raise Violation("c11:%s:accepted" % ref.errors[0], "call must raise ValueError but gave %r" % (f.structure,), case)
        want_rho = rho
        if comp:
            if "density" in kw:
                want_rho = Fraction(kw["density"])
            elif "natural_density" in kw:
                want_rho = Fraction(kw["natural_density"]) / rc.natural_ratio(T, comp, E["emass"])
        compare(f, comp, want_rho, T, tol, tag, case)
        if "name" in kw and f.name != kw["name"]:
            raise Violation("c11:%s:name" % tag, "name %r expected %r" % (f.name, kw["name"]), case)
        if scale is None and any(q == 0 for q in quant) and any(q > 0 for q in quant):
            # the same call without its zero-quantity components
            ctx.count("metamorphic:without-zero-quantity")
            full = make(None, raw=True)
            args2 = []
            for k in range(len(parts)):
                if quant[k] > 0:
                    args2 += full[2 * k:2 * k + 2]
            kws = dict(kw)
            if which == "private" or value.get("pass_table"):
                kws["table"] = T
            g = fn(*args2, **kws)
            same_material(f, g, T, "api", "mix_by_%s(%s) %r" % ("weight" if by == "w" else "volume",
                                                                ", ".join("%s, %r" % (x, q) for x, q in zip(strings, quant)), kw), case)


# ----------------------------------------------------------------------
def short_repr(strategy, name):
    """The same strategy behind a composite: the repr of the nested strategy
    objects (which Hypothesis builds when it reports a failure) is megabytes long."""
    def wrapped(draw):
        return draw(strategy)
    wrapped.__name__ = name
    return st.composite(wrapped)()


def string_strategy(depth, width):
    m = st.one_of(mix(True, depth, width), mix(True, depth, width), mix(False, depth, width))
    return short_repr(st.fixed_dictionaries({"mix": m, "table": st.sampled_from(["public", "public", "private"])}),
                      "mixture_strings_%d_%d" % (depth, width))


def api_strategy(depth):
    e = st.tuples(st.integers(1, 9999), st.integers(-8, 3)).map(lambda t: "%de%d" % t)
    q = st.one_of(st.integers(1, 100).map(str), e, e, st.sampled_from(["0", "0.0"]),
                  st.floats(1e-6, 1e6, allow_nan=False).map(repr))
    kw = st.one_of(
        st.just({}), st.just({}),
        st.fixed_dictionaries({"density": st.floats(0.01, 30)}),
        st.fixed_dictionaries({"natural_density": st.floats(0.01, 30)}),
        st.fixed_dictionaries({"name": st.sampled_from(["mix", "solution 1", "x"])}),
        st.fixed_dictionaries({"name": st.just("alloy"), "density": st.floats(0.01, 30)}))

    def one(dense):
        def cut(d):
            n = len(d["parts"])
            d["q"] = d["q"][:n]
            d["as"] = d["as"][:n]
            return d
        return st.fixed_dictionaries({
            "by": st.sampled_from(["w", "v"]) if dense else st.sampled_from(["w", "w", "v"]),
            "parts": st.lists(part(dense, depth, 3), min_size=1, max_size=6),
            "q": st.lists(q, min_size=6, max_size=6),
            "as": st.lists(st.sampled_from(["str", "obj"]), min_size=6, max_size=6),
            "kw": kw,
            "table": st.sampled_from(["public", "public", "private"]),
            "pass_table": st.booleans(),
            "scale": st.tuples(st.integers(0, 5), st.one_of(st.integers(2, 50), st.floats(1e-3, 1e3))).map(list),
        }).map(cut)
    return short_repr(st.one_of(one(True), one(True), one(False)), "mixture_calls_%d" % depth)


def task_strings(ctx, n, depth, width):
    env()
    ctx.search("strings", string_strategy(depth, width), check_string, n)


def task_api(ctx, n, depth):
    env()
    ctx.search("api", api_strategy(depth), check_api, n)


# ----------------------------------------------------------------------
# a series of calls that share their component objects
def snapshot(f):
    return (f.structure, f.density, f.name)


def check_series(ctx, value):
    """Several mix_by_weight / mix_by_volume calls in one case, all given the
    SAME Formula objects (a concentration series incl. zero quantities, with the
    density=/natural_density=/name= keywords).  A call must not modify its
    components nor hand one of them back as its result, and every result of
    the series must agree with the reference."""
    E = env()
    pt = E["pt"]
    which = value["table"]
    T = E["tables"][which]
    parts = value["parts"]
    case = dict(value, kind="series")
    strings = [render_part(p) for p in parts]
    ref0 = Ref(E, T)
    ev = [ref0.part(p) for p in parts]
    if ref0.ambiguous or ref0.errors:
        ctx.count("skipped:series component cannot be built")
        return
    try:
        comps = [build_part(E, T, p) for p in parts]
    except CannotBuild:
        ctx.count("skipped:series component cannot be built")
        return
    before = [snapshot(c) for c in comps]
    calls = [c for c in value["calls"]]
    nested = any(p[0] == "g" for p in parts)
    ctx.case(("series", which, tuple(strings), repr(calls)), nontrivial=(len(calls) >= 2 and len(parts) >= 2),
             sample={"components": strings, "calls": calls, "table": which},
             cls=["form:api-series", "table:" + which, "series:calls:%d" % len(calls), "parts:%d" % len(parts)]
             + (["nested"] if nested else []))
    tol = 1e-11 + ref0.slack
    for step, call in enumerate(calls):
        by = call["by"]
        quant = [float(q) for q in call["q"][:len(parts)]]
        quant += [0.0] * (len(parts) - len(quant))
        ref = Ref(E, T)
        trip = [(c, r, Fraction(q)) for (c, r), q in zip(ev, quant)]
        comp, rho = (ref._mixw if by == "w" else ref._mixv)(trip)
        kw = dict(call["kw"])
        if not comp:
            kw.pop("density", None)
            kw.pop("natural_density", None)
        positive = sum(1 for q in quant if q > 0)
        ctx.count("series:%s" % ("one-component" if positive == 1 else "empty" if positive == 0 else "several-components"))
        for k in sorted(kw):
            ctx.count("series:kw:" + k)
        fn = pt.mix_by_weight if by == "w" else pt.mix_by_volume
        args = []
        for c, q in zip(comps, quant):
            args += [c, q]
        tag = "api-series"
        where = "call %d of the series, mix_by_%s(%s, %s)" % (
            step + 1, "weight" if by == "w" else "volume",
            ", ".join("%s, %r" % (x, q) for x, q in zip(strings, quant)), ", ".join("%s=%r" % kv for kv in sorted(kw.items())))
        f = None
        try:
            f = fn(*args, **kw)
        except Exception as e:  # noqa
            fr = lib_frame(e.__traceback__)
            if fr is None:
                raise
            if not (ref.errors and isinstance(e, ValueError)):
                if ref.errors:
                    raise Violation("c11:%s:%s" % (ref.errors[0], type(e).__name__),
                                    "%s: documented ValueError, got %s: %s" % (where, type(e).__name__, e), case)
                raise Violation("c11:%s:%s:%s" % (tag, type(e).__name__, fr), "%s raised %s: %s" % (where, type(e).__name__, str(e)[:200]), case)
        # the components belong to the caller
        for k, c in enumerate(comps):
            if f is c:
                raise Violation("c11:api:result-is-component", "%s returned its own component %r (not a new formula)"
                                % (where, strings[k]), case)
            if snapshot(c) != before[k]:
                raise Violation("c11:api:component-modified", "%s changed component %r from (density, name) = %r to %r%s"
                                % (where, strings[k], before[k][1:], snapshot(c)[1:],
                                   "" if c.structure == before[k][0] else " and its structure"), case)
        if f is None:
            continue
        if ref.errors:
            raise Violation("c11:%s:accepted" % ref.errors[0], "%s must raise ValueError but gave %r" % (where, f.structure), case)
        if ref.ambiguous:
            ctx.count("series:step-unjudged:" + ref.ambiguous[0])
            continue
        want_rho = rho
        if comp:
            if "density" in kw:
                want_rho = Fraction(kw["density"])
            elif "natural_density" in kw:
                want_rho = Fraction(kw["natural_density"]) / rc.natural_ratio(T, comp, E["emass"])
        compare(f, comp, want_rho, T, tol, tag, dict(case, failing_call=step))
        if "name" in kw and f.name != kw["name"]:
            raise Violation("c11:%s:name" % tag, "%s: name %r expected %r" % (where, f.name, kw["name"]), case)


def series_strategy(depth):
    zero = st.sampled_from(["0", "0.0"])
    e = st.tuples(st.integers(1, 9999), st.integers(-6, 3)).map(lambda t: "%de%d" % t)
    q = st.one_of(zero, zero, st.integers(1, 100).map(str), st.integers(1, 100).map(str), e)
    dens = st.one_of(st.floats(0.01, 30), st.sampled_from([0.9982, 1.0707, 2.0]))
    kw = st.one_of(
        st.just({}),
        st.fixed_dictionaries({"density": dens}),
        st.fixed_dictionaries({"natural_density": dens}),
        st.fixed_dictionaries({"name": st.sampled_from(["brine 0%", "mix", "x"])}),
        st.fixed_dictionaries({"name": st.just("alloy"), "density": dens}),
        st.fixed_dictionaries({"name": st.just("blend"), "natural_density": dens}))
    call = st.fixed_dictionaries({"by": st.sampled_from(["w", "v"]), "q": st.lists(q, min_size=4, max_size=4), "kw": kw})

    def cut(d):
        n = len(d["parts"])
        for c in d["calls"]:
            c["q"] = c["q"][:n]
        return d
    return short_repr(st.fixed_dictionaries({
        "parts": st.lists(part(True, depth, 3), min_size=1, max_size=4),
        "calls": st.lists(call, min_size=2, max_size=6),
        "table": st.sampled_from(["public", "public", "private"]),
    }).map(cut), "mixture_series_%d" % depth)


def task_series(ctx, n, depth):
    env()
    ctx.search("series", series_strategy(depth), check_series, n)


def _tree(atoms, d=None, lead=None):
    return {"g": [["i", lead, [["a", [sym, iso, ch], False, cnt] for sym, iso, ch, cnt in atoms]]], "s": [], "d": d}


def task_unit_sweep(ctx):
    """Every unit in every position: first token of the string, later part,
    first token inside a parenthesised mixture, inside a repeated group; with
    and without a blank between count and unit.  (Deterministic.)"""
    A = ["c", _tree([("Fe", 0, 0, None)])]
    B = ["c", _tree([("H", 0, 0, "2"), ("O", 0, 0, None)], ["1", ""])]
    C = ["c", _tree([("Na", 0, 1, None), ("Cl", 0, -1, None)], ["2.16", "i"])]
    Dn = ["c", _tree([("D", 0, 0, "2"), ("O", 18, 0, None)], ["1.1", "n"], "2")]
    qs = ["5", "0.25", "12.", "300", ".5", "7.5"]
    k = 0
    for kind, units in (("m", list(MASS_U) + list(VOL_U)), ("l", list(LEN_U))):
        for u in units:
            for v in units:
                for sp in (False, True):
                    k += 1
                    q = [qs[(k + j) % len(qs)] for j in range(4)]
                    shapes = [
                        ["q", kind, [["u", q[0], u, sp, A], ["u", q[1], v, not sp, B]], [" // "]],
                        ["q", kind, [["u", q[0], u, sp, ["g", ["q", kind, [["u", q[1], v, sp, B], ["u", q[2], u, sp, C]], ["//"]],
                                                          None, ["", ""]]],
                                     ["u", q[3], v, sp, Dn]], [" // "]],
                        ["q", kind, [["r", [["u", q[0], u, sp, A], ["u", q[1], v, sp, B]], [" // "], "3", ["", ""]],
                                     ["u", q[2], v, sp, C]], [" // "]],
                        ["p", "w" if k % 2 else "v", ["20"],
                         [["g", ["q", kind, [["u", q[0], u, sp, B], ["u", q[1], v, sp, Dn]], [" // "]], ["1.05", ["", "n", "i"][k % 3]], ["", ""]], A],
                         [[sp, False]], [" // "]],
                    ]
                    for m in shapes:
                        ctx.check(check_string, {"mix": m, "table": "private" if k % 3 == 0 else "public"})
    # zero quantity of a material whose density is unknown (U): it vanishes, the density of the rest stays
    U = ["c", _tree([("Na", 0, 0, None), ("Cl", 0, 0, None)])]
    Z = ["0.", "0.0", ".0"]
    zero_cases = []
    for by in ("w", "v"):
        zero_cases.append(["p", by, ["60", "40"], [B, Dn, U], [[False, False], [False, False]], [" // ", " // "]])
        zero_cases.append(["p", by, ["0.0", "25"], [U, B, Dn], [[False, False], [True, True]], [" // ", "//"]])
        zero_cases.append(["p", by, ["30", "0."], [B, U, Dn], [[True, False], [False, False]], [" // ", " // "]])
        inner = ["g", ["p", "w", ["60", "40"], [B, Dn, U], [[False, False], [False, False]], [" // ", " // "]], None, ["", ""]]
        zero_cases.append(["p", by, ["20"], [inner, A], [[False, False]], [" // "]])
        zero_cases.append(["q", "m", [["u", "2", "mL", False, inner], ["u", "3", "g", True, A]], [" // "]])
        zero_cases.append(["q", "l", [["u", "2", "nm", False, inner], ["u", "3", "um", True, A], ["u", Z[0], "nm", False, U]], [" // ", " // "]])
    for j, z in enumerate(Z):
        zero_cases.append(["q", "m", [["u", "5", "g", False, B], ["u", z, ["g", "kg", "mg"][j], j == 1, U], ["u", "2", "mL", False, Dn]],
                           [" // ", " // "]])
        zero_cases.append(["q", "m", [["r", [["u", "5", "g", False, B], ["u", z, "ng", False, U]], [" // "], "3", ["", ""]],
                                      ["u", "2", "g", False, Dn]], [" // "]])
        zero_cases.append(["q", "l", [["u", z, "nm", False, U], ["u", "5", "nm", False, B], ["u", "2", "mm", True, Dn]], [" // ", " // "]])
    for m in zero_cases:
        for which in ("public", "private"):
            ctx.check(check_string, {"mix": m, "table": which})
    for by in ("w", "v"):
        for how in ("str", "obj"):
            for qz in (["3", "2", "0"], ["0", "3", "2"], ["3", "0.0", "2"]):
                ps = [B, Dn, U]
                ps = [ps[k] for k in ([0, 1, 2] if qz[2] in ("0",) else [2, 0, 1] if qz[0] == "0" else [0, 2, 1])]
                for kw in ({}, {"name": "series"}):
                    ctx.check(check_api, {"by": by, "parts": ps, "q": qz, "as": [how] * 3, "kw": kw, "table": "public",
                                          "pass_table": False, "scale": [1, 2]})
    # percentages: above 100 (must be refused), exactly 100 (last part vanishes), ordinary
    for by in ("w", "v"):
        for qs in (["60", "50"], ["100.5"], ["99.5", ".6"], ["70", "30"], ["100"], ["10", "15"], ["0.0", "40"]):
            fmt = [[False, False], [True, by == "w"]][:len(qs)]
            ps = [A, B, C][:len(qs)] + [Dn]
            for which in ("public", "private"):
                ctx.check(check_string, {"mix": ["p", by, qs, ps, fmt, [" // "] * len(qs)], "table": which})


def tasks(tier):
    from .. import depth
    return _tasks(tier) + [("little-stack", depth.task, dict(prop=PROPERTY))]


def _tasks(tier):
    if tier == "quick":
        return [("strings-a", task_strings, dict(n=330, depth=1, width=6)),
                ("strings-b", task_strings, dict(n=360, depth=2, width=4)),
                ("strings-c", task_strings, dict(n=360, depth=1, width=4)),
                ("strings-d", task_strings, dict(n=360, depth=0, width=6)),
                ("strings-e", task_strings, dict(n=360, depth=1, width=5)),
                ("unit-sweep", task_unit_sweep, dict()),
                ("api-a", task_api, dict(n=400, depth=1)),
                ("api-b", task_api, dict(n=400, depth=2)),
                ("api-c", task_api, dict(n=400, depth=0)),
                ("api-d", task_api, dict(n=400, depth=1)),
                ("api-e", task_api, dict(n=400, depth=0)),
                ("series", task_series, dict(n=400, depth=1))]
    out = []
    for k in range(8):
        out.append(("strings-%d" % k, task_strings, dict(n=6000, depth=1 + k % 3, width=6 if k % 3 == 0 else 4)))
    for k in range(6):
        out.append(("api-%d" % k, task_api, dict(n=6000, depth=k % 3)))
    out.append(("series", task_series, dict(n=6000, depth=1)))
    out.append(("unit-sweep", task_unit_sweep, dict()))
    # coverage-guided tier (pbt/fuzz.py): libFuzzer drives the strategies and oracles of these tasks
    from .. import fuzz
    fuzz.extend(out, PROPERTY, ['strings-1'])
    return out


def replay(ctx, case):
    if isinstance(case, dict) and case.get("kind") == "little-stack":
        from .. import depth
        return depth.check(ctx, case)
    if case["kind"] == "string":
        check_string(ctx, case)
    elif case["kind"] == "series":
        check_series(ctx, case)
    else:
        check_api(ctx, case)
