"""
C20 - ancillary tables are served to exactly the element or ion they belong to.

Exhaustive sweep of the five ancillary tables against independent readers of the
embedded text (pbt/tables_c20.py), on the public table and on a private table,
plus generated Q values for the form-factor formulas.

The public table always touches a property group before a private table is
initialised for it, and nothing is ever assigned or mutated: what happens
otherwise is C10's business (S5, S6), not C20's.
"""
from .. import subtable
import math
from decimal import Decimal

from hypothesis import strategies as st

from ..runner import Violation
from ..guards import unchanged, _same as same_value
from .. import argforms as AF
from .. import tables_c20 as R

PROPERTY = "C20"
RULE = ("sweep: for each of the 118 elements (plus the neutron slot of the crystal-structure list) and each table "
        "(public; private table initialised after the public one; and, in a fresh process, a private table whose "
        "groups are initialised BEFORE the public table touched them, followed by the public table) the served covalent radius + uncertainty, crystal "
        "structure, K_alpha/K_beta1, magnetic_ff dict (charges, which of j0/j2/j4/j6/J exist, the 7 coefficients, M, "
        "the same object through the ion) and, for the 211 Waasmaier-Kirfel labels, getCMformula(label).a/.b/.c/.symbol "
        "are compared with the entry an independent reader finds under that element's symbol in the embedded text "
        "(first spin state for Cordero; keyed by the symbol written in the row or in its '#Sym' comment, never by "
        "position); elements, charges, form-factor orders and element/ion labels WITHOUT an entry must give None, no "
        "attribute, no key or an exception; every element and every ion of the table (and the same of its first isotope) is asked for f0 through .xray.f0; fxrayatq spellings 'Na+' and charge=c resolve to the entry of that ion. "
        "j0(0) within 0.5 % of 1 and j2/j4/j6 at Q=0 equal 0 for all 98 charge states. generated: (entry, order, "
        "1-6 Q values in [0, 30], scalar/list/ndarray call, table) -> *_Q(Q), fxrayatq and .xray.f0 equal the "
        "documented sum of exponentials evaluated with math.exp/fsum; Q is handed over in a drawn argument form (scalars, list, tuple, ndarray layouts and "
        "integer dtypes, read-only), the result must have the argument's shape and the argument must come back unchanged; 'reuse' cases hand ONE list/ndarray object to every available order (j0, j2, j4, j6, J, M) of two "
        "ions and to .xray.f0 / fxrayatq / fxrayatstol of two labels in a row and judge every result against the "
        "intended Q values. large grids: a fixed handful of calls on grids of 2**18, 2**18+1, "
        "3e5, 600x600, 3x100001 and 2**20 points (C and Fortran order) for ions, isotope ions, neutral atoms and ions "
        "without an entry (.xray.f0), two labels (fxrayatq) and four magnetic orders, judged at ~70 strided points plus "
        "both ends and the points around 2**18; shape kept, argument unchanged. Every entry is non-trivial (finite domain swept "
        "completely); generated cases are non-trivial when some Q > 0; distinct by (table, element, group) / by value.")
ASSUMPTIONS = [
    "the embedded text is the specification; a coefficient is served correctly iff it == float(<its text>) (exact); "
    "the radius uncertainty (text in units of 0.01 A) is compared with Decimal(text)/100 at rel 1e-12",
    "crystal_structure '#Sym' comments are the key; three known slips in the comments are corrected in the reader "
    "(X -> n, first 'Th' -> Tb, Lw -> Lr)",
    "where a CFML label occurs twice (JHO2) any of its value sets is accepted",
    "the neutron's hard-coded covalent radius 0.20 has no table row and is not judged",
    "'no entry' may be served as None, missing attribute, missing key, NaN or an exception; only a finite number / "
    "a coefficient set counts as a neighbour's data",
    "form-factor values: |got - want| <= 1e-12 * sum(|terms|) (the sum of the absolute terms bounds the operands of "
    "the additions, so the bound is also the absolute floor where terms cancel) + 1e-300 (subnormal products of "
    "s^2 for Q < 1e-150 have no relative precision); j2/j4/j6 carry the factor s^2",
    "Q is handed over in every form of pbt/argforms.py (Python/numpy scalars, 0-d, list, tuple, ndarray 1-d / strided "
    "/ negative stride / C and Fortran 2-D / column / broadcast view, float64 / int64 / int32, read-only); all of them "
    "work on the unchanged tree for every function. float32 Q is left out: the library then computes in single "
    "precision (errors ~1e-7), which nothing documents either way",
    "ions of D and T are not asked for f0 (symbol 'D1+' is C05's matter, S24)",
]
EXHAUSTIVE = True
EXHAUSTIVE_NOTE = ("all 118 elements x 5 tables, all 98 magnetic charge states x orders, all 211 Cromer-Mann labels, "
                   "all element ions for f0, on the public and a private table; Q values are generated")

ABSENT = "<no attribute>"
TINY = 1e-300       # below this the products are subnormal doubles, which carry no relative precision
ORDERS = ["j0", "j2", "j4", "j6", "J"]
_E = {}


_ORDER = ["public-first"]


def env():
    """Oracle tables, library tables.  Order "public-first" (default): the public table touches every group,
    then the private table is initialised.  Order "private-first": the private table's groups are initialised
    in a process where the public table has not touched them yet (the public table must still serve its
    entries afterwards)."""
    if _E:
        return _E
    if _ORDER[0] == "private-first":
        return _env_private_first()
    import periodictable
    from periodictable import core, mass, density
    pkg = R.pkg_dir()
    _E["oracle"] = {"cordero": R.cordero(pkg), "crystal": R.crystal(pkg), "spectral": R.spectral(pkg),
                    "magnetic": R.magnetic(pkg), "cm": R.waaskirf(pkg)}
    pub = periodictable.elements
    # 1. the public table touches every group first
    for prop in ("covalent_radius", "crystal_structure", "K_alpha", "magnetic_ff", "xray"):
        getattr(pub.Fe, prop, None)
    # 2. only now the private table
    from periodictable import covalent_radius, crystal_structure, xsf, magnetic_ff
    T = subtable.new("c20-private")
    mass.init(T)
    density.init(T)
    covalent_radius.init(T)
    crystal_structure.init(T)
    xsf.init_spectral_lines(T)
    xsf.init(T)
    magnetic_ff.init(T)
    # 3. a private table that is an instance of a user subclass (pbt/subtable.py: iteration lists the chemical
    #    elements only, undefined attributes are looked up in the public table); lookups by number are untouched
    S = subtable.make("both", "c20-subclass")
    mass.init(S)
    density.init(S)
    crystal_structure.init(S)
    covalent_radius.init(S)
    magnetic_ff.init(S)
    xsf.init_spectral_lines(S)
    xsf.init(S)
    _E["tables"] = {"public": pub, "private": T, "subclass": S}
    return _E


def served(obj, name):
    try:
        return getattr(obj, name)
    except AttributeError:
        return ABSENT


def is_none(v):
    return v is None or v is ABSENT


def rel_close(x, y, rel):
    return x == y or abs(x - y) <= rel * max(abs(x), abs(y))


# ----------------------------------------------------------------------
# per element checks; each yields (bucket, message)
def check_radius(T, which, sym):
    el = T.symbol(sym)
    ent = env()["oracle"]["cordero"].get(sym)
    r, dr = served(el, "covalent_radius"), served(el, "covalent_radius_uncertainty")
    if ent is None:
        if not is_none(r):
            yield ("c20:radius:served-without-entry", "%s %s: covalent_radius %r but Cordero has no row" % (which, sym, r))
        if not is_none(dr):
            yield ("c20:radius-uncertainty:served-without-entry", "%s %s: uncertainty %r but no row" % (which, sym, dr))
        return
    want_r = float(ent[0])
    want_dr = float(Decimal(ent[1]) / 100) if ent[1] is not None else 0.0
    if is_none(r) or not isinstance(r, float) or r != want_r:
        yield ("c20:radius:value", "%s %s: covalent_radius %r, Cordero row says %s" % (which, sym, r, ent[0]))
    if is_none(dr) or not isinstance(dr, float) or not rel_close(dr, want_dr, 1e-12):
        yield ("c20:radius-uncertainty:value", "%s %s: uncertainty %r, Cordero row says %s x 0.01" % (which, sym, dr, ent[1]))
    # isotopes and ions of the element serve the element's entry
    for atom in _delegates(el):
        if served(atom, "covalent_radius") != r or served(atom, "covalent_radius_uncertainty") != dr:
            yield ("c20:radius:delegation", "%s %r serves %r, its element %r" % (which, atom, served(atom, "covalent_radius"), r))


def _delegates(el):
    out = []
    isos = el.isotopes
    if isos:
        out.append(el[isos[0]])
    if el.ions:
        out.append(el.ion[el.ions[-1]])
        if isos:
            out.append(el[isos[-1]].ion[el.ions[0]])
    return out


def check_crystal(T, which, sym):
    el = T.symbol(sym)
    slots = env()["oracle"]["crystal"]
    got = served(el, "crystal_structure")
    want = slots.get(sym)
    if want is None:
        if not is_none(got):
            yield ("c20:crystal:served-without-entry", "%s %s: crystal_structure %r but the list has %s for it"
                   % (which, sym, got, "None" if sym in slots else "no slot"))
        return
    if not isinstance(got, dict) or got != want or any(type(got[k]) is not type(want[k]) for k in want):
        yield ("c20:crystal:value", "%s %s: crystal_structure %r, the entry commented #%s is %r" % (which, sym, got, sym, want))
    for atom in _delegates(el):
        if served(atom, "crystal_structure") != got:
            yield ("c20:crystal:delegation", "%s %r serves %r" % (which, atom, served(atom, "crystal_structure")))


def check_lines(T, which, sym):
    el = T.symbol(sym)
    ent = env()["oracle"]["spectral"].get(sym)
    for k, name in enumerate(("K_alpha", "K_beta1")):
        got = served(el, name)
        if ent is None:
            if not is_none(got):
                yield ("c20:lines:served-without-entry", "%s %s: %s %r but no row" % (which, sym, name, got))
        elif is_none(got) or not isinstance(got, float) or got != float(ent[k]):
            yield ("c20:lines:value", "%s %s: %s %r, row says %s" % (which, sym, name, got, ent[k]))
        if ent is not None:
            for atom in _delegates(el):
                if served(atom, name) != got:
                    yield ("c20:lines:delegation", "%s %r serves %s %r" % (which, atom, name, served(atom, name)))


def check_magnetic(T, which, sym):
    el = T.symbol(sym)
    ent = env()["oracle"]["magnetic"].get(sym)
    got = served(el, "magnetic_ff")
    if ent is None:
        if not is_none(got) and got != {}:
            yield ("c20:magnetic:served-without-entry", "%s %s: magnetic_ff %r but CFML has no label for it" % (which, sym, got))
        return
    if not isinstance(got, dict):
        yield ("c20:magnetic:missing", "%s %s: magnetic_ff is %r, CFML has charges %r" % (which, sym, got, sorted(ent)))
        return
    if sorted(got) != sorted(ent):
        yield ("c20:magnetic:charges", "%s %s: charges %r, CFML has %r" % (which, sym, sorted(got), sorted(ent)))
    for c in sorted(ent):
        if c not in got:
            continue
        ff = got[c]
        for jn in ORDERS:
            v = served(ff, jn)
            wants = ent[c].get(jn)
            if wants is None:
                if not is_none(v):
                    yield ("c20:magnetic:order-without-entry", "%s %s charge %d: %s = %r but CFML has no such row"
                           % (which, sym, c, jn, v))
                continue
            try:
                tv = tuple(float(x) for x in v)
            except Exception:  # noqa
                tv = None
            if tv is None or tv not in wants:
                yield ("c20:magnetic:coefficients:" + jn, "%s %s charge %d: %s = %r, CFML row says %r"
                       % (which, sym, c, jn, v, wants[0]))
        if "j0" in ent[c]:
            m = served(ff, "M")
            if is_none(m) or tuple(m) != tuple(served(ff, "j0")):
                yield ("c20:magnetic:M", "%s %s charge %d: M %r is not j0" % (which, sym, c, m))
            for name in ("j0_Q", "M_Q"):
                at0 = float(getattr(ff, name)(0))
                if not abs(at0 - 1) <= 0.005:
                    yield ("c20:magnetic:j0-at-0", "%s %s charge %d: %s(0) = %r" % (which, sym, c, name, at0))
        for jn in ("j2", "j4", "j6"):
            if jn in ent[c] and not is_none(served(ff, jn)):
                at0 = float(getattr(ff, jn + "_Q")(0))
                if at0 != 0:
                    yield ("c20:magnetic:jn-at-0", "%s %s charge %d: %s_Q(0) = %r" % (which, sym, c, jn, at0))
        # the ion of that charge is served the same set
        if c in el.ions:
            for atom in (el.ion[c],) + ((el[el.isotopes[0]].ion[c],) if el.isotopes else ()):
                d = served(atom, "magnetic_ff")
                if not isinstance(d, dict) or d.get(atom.charge) is not ff:
                    yield ("c20:magnetic:ion", "%s %r.magnetic_ff[%d] is not the element's set" % (which, atom, c))


GROUPS = {"radius": check_radius, "crystal": check_crystal, "lines": check_lines, "magnetic": check_magnetic}


def _env_private_first():
    import periodictable
    from periodictable import core, mass, density
    from periodictable import covalent_radius, crystal_structure, xsf, magnetic_ff
    pkg = R.pkg_dir()
    _E["oracle"] = {"cordero": R.cordero(pkg), "crystal": R.crystal(pkg), "spectral": R.spectral(pkg),
                    "magnetic": R.magnetic(pkg), "cm": R.waaskirf(pkg)}
    T = subtable.new("c20-private")
    mass.init(T)
    density.init(T)
    magnetic_ff.init(T)
    xsf.init(T)
    xsf.init_spectral_lines(T)
    crystal_structure.init(T)
    covalent_radius.init(T)
    _E["tables"] = {"public": periodictable.elements, "private": T}
    return _E


def task_tables(ctx, which, order="public-first", reinit=0):
    _ORDER[0] = order
    E = env()
    T = E["tables"]["private" if which == "fresh" else which]
    if reinit:
        # the same table initialised again and again with the documented reload=True (a long-running service that
        # refreshes its private table): the 150th initialisation serves what the first one served
        from periodictable import covalent_radius, crystal_structure, xsf, magnetic_ff
        for _ in range(reinit):
            covalent_radius.init(T, reload=True)
            crystal_structure.init(T, reload=True)
            magnetic_ff.init(T, reload=True)
        ctx.count("reinitialised-%d-times" % reinit)
        if which == "fresh":
            # ... and a table created only now, after all those initialisations, is served like the first one
            from periodictable import mass, density
            T = subtable.new("c20-fresh-after-reloads")
            mass.init(T)
            density.init(T)
            covalent_radius.init(T)
            crystal_structure.init(T)
            xsf.init_spectral_lines(T)
            xsf.init(T)
            magnetic_ff.init(T)
    ctx.extra["entries"] = dict((k, len(v)) for k, v in E["oracle"].items())
    ctx.extra["magnetic-charge-states"] = sum(len(v) for v in E["oracle"]["magnetic"].values())
    for Z in range(0, 119):
        sym = R.SYMBOLS[Z]
        for g, fn in sorted(GROUPS.items()):
            if Z == 0 and g == "radius":
                continue        # hard-coded 0.20 for the neutron: no table row, not judged
            ora = E["oracle"][{"radius": "cordero", "crystal": "crystal", "lines": "spectral", "magnetic": "magnetic"}[g]]
            has = ora.get(sym) is not None
            ctx.case((which, order, g, sym), True, {"table": which, "order": order, "group": g, "element": sym},
                     ["%s:%s" % (g, "entry" if has else "no-entry"), "table:" + which, "order:" + order])
            case = {"kind": "element", "table": which, "group": g, "element": sym, "order": order}
            try:
                for b, m in fn(T, which, sym):
                    ctx.violation(b, m, case)
            except Violation:
                raise
            except Exception as e:  # noqa
                from ..runner import lib_frame
                fr = lib_frame(e.__traceback__)
                if fr is None:
                    raise
                ctx.violation("exc:%s:%s" % (type(e).__name__, fr), "%s %s %s: %s: %s" % (which, g, sym, type(e).__name__, e), case)


# ----------------------------------------------------------------------
# Cromer-Mann
def cm_value(ent, Q):
    """(value, scale) of c + sum a_i exp(-b_i (Q/4pi)^2)."""
    s2 = (Q / (4 * math.pi)) ** 2
    terms = [a * math.exp(-b * s2) for a, b in zip(ent["a"], ent["b"])] + [ent["c"]]
    return math.fsum(terms), math.fsum(abs(t) for t in terms)


def check_cm_label(label):
    """Coefficients served for one label of the file."""
    from periodictable import cromermann
    ent = env()["oracle"]["cm"][label]
    try:
        f = cromermann.getCMformula(label)
    except KeyError:
        yield ("c20:cm:label-missing", "getCMformula(%r) raises KeyError, the file has an entry '#S %d %s'" % (label, ent["Z"], label))
        return
    if f.symbol != label:
        yield ("c20:cm:symbol", "getCMformula(%r).symbol is %r" % (label, f.symbol))
    a, b = [float(x) for x in f.a], [float(x) for x in f.b]
    if a != ent["a"]:
        yield ("c20:cm:a", "getCMformula(%r).a = %r, file row (columns a1..a5) says %r" % (label, a, ent["a"]))
    if b != ent["b"]:
        yield ("c20:cm:b", "getCMformula(%r).b = %r, file row (columns b1..b5) says %r" % (label, b, ent["b"]))
    if float(f.c) != ent["c"]:
        yield ("c20:cm:c", "getCMformula(%r).c = %r, file row (column c) says %r" % (label, f.c, ent["c"]))


def _finite_number(v):
    try:
        v = float(v)
    except Exception:  # noqa
        return False
    return v == v and abs(v) != float("inf")


def check_cm_atom(T, which, sym, charge, Q=1.25):
    """f0 of an element or ion through .xray.f0: its own entry, or nothing."""
    el = T.symbol(sym)
    atom = el.ion[charge] if charge else el
    label = R.cm_label(sym, charge)
    ent = env()["oracle"]["cm"].get(label)
    try:
        got = atom.xray.f0(Q)
    except Exception as e:  # noqa
        got = e
    if ent is None:
        if _finite_number(got):
            yield ("c20:cm:f0-without-entry", "%s %r.xray.f0(%r) = %r but the file has no entry %r" % (which, atom, Q, got, label))
        return
    want, scale = cm_value(ent, Q)
    if isinstance(got, Exception) or not _finite_number(got) or abs(float(got) - want) > 1e-12 * scale:
        yield ("c20:cm:f0-value", "%s %r.xray.f0(%r) = %r, entry %r gives %r" % (which, atom, Q, got, label, want))
    # an isotope (ion) scatters x-rays like its element (ion)
    if el.isotopes:
        iso = el[el.isotopes[0]]
        other = iso.ion[charge] if charge else iso
        try:
            g2 = other.xray.f0(Q)
        except Exception as e:  # noqa
            g2 = e
        if isinstance(g2, Exception) or not _finite_number(g2) or abs(float(g2) - want) > 1e-12 * scale:
            yield ("c20:cm:f0-isotope", "%s %r.xray.f0(%r) = %r, entry %r gives %r" % (which, other, Q, g2, label, want))


def check_cm_spellings(label, Q=1.25):
    """fxrayatq resolves 'Na+' to Na1+, and an explicit charge overrides any suffix."""
    import re
    from periodictable import cromermann
    cm = env()["oracle"]["cm"]
    m = re.match(r"^([A-Z][a-z]?)(?:(\d)([+-]))?$", label)
    if not m:
        return          # Cval, Siva: no element/charge spelling
    sym = m.group(1)
    charge = int(m.group(3) + m.group(2)) if m.group(2) else 0
    want, scale = cm_value(cm[label], Q)
    calls = [("fxrayatq(%r, Q, charge=%d)" % (sym, charge), lambda: cromermann.fxrayatq(sym, Q, charge=charge))]
    if abs(charge) == 1:
        short = sym + m.group(3)
        calls.append(("fxrayatq(%r, Q)" % short, lambda: cromermann.fxrayatq(short, Q)))
    for other in sorted(cm):
        if other != label and re.match(r"^%s(\d[+-])?$" % sym, other):
            calls.append(("fxrayatq(%r, Q, charge=%d)" % (other, charge),
                          lambda other=other: cromermann.fxrayatq(other, Q, charge=charge)))
    for desc, thunk in calls:
        try:
            got = thunk()
        except Exception as e:  # noqa
            got = e
        if isinstance(got, Exception) or not _finite_number(got) or abs(float(got) - want) > 1e-12 * scale:
            yield ("c20:cm:spelling", "%s = %r, entry %r gives %r" % (desc, got, label, want))


def task_cm(ctx):
    from periodictable import cromermann
    E = env()
    cm = E["oracle"]["cm"]
    for label in sorted(cm):
        ctx.case(("cm", label), True, {"cromer-mann": label}, ["cm:label"])
        case = {"kind": "cm-label", "label": label}
        for b, m in check_cm_label(label):
            ctx.violation(b, m, case)
        for b, m in check_cm_spellings(label):
            ctx.violation(b, m, {"kind": "cm-spelling", "label": label})
    # labels that are not in the file must not be served
    for Z in range(0, 119):
        sym = R.SYMBOLS[Z]
        for c in range(-4, 9):
            for label in sorted(set([R.cm_label(sym, c), sym + ("%+d" % c if c else ""), sym.lower(), sym.upper()])):
                if label in cm:
                    continue
                ctx.case(("cm-missing", label), True, {"cromer-mann-missing": label}, ["cm:missing-label"])
                try:
                    f = cromermann.getCMformula(label)
                except Exception:  # noqa
                    continue
                if f is not None:
                    ctx.violation("c20:cm:label-without-entry", "getCMformula(%r) returned the set of %r" % (label, f.symbol),
                                  {"kind": "cm-missing", "label": label})
    for which in ("public", "private"):
        T = E["tables"][which]
        for Z in range(1, 119):
            sym = R.SYMBOLS[Z]
            for c in (0,) + tuple(T[Z].ions):
                has = R.cm_label(sym, c) in cm
                ctx.case(("f0", which, sym, c), True, {"table": which, "f0": R.cm_label(sym, c)},
                         ["f0:%s:%s" % ("ion" if c else "element", "entry" if has else "no-entry"), "table:" + which])
                case = {"kind": "f0", "table": which, "element": sym, "charge": c, "Q": 1.25}
                for b, m in check_cm_atom(T, which, sym, c):
                    ctx.violation(b, m, case)


# ----------------------------------------------------------------------
# generated Q
def mff_value(coef, jn, Q):
    A, a, B, b, C, c, D = coef
    s2 = (Q / (4 * math.pi)) ** 2
    terms = [A * math.exp(-a * s2), B * math.exp(-b * s2), C * math.exp(-c * s2), D]
    if jn in ("j2", "j4", "j6"):
        terms = [s2 * t for t in terms]
    return math.fsum(terms), math.fsum(abs(t) for t in terms)


LEGACY_FORMS = {"list": ["list"], "ndarray": ["nd", "1d", "float64", False]}


def _form(how, values):
    """Argument form for *values*: legacy names, and integer dtypes only when the values are integral."""
    form = LEGACY_FORMS.get(how, how) if isinstance(how, str) else list(how)
    if len(form) > 1 and str(form[-1 if form[0] != "nd" else 2]).startswith("int") and not AF.integral_ok(values):
        form = list(form)
        form[-1 if form[0] != "nd" else 2] = "float64" if form[0] != "py" else "float"
    if form[0] in ("py", "np", "0d") and len(values) != 1:
        form = ["list"]
    return form


def form_label(how):
    if isinstance(how, str):
        return how
    return ":".join(str(x) for x in how[:3]) + (":ro" if how[0] == "nd" and how[3] else "")


def _guarded(fn, arg, form, desc, case, name="Q"):
    """fn(arg) with the argument guarded: it must come back unchanged, and a write attempt into a read-only
    argument (which numpy refuses loudly) is the same defect."""
    try:
        with unchanged("c20", case, **{name: arg}):
            return fn(arg)
    except ValueError as e:
        if form[0] == "nd" and form[3] and "read-only" in str(e):
            raise Violation("c20:argument-modified:" + name,
                            "%s tried to write into its read-only argument: %s" % (desc, e), case)
        raise


def _call(fn, qs, how, case=None, desc="call"):
    """Call fn with the Q values in the given argument form (pbt/argforms.py; "scalar" = one Python float per
    call); returns the results as a flat list in the order of qs.  The result must have the shape of the
    argument, and the argument must come back unchanged."""
    import numpy
    if how == "scalar":
        out = []
        for q in qs:
            v = fn(q)
            if numpy.shape(v) != ():
                raise Violation("c20:formula:shape", "%s: scalar Q gave a result of shape %r" % (desc, numpy.shape(v)), case)
            out.append(float(v))
        return out
    form = _form(how, qs)
    arg, shape = AF.build(qs, form)
    v = _guarded(fn, arg, form, desc, case)
    try:
        return [float(x) for x in AF.flat(v, shape)]
    except ValueError as e:
        raise Violation("c20:formula:shape", "%s with Q as %s: %s" % (desc, form_label(form), e), case)


def _atom_of_label(T, label):
    """Element or ion of table T that the Waasmaier-Kirfel label names, or None."""
    import re
    m = re.match(r"^([A-Z][a-z]?)(?:(\d)([+-]))?$", label)
    if not m:
        return None
    el = T.symbol(m.group(1))
    if not m.group(2):
        return el
    c = int(m.group(3) + m.group(2))
    return el.ion[c] if c in el.ions else None


def check_reuse(ctx, value):
    """One Q grid object (ndarray or list) handed to many form-factor calls in a row: every result must be the
    documented expression at the INTENDED Q values, and the grid must come back unchanged."""
    import numpy
    from periodictable import cromermann
    kind, idx, jsel, qs, how, which = value
    E = env()
    T = E["tables"][which]
    case = {"kind": "q", "value": value}
    if how == "scalar":
        how = "ndarray"
    qform = _form(how, qs)
    Q, shape = AF.build(qs, qform)
    S = [q / (4 * math.pi) for q in qs]
    sform = _form(how, S)
    stol, sshape = AF.build(S, sform)
    states = sorted((sy, c) for sy, v in E["oracle"]["magnetic"].items() for c in v)
    labels = sorted(E["oracle"]["cm"])
    two_states = [states[idx % len(states)], states[(idx // 97 + 7 * jsel + 1) % len(states)]]
    two_labels = [labels[idx % len(labels)], labels[(idx // 89 + 13 * jsel + 1) % len(labels)]]
    calls = []      # (description, thunk(grid), grid, wants, bucket)
    for sym, c in two_states:
        ent = E["oracle"]["magnetic"][sym][c]
        ff = T.symbol(sym).magnetic_ff[c]
        for jn in ORDERS + ["M"]:
            base = "j0" if jn == "M" else jn
            if base not in ent:
                continue
            calls.append(("%s %s.magnetic_ff[%d].%s_Q" % (which, sym, c, jn), getattr(ff, jn + "_Q"), "Q",
                          [mff_value(ent[base][-1], base, q) for q in qs], "c20:formula:reuse:magnetic"))
    for label in two_labels:
        ent = E["oracle"]["cm"][label]
        wants = [cm_value(ent, q) for q in qs]
        atom = _atom_of_label(T, label)
        if atom is not None:
            calls.append(("%s %r.xray.f0" % (which, atom), atom.xray.f0, "Q", wants, "c20:formula:reuse:cm"))
        calls.append(("fxrayatq(%r, Q)" % label, (lambda g, label=label: cromermann.fxrayatq(label, g)), "Q", wants,
                      "c20:formula:reuse:cm"))
        calls.append(("fxrayatstol(%r, Q/4pi)" % label, (lambda g, label=label: cromermann.fxrayatstol(label, g)), "stol",
                      wants, "c20:formula:reuse:cm"))
    if jsel % 2:
        calls.reverse()
    grids = {"Q": (Q, shape, qform, qs), "stol": (stol, sshape, sform, S)}
    ctx.case(repr(value), nontrivial=any(q > 0 for q in qs),
             sample={"reuse": [c[0] for c in calls], "Q": qs, "form": form_label(qform)},
             cls=["q:reuse", "form:" + form_label(qform), "reuse-calls:%d" % min(len(calls), 18), "table:" + which])
    for n, (desc, fn, gname, wants, bucket) in enumerate(calls):
        grid, gshape, gform, _vals = grids[gname]
        try:
            res = fn(grid)
        except ValueError as e:
            if gform[0] == "nd" and gform[3] and "read-only" in str(e):
                raise Violation("c20:argument-modified:" + gname,
                                "%s tried to write into its read-only argument: %s" % (desc, e), case)
            raise
        try:
            got = AF.flat(res, gshape)
        except ValueError as e:
            raise Violation("c20:formula:shape", "%s with %s as %s: %s" % (desc, gname, form_label(gform), e), case)
        for q, g, (w, scale) in zip(qs, got, wants):
            g = float(g)
            if not (g == g) or abs(g - w) > 1e-12 * scale + TINY:
                raise Violation(bucket, "%s(%r) = %r as call #%d on one %s grid, the documented expression gives %r"
                                % (desc, q, g, n + 1, form_label(gform), w), case)
    for gname, (grid, gshape, gform, vals) in sorted(grids.items()):
        fresh = AF.build(vals, gform)[0]
        if not same_value(fresh, grid):
            raise Violation("c20:argument-modified:" + gname,
                            "after %d calls the caller's %s (%s) is %r, it was %r"
                            % (len(calls), gname, form_label(gform), grid, fresh), case)


def check_q(ctx, value):
    kind, idx, jsel, qs, how, which = value
    if kind == "reuse":
        return check_reuse(ctx, value)
    E = env()
    T = E["tables"][which]
    case = {"kind": "q", "value": value}
    if kind == "magnetic":
        states = sorted((s, c) for s, v in E["oracle"]["magnetic"].items() for c in v)
        sym, c = states[idx % len(states)]
        ent = E["oracle"]["magnetic"][sym][c]
        orders = [j for j in ORDERS + ["M"] if (j if j != "M" else "j0") in ent]
        jn = orders[jsel % len(orders)]
        coef = ent["j0" if jn == "M" else jn][-1]
        ff = T.symbol(sym).magnetic_ff[c]
        desc = "%s %s.magnetic_ff[%d].%s_Q" % (which, sym, c, jn)
        got = _call(getattr(ff, jn + "_Q"), qs, how, case, desc)
        wants = [mff_value(coef, "j0" if jn == "M" else jn, q) for q in qs]
        bucket = "c20:formula:magnetic:" + ("j0" if jn in ("j0", "M", "J") else "jn")
        cls = ["q:magnetic:" + jn]
    else:
        labels = sorted(E["oracle"]["cm"])
        label = labels[idx % len(labels)]
        ent = E["oracle"]["cm"][label]
        wants = [cm_value(ent, q) for q in qs]
        bucket = "c20:formula:cm"
        m = __import__("re").match(r"^([A-Z][a-z]?)(?:(\d)([+-]))?$", label)
        if kind == "f0" and m and (not m.group(2) or
                                   int(m.group(3) + m.group(2)) in T.symbol(m.group(1)).ions):
            el = T.symbol(m.group(1))
            atom = el.ion[int(m.group(3) + m.group(2))] if m.group(2) else el
            desc = "%s %r.xray.f0" % (which, atom)
            got = _call(atom.xray.f0, qs, how, case, desc)
            cls = ["q:f0:" + ("ion" if m.group(2) else "element")]
        else:
            from periodictable import cromermann
            if jsel % 3 == 2:
                # sin(theta)/lambda entry point; the reference stays a function of the intended Q
                ss = [q / (4 * math.pi) for q in qs]
                wants = [cm_value(ent, 4 * math.pi * x) for x in ss]
                desc = "fxrayatstol(%r, s) at s=Q/4pi, Q" % label
                got = _call(lambda x: cromermann.fxrayatstol(label, x), ss, how, case, desc)
                cls = ["q:fxrayatstol"]
            else:
                desc = "fxrayatq(%r, Q)" % label
                got = _call(lambda q: cromermann.fxrayatq(label, q), qs, how, case, desc)
                cls = ["q:fxrayatq"]
    cls += ["form:" + form_label(how if how == "scalar" else _form(how, qs)), "table:" + which]
    ctx.case(repr(value), nontrivial=any(q > 0 for q in qs), sample={"call": desc, "Q": qs, "form": form_label(how)}, cls=cls)
    for q, g, (w, scale) in zip(qs, got, wants):
        if not (g == g) or abs(g - w) > 1e-12 * scale + TINY:
            raise Violation(bucket, "%s(%r) = %r, the documented expression gives %r" % (desc, q, g, w), case)


_STRATS = {}


def _how_strategy(single, integral):
    """Argument-form strategy (built once per kind of value list)."""
    key = (single, integral)
    if key not in _STRATS:
        n = 1 if single else 2
        nd = st.tuples(st.just("nd"), st.sampled_from(AF.LAYOUTS),
                       st.sampled_from(["float64", "float64", "int64", "int32"] if integral else ["float64"]),
                       st.booleans()).map(list)
        _STRATS[key] = st.one_of(st.just("scalar"), AF.forms(n, integral=integral), AF.forms(n, integral=integral), nd)
    return _STRATS[key]


def _qs_strategy():
    if "qs" not in _STRATS:
        q = st.one_of(st.floats(0, 30), st.floats(0, 30), st.floats(0, 1), st.integers(0, 30).map(float),
                      st.sampled_from([0.0, 30.0, 4 * math.pi]))
        _STRATS["qs"] = st.one_of(
            st.lists(q, min_size=1, max_size=6),
            st.lists(q, min_size=2, max_size=3).map(lambda v: v + v[::-1]),        # even length: true 2-D layouts
            st.lists(st.integers(0, 30).map(float), min_size=1, max_size=6),       # integer dtypes apply
            st.tuples(q, st.integers(2, 6)).map(lambda t: [t[0]] * t[1]))          # broadcast views apply
        _STRATS["head"] = st.tuples(st.sampled_from(["magnetic", "magnetic", "cm", "f0", "reuse"]),
                                    st.integers(0, 10**4), st.integers(0, 11), st.sampled_from(["public", "private"]))
    return _STRATS["qs"]


@st.composite
def q_strategy(draw):
    qs = draw(_qs_strategy())
    kind, idx, jsel, which = draw(_STRATS["head"])
    how = draw(_how_strategy(len(qs) == 1, AF.integral_ok(qs)))
    return [kind, idx, jsel, qs, how, which]


def task_q(ctx, n):
    env()
    ctx.search("q", q_strategy(), check_q, n)


# ----------------------------------------------------------------------
# size as a dimension of the argument: a handful of very large Q grids
LARGE_SHAPES = [[2 ** 18], [2 ** 18 + 1], [300000], [600, 600], [2 ** 20], [3, 100001]]
# (symbol, isotope or 0, charge): ions, isotope ions, neutral atoms, and ions WITHOUT a Waasmaier-Kirfel entry
LARGE_ATOMS = [["Fe", 0, 2], ["Fe", 56, 3], ["O", 0, -2], ["O", 18, -2], ["Cl", 0, -1], ["U", 238, 4], ["Fe", 0, 0],
               ["Si", 0, 0], ["Fe", 0, 5], ["Na", 0, -1], ["Fe", 54, 4]]
LARGE_MAGNETIC = [["Fe", 2, "j0"], ["Fe", 2, "j2"], ["Nd", 3, "j6"], ["Ho", 2, "J"]]
LARGE_LABELS = ["Fe2+", "O2-", "Cval"]


def check_large(ctx, case):
    """One library call on one very large grid; judged at a strided subsample plus the first and last points."""
    import numpy
    from periodictable import cromermann
    E = env()
    T = E["tables"][case["table"]]
    shape = tuple(case["shape"])
    n = 1
    for d in shape:
        n *= d
    Q = numpy.linspace(0.0, 30.0, n).reshape(shape)
    if case.get("order") == "F" and len(shape) > 1:
        Q = numpy.asfortranarray(Q)
    idx = sorted(set([0, 1, n - 2, n - 1, 2 ** 18 - 1, 2 ** 18, 2 ** 18 + 1] + list(range(0, n, max(1, n // 61)))))
    idx = [i for i in idx if 0 <= i < n]
    route = case["route"]
    expect_entry = True
    if route == "f0":
        sym, iso, charge = case["atom"]
        el = T.symbol(sym)
        atom = el[iso] if iso else el
        atom = atom.ion[charge] if charge else atom
        label = R.cm_label(sym, charge)
        ent = E["oracle"]["cm"].get(label)
        expect_entry = ent is not None
        fn, desc = atom.xray.f0, "%s %r.xray.f0" % (case["table"], atom)
        ref = (lambda q: cm_value(ent, q)) if ent else None
        bucket = "c20:large-grid:f0"
    elif route == "fxrayatq":
        label = case["label"]
        ent = E["oracle"]["cm"][label]
        fn, desc = (lambda q: cromermann.fxrayatq(label, q)), "fxrayatq(%r, Q)" % label
        ref = lambda q: cm_value(ent, q)
        bucket = "c20:large-grid:cm"
    else:
        sym, c, jn = case["magnetic"]
        coef = E["oracle"]["magnetic"][sym][c][jn][-1]
        ff = T.symbol(sym).magnetic_ff[c]
        fn, desc = getattr(ff, jn + "_Q"), "%s %s.magnetic_ff[%d].%s_Q" % (case["table"], sym, c, jn)
        ref = lambda q: mff_value(coef, jn, q)
        bucket = "c20:large-grid:magnetic"
    ctx.case(repr(sorted(case.items())), True, {"call": desc, "grid": list(shape), "entry": expect_entry},
             ["large:" + route + (":no-entry" if not expect_entry else ""), "large-shape:" + "x".join(str(d) for d in shape),
              "table:" + case["table"]])
    flatQ = Q.reshape(-1) if Q.flags.c_contiguous else Q.flatten()
    first, last, total = float(flatQ[0]), float(flatQ[-1]), float(Q.sum())
    try:
        res = fn(Q)
    except Exception as e:  # noqa
        if not expect_entry:
            return          # no entry: refused
        raise
    if Q.shape != shape or float(Q.reshape(-1)[0] if Q.flags.c_contiguous else Q.flatten()[0]) != first or \
            float(Q.sum()) != total or float(Q.flatten()[-1]) != last:
        raise Violation("c20:argument-modified:Q", "%s changed its %s-point argument" % (desc, n), case)
    res = numpy.asarray(res)
    if res.shape != shape:
        raise Violation("c20:formula:shape", "%s on a grid of shape %r gave shape %r" % (desc, shape, res.shape), case)
    rflat, qflat = res.flatten(), Q.flatten()
    for i in idx:
        g, q = float(rflat[i]), float(qflat[i])
        if not expect_entry:
            if g == g and abs(g) != float("inf"):
                raise Violation("c20:large-grid:f0-without-entry",
                                "%s on %d points returns %r at Q=%r but the file has no entry %r" % (desc, n, g, q, label), case)
            continue
        w, scale = ref(q)
        if not (g == g) or abs(g - w) > 1e-12 * scale + TINY:
            raise Violation(bucket, "%s on %d points: value at index %d (Q=%r) is %r, the documented expression gives %r"
                            % (desc, n, i, q, g, w), case)


def large_cases(tier):
    out = []
    k = 0
    for wi, which in enumerate(("public", "private")):
        for ai, atom in enumerate(LARGE_ATOMS):
            always = [[2 ** 18 + 1], [600, 600]]
            others = [s for s in LARGE_SHAPES if s not in always]
            shapes = LARGE_SHAPES if tier != "quick" else always + [others[(ai + wi) % len(others)]]
            for shape in shapes:
                k += 1
                out.append({"kind": "large", "route": "f0", "table": which, "atom": atom, "shape": shape,
                            "order": "F" if k % 2 else "C"})
        for mg in LARGE_MAGNETIC:
            for shape in ([2 ** 18 + 1], [600, 600]):
                out.append({"kind": "large", "route": "magnetic", "table": which, "magnetic": mg, "shape": shape, "order": "C"})
    for label in LARGE_LABELS:
        for shape in ([2 ** 18 + 1], [600, 600]):
            out.append({"kind": "large", "route": "fxrayatq", "table": "public", "label": label, "shape": shape, "order": "F"})
    return out


def task_large(ctx, part, parts):
    env()
    for n, case in enumerate(large_cases(ctx.tier)):
        if n % parts == part:
            ctx.check(check_large, case)


# ----------------------------------------------------------------------
# Q given as an ndarray SUBCLASS (numpy.matrix, a masked array without masked entries, a user subclass that redefines
# nothing): the form factors are evaluated element by element, exactly as for the plain array of the same numbers
def check_subclass_q(ctx, case):
    import warnings
    import numpy as np
    import periodictable as pt
    sym, charge, name, kind = case["symbol"], case["charge"], case["fn"], case["q"]
    ctx.case(("q-subclass", sym, charge, name, kind), nontrivial=True, sample=case, cls=["q-subclass:" + kind])
    base = np.array([[0.0, 0.7, 1.9], [3.1, 6.0, 11.5], [0.05, 2.2, 25.0]])

    class Tagged(np.ndarray):
        pass
    with warnings.catch_warnings():
        warnings.simplefilter("ignore")
        q = {"matrix": lambda: np.matrix(base), "masked": lambda: np.ma.masked_array(base, mask=False),
             "user-subclass": lambda: base.view(Tagged), "row-matrix": lambda: np.matrix(base[:1])}[kind]()
        plain = np.asarray(q, dtype=float).copy()
        if name == "f0":
            atom = pt.elements.symbol(sym)
            atom = atom.ion[charge] if charge else atom
            fn = atom.xray.f0
        else:
            fn = getattr(pt.elements.symbol(sym).magnetic_ff[charge], name)
        try:
            want = np.asarray(fn(plain), dtype=float)
        except KeyError:
            ctx.count("q-subclass:no-coefficient-set")
            return
        try:
            got = np.asarray(fn(q), dtype=float)
        except Exception as e:  # noqa
            raise Violation("c20:q-subclass:raises", "%s %+d %s(Q) with Q a %s raised %s: %s; the plain array works"
                            % (sym, charge, name, kind, type(e).__name__, str(e)[:100]), case)
    if got.shape != want.shape or not np.allclose(got, want, rtol=1e-13, atol=0, equal_nan=True):
        raise Violation("c20:q-subclass:value", "%s %+d %s(Q) with Q a %s gives %r, with the plain array of the same numbers %r"
                        % (sym, charge, name, kind, got.tolist(), want.tolist()), case)


def task_subclass_q(ctx):
    for sym, charge in (("Fe", 2), ("Mn", 3), ("Ce", 3), ("O", 1)):
        for name in ("j0_Q", "j2_Q", "j4_Q", "M_Q", "f0"):
            for kind in ("matrix", "masked", "user-subclass", "row-matrix"):
                if name != "f0":
                    import periodictable as pt
                    ff = pt.elements.symbol(sym).magnetic_ff.get(charge)
                    if ff is None or not hasattr(ff, name[:-2] if name != "M_Q" else "M"):
                        continue
                ctx.check(check_subclass_q, {"kind": "q-subclass", "symbol": sym, "charge": charge, "fn": name, "q": kind})


def tasks(tier):
    out = [("q-array-subclasses", task_subclass_q, {}),
           ("tables-public", task_tables, dict(which="public")),
           ("tables-private", task_tables, dict(which="private")),
           ("tables-subclass", task_tables, dict(which="subclass")),
           ("tables-private-after-150-reloads", task_tables, dict(which="private", reinit=150)),
           ("tables-fresh-table-after-150-reloads", task_tables, dict(which="fresh", reinit=150)),
           ("tables-public-after-private-init", task_tables, dict(which="public", order="private-first")),
           ("tables-private-initialised-first", task_tables, dict(which="private", order="private-first")),
           ("cromer-mann", task_cm, {})]
    out += [("large-grids-%d" % k, task_large, dict(part=k, parts=3)) for k in range(3)]
    if tier == "quick":
        out += [("q-%d" % k, task_q, dict(n=3500)) for k in range(5)]
    else:
        out += [("q-%d" % k, task_q, dict(n=45000)) for k in range(13)]
    return out


def replay(ctx, case):
    _ORDER[0] = case.get("order", "public-first")
    E = env()
    kind = case["kind"]
    if kind == "q-subclass":
        return check_subclass_q(ctx, case)
    if kind == "element":
        for b, m in GROUPS[case["group"]](E["tables"][case["table"]], case["table"], case["element"]):
            ctx.violation(b, m, case)
    elif kind == "cm-label":
        for b, m in check_cm_label(case["label"]):
            ctx.violation(b, m, case)
    elif kind == "cm-spelling":
        for b, m in check_cm_spellings(case["label"]):
            ctx.violation(b, m, case)
    elif kind == "cm-missing":
        from periodictable import cromermann
        try:
            f = cromermann.getCMformula(case["label"])
        except Exception:  # noqa
            return
        if f is not None:
            ctx.violation("c20:cm:label-without-entry", "getCMformula(%r) returned %r" % (case["label"], f.symbol), case)
    elif kind == "f0":
        for b, m in check_cm_atom(E["tables"][case["table"]], case["table"], case["element"], case["charge"], case.get("Q", 1.25)):
            ctx.violation(b, m, case)
    elif kind == "q":
        check_q(ctx, case["value"])
    elif kind == "large":
        check_large(ctx, case)
    else:
        raise ValueError("unknown case kind %r" % kind)
