"""
C02 - composition arithmetic is additive.

A case is a history: a list of constructor and operator steps over formula
variables (pbt/fops_c02.py).  The history is interpreted twice, against the
library and against a model {(Z, A, charge): Fraction}; after every step the
variable the step created or changed must agree with the model in atoms, mass,
charge, mass fractions and molecular mass, and every other variable (and every
constructor argument) must be exactly what it was before the step.
"""
import json
from fractions import Fraction

from ..runner import Violation
from .. import fops_c02 as ops
from ..atoms import atom_key, key_to_atom

PROPERTY = "C02"
RULE = ("case = a history of <= 30 steps over named variables drawn by Hypothesis as a JSON list of operations "
        "(constructors: formula(str rendered from a derivation tree), formula(atom), formula({atom: n}), "
        "formula(nested [(n, fragment)] lists/tuples), formula(Formula); operators v=f+g, v=n*f with n in "
        "{0, 1, integers, decimals and floats in [1e-6, 1e6]}, f+=g; operands chosen by index, f+f, f+=f included; "
        "constructors also with the atoms of a private table (formula(str, table=T), T's atoms), f.change_table(T) "
        "and back, 'again' = an earlier constructor once more; counts written as zero ('0.', '0.0', '.0', '.00') in "
        "any position of a string; the empty formula made by formula(''), formula(), formula(None), Formula(), "
        "formula([]), formula({}) with name/density keywords, as operand and as receiver of +=; counts and "
        "multipliers also as fractions.Fraction (a result into which only ints and Fractions went must be exactly "
        "the model, whatever its type); 'retable' = the masses of every element and isotope of the private table "
        "are rescaled (el._mass = ..., restored after the case) and every variable living on it is re-read; the "
        "dicts returned by .atoms and .mass_fraction are cleared by the reader and read again (intact, new "
        "object); structure is made of tuples). "
        "Oracle: a Fraction model per variable updated by the algebra; after every step the new/changed variable "
        "(and, again, each operand of the step) has atoms == model (exact where the library's count is an int, rel 1e-12 otherwise; an atom with count 0 counts as absent), "
        "mass == sum n*(m(base atom) - charge*electron_mass) (rel 1e-12), charge == sum n*charge "
        "(abs 1e-12*sum|n*charge|), mass_fraction[a] == n*m/mass (rel 1e-12) with sum 1 (abs 1e-12) when mass > 0, "
        "molecular_mass == mass/N_A, f.hill.atoms == model, str(f) stable; a snapshot (structure by atom identity, density, name) of every variable and "
        "of every dict/sequence passed to a constructor is compared after the step: only the left operand of += "
        "may differ. All variables are re-checked at the end. non-trivial = the history has n*f with n not in {0,1} "
        "on a formula of more than one fragment AND a += on a variable that was an operand of an earlier + or *; "
        "distinct by the operation list.")
ASSUMPTIONS = [
    "a variable lives on one table (public, or a private table with a few customised masses): its atoms must be that "
    "table's objects and its mass uses that table's masses; change_table keeps composition keyed by (Z, A, charge); "
    "+ and += of variables living on different tables are not generated",
    "atomic masses are read from the table (element.mass, isotope.mass: checked by C06) and the electron mass and "
    "Avogadro number from periodictable.constants; an ion's mass is recomputed from its base atom, not Ion.mass",
    "operations that would exceed 250 structure leaves or push a count outside [1e-30, 1e30] are skipped "
    "(floating point overflow is not part of the property)",
    "bystander variables (neither result nor operand of a step) whose structure, density and name are unchanged "
    "are not re-evaluated after that step; all variables are evaluated at the end of the history",
    "f += g is only required to give f the atoms of old f plus g; identity of the object and the nesting are not judged",
]

REL = 1e-12


def close(x, y, rel=REL):
    return x == y or abs(x - y) <= rel * max(abs(x), abs(y))


def freeze(structure):
    out = []
    for count, frag in structure:
        if isinstance(frag, (list, tuple)):
            out.append((count, freeze(frag)))
        else:
            out.append((count, id(frag)))
    return tuple(out)


def snap(f):
    return (freeze(f.structure), f.density, f.name)


def base_mass(table, key):
    z, a, c = key
    el = table[z]
    return el[a].mass if a else el.mass


def check_var(var, case, where):
    """Compare one variable with its model."""
    E = ops.env()
    table = E["tables"][var.table]      # the table the variable lives on: its atoms, its masses
    f, comp = var.f, var.comp
    atoms = f.atoms
    got = {}
    for atom, n in atoms.items():
        k = atom_key(atom)
        if k in got:
            raise Violation("c02:atoms:identity", "%s: two atom objects for %r in .atoms" % (where, k), case)
        if atom is not key_to_atom(table, k):
            raise Violation("c02:atoms:identity", "%s: atom %r is not the object of the %s table"
                            % (where, atom, var.table), case)
        got[k] = n
    for k in sorted(set(got) | set(comp)):
        g, w = got.get(k, 0), comp.get(k, Fraction(0))
        if var.exact:
            ok = g == w                 # only ints and Fractions went in: the count is exact, whatever its type
        elif isinstance(g, int) and not isinstance(g, bool) and w.denominator == 1:
            ok = g == w
        else:
            ok = close(float(g), float(w))
        if not ok:
            raise Violation("c02:atoms:%s" % var.origin,
                            "%s: count of %r is %r, sum over the parts is %s (formula %s)"
                            % (where, k, g, float(w), _s(f)), case)
    # what a reader does with the returned dict is his business: the next reading is intact and a new object
    keep = dict(atoms)
    atoms.clear()
    again = f.atoms
    if again is atoms or again != keep:
        raise Violation("c02:returned-dict-shared", "%s: after the caller cleared the dict returned by .atoms, "
                        ".atoms is %r (was %r)" % (where, again, keep), case)
    if not _immutable(f.structure):
        raise Violation("c02:structure-mutable", "%s: structure %r is not made of tuples" % (where, f.structure), case)
    # mass
    e = Fraction(E["emass"])
    masses = dict((k, Fraction(base_mass(table, k)) - k[2] * e) for k in comp)
    want_mass = sum((n * masses[k] for k, n in comp.items()), Fraction(0))
    gm = f.mass
    if not close(float(gm), float(want_mass)):
        raise Violation("c02:mass", "%s: mass %r, sum of count*atomic mass is %r (formula %s)"
                        % (where, gm, float(want_mass), _s(f)), case)
    mm = f.molecular_mass
    if not close(float(mm), float(want_mass / Fraction(E["avogadro"]))):
        raise Violation("c02:molecular_mass", "%s: molecular_mass %r expected %r"
                        % (where, mm, float(want_mass / Fraction(E["avogadro"]))), case)
    # charge
    want_q = sum((n * k[2] for k, n in comp.items()), Fraction(0))
    scale = sum((abs(n * k[2]) for k, n in comp.items()), Fraction(0))
    gq = f.charge
    if isinstance(gq, int):
        okq = gq == want_q
    else:
        okq = abs(Fraction(gq) - want_q) <= Fraction(REL) * scale
    if not okq:
        raise Violation("c02:charge", "%s: charge %r, sum of count*ion charge is %r (formula %s)"
                        % (where, gq, float(want_q), _s(f)), case)
    # mass fractions
    if want_mass > 0:
        mf = f.mass_fraction
        gotmf = dict((atom_key(a), v) for a, v in mf.items())
        total = 0.0
        for k, n in comp.items():
            w = float(n * masses[k] / want_mass)
            g = gotmf.get(k, 0.0)
            total += g
            if not close(float(g), w):
                raise Violation("c02:mass_fraction", "%s: mass fraction of %r is %r expected %r (formula %s)"
                                % (where, k, g, w, _s(f)), case)
        extra = [k for k in gotmf if k not in comp and gotmf[k] != 0]
        if extra:
            raise Violation("c02:mass_fraction", "%s: mass fraction for absent atoms %r" % (where, extra), case)
        if abs(total - 1.0) > 1e-12:
            raise Violation("c02:mass_fraction:sum", "%s: mass fractions sum to %r" % (where, total), case)
        keepmf = dict(mf)
        mf.clear()
        mf2 = f.mass_fraction
        if mf2 is mf or mf2 != keepmf:
            raise Violation("c02:returned-dict-shared", "%s: after the caller cleared the dict returned by "
                            ".mass_fraction, .mass_fraction is %r (was %r)" % (where, mf2, keepmf), case)
    # the printed form and the Hill form are read too (a value remembered on the instance by any of these
    # readers and carried along by copy(self) would show up in the next operation's result); the Hill form is
    # formula({atom: count}) of the atoms and must have the model's composition
    text = str(f)
    h = f.hill
    hgot = {}
    for atom, n in h.atoms.items():
        hgot[atom_key(atom)] = hgot.get(atom_key(atom), 0) + n
    for k in sorted(set(hgot) | set(comp)):
        g, w = hgot.get(k, 0), comp.get(k, Fraction(0))
        if not (g == w or (not var.exact and close(float(g), float(w)))):
            raise Violation("c02:hill:atoms", "%s: count of %r in f.hill is %r, sum over the parts is %s (formula %s, hill %s)"
                            % (where, k, g, float(w), _s(f), _s(h)), case)
    if str(f) != text:
        raise Violation("c02:str:unstable", "%s: str(f) changed from %r to %r by reading .hill" % (where, text, str(f)), case)


def _immutable(structure):
    return isinstance(structure, tuple) and all(
        isinstance(t, tuple) and len(t) == 2 and (not isinstance(t[1], (list, tuple)) or _immutable(t[1]))
        for t in structure)


def _s(f):
    try:
        s = str(f)
    except Exception:  # noqa
        s = "?"
    return s if len(s) < 120 else s[:117] + "..."


def check_history(ctx, history):
    case = {"kind": "history", "ops": history}
    state = {"snaps": None, "inputs": None}
    executed = []

    def before(index, op, vars_):
        state["snaps"] = [snap(v.f) for v in vars_]
        state["objs"] = [v.f for v in vars_]

    def observer(step, vars_):
        executed.append(step.kind)
        where = "step %d %s" % (step.index, json.dumps(step.op)[:80])
        snaps = state["snaps"]
        for i, old in enumerate(snaps):
            if i == step.changed:
                continue
            f = state["objs"][i]
            if vars_[i].f is not f:
                raise Violation("c02:alias:%s" % step.kind, "%s: variable %d was rebound" % (where, i), case)
            new = snap(f)
            if new != old:
                role = "operand" if i in step.operands else "bystander"
                what = [n for n, a, b in zip(("structure", "density", "name"), old, new) if a != b]
                raise Violation("c02:alias:%s:%s" % (step.kind, role),
                                "%s: %s variable %d changed its %s (now %s)"
                                % (where, role, i, "/".join(what), _s(f)), case)
        if step.inputs is not None and step.inputs[0] in ("dict", "seq"):
            _, used, keep = step.inputs
            if used != keep or type(used) is not type(keep):
                raise Violation("c02:alias:%s:argument" % step.kind,
                                "%s: the constructor changed its argument" % where, case)
        if step.kind == "bad":
            # a rejected operation: every variable was compared with its snapshot above; the operand is read in full
            check_var(vars_[step.operands[0]], case, where + ": operand after the rejected operation")
            return
        if step.kind == "retable":
            # the masses of the private table were changed: every formula living on it follows
            for k, v in enumerate(vars_):
                if v.table == "private":
                    check_var(v, case, where + ": variable %d after the table's masses changed" % k)
            return
        target = step.new if step.new is not None else step.changed
        check_var(vars_[target], case, where)
        # the operands are read again after the step (atoms, mass, charge, mass fractions, str, hill)
        for j in step.operands:
            if j != target:
                check_var(vars_[j], case, where + ": operand %d after the step" % j)
        if step.kind == "copy":
            src, dst = vars_[step.operands[0]].f, vars_[target].f
            want_name = step.op[2] if step.op[2] else src.name
            if dst.name != want_name:
                raise Violation("c02:copy:name", "%s: name %r expected %r" % (where, dst.name, want_name), case)
            if step.op[3] is not None and dst.density != step.op[3]:
                raise Violation("c02:copy:density", "%s: density %r expected %r" % (where, dst.density, step.op[3]), case)
            if dst is src:
                raise Violation("c02:alias:copy", "%s: formula(f) returned f itself" % where, case)
        if step.kind == "clone":
            src, dst = vars_[step.operands[0]].f, vars_[target].f
            if dst is src:
                raise Violation("c02:alias:clone", "%s: the %s of a formula is the formula itself" % (where, step.op[2]), case)
            if dst.name != src.name or dst.density != src.density or dst != src:
                raise Violation("c02:clone:differs", "%s: the %s of %r (name %r, density %r) is %r (name %r, density %r)"
                                % (where, step.op[2], src.structure, src.name, src.density, dst.structure, dst.name, dst.density), case)
        if step.new is not None and step.kind in ("add", "mul"):
            for i in step.operands:
                if vars_[target].f is vars_[i].f:
                    raise Violation("c02:alias:%s:result-is-operand" % step.kind,
                                    "%s: the result is the operand object" % where, case)

    vars_, flags, skipped = ops.interpret(history, observer=observer, before=before)
    for i, v in enumerate(vars_):
        check_var(v, case, "end of history, variable %d" % i)
    nontrivial = flags["mul-multi"] and flags["iadd-after-operand"]
    cls = ["op:" + k for k in sorted(set(flags["kinds"]))]
    cls += ["atom:" + c for c in sorted(flags["classes"])]
    cls.append("steps:%s" % ("1-5" if len(executed) <= 5 else "6-15" if len(executed) <= 15 else "16-30"))
    if flags["mul-multi"]:
        cls.append("nt:mul-on-multifragment")
    if flags["iadd-after-operand"]:
        cls.append("nt:iadd-after-operand")
    if skipped:
        cls.append("some-op-skipped")
    ctx.case(json.dumps(history, sort_keys=True), nontrivial=nontrivial,
             sample={"ops": history if len(history) <= 8 else history[:8] + ["..."],
                     "result": [_s(v.f) for v in vars_][:6]}, cls=cls)
    ctx.count("steps-executed", len(executed))


def task_histories(ctx, n, steps=30):
    E = ops.env()
    ctx.search("histories", ops.history(E["pool"], max_steps=steps, tables=True, zeros=True, empties=True, retable=True, exact=True), check_history, n)


def tasks(tier):
    from .. import depth
    from .. import mixed_tables
    return _tasks(tier) + [("little-stack", depth.task, dict(prop=PROPERTY)), ("mixed-tables", mixed_tables.task, dict(prop=PROPERTY))]


def _tasks(tier):
    if tier == "quick":
        return [("hist-%d" % k, task_histories, dict(n=250)) for k in range(8)]
    # coverage-guided tier (pbt/fuzz.py): libFuzzer drives the strategies and oracles of these tasks
    from .. import fuzz
    return fuzz.extend([("hist-%d" % k, task_histories, dict(n=4000)) for k in range(16)], PROPERTY, ['hist-0'])


def replay(ctx, case):
    if isinstance(case, dict) and case.get("kind") == "mixed-tables":
        from .. import mixed_tables
        return mixed_tables.check(ctx, case["property"])
    if isinstance(case, dict) and case.get("kind") == "little-stack":
        from .. import depth
        return depth.check(ctx, case)
    check_history(ctx, case["ops"])
