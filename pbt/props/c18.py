"""
C18 - biomolecule sequences are the sum of their residues.

The oracle reads only the *base* residues from the library's tables (20 amino
acids, 4 DNA and 4 RNA nucleotides: composition, cell volume, charge) and
carries its own code -> bases map written from the FASTA convention.  A code
string is expanded with that map (equal weights) and summed in exact rational
arithmetic; masses come from atom masses with H[1] -> H or D.  Strings are
built by the generator (codes, blanks, '*', tail), so what must be ignored is
known without parsing.  FASTA texts are rendered from a record structure, the
expected records are that structure.
"""
from .. import subtable
from fractions import Fraction
import io
import json
import math
import os
import shutil
import tempfile

from hypothesis import strategies as st

from ..runner import Violation
from ..fasta_guard_c16 import limit_memory, TableGuard, molecule_digest, digest_diff, CODE_TABLE_NAMES

PROPERTY = "C18"
RULE = ("sequences: Hypothesis draws a type (aa/dna/rna), up to 4 blocks (motif over the 25/18 codes x repeat count; lengths "
        "0..~3000), blanks inserted at drawn positions, optionally '*' plus a tail of further codes, blanks and stars, and a "
        "permutation (reverse / sort / rotate / keyed shuffle) of the kept codes. Oracle: expand every kept code with the "
        "independent code->bases map (B=DN J=LI Z=EQ X=20 aa; R=AG Y=CT K=GT M=AC S=CG W=AT B=CGT D=AGT H=ACT V=ACG N=ACGT U=T, "
        "X and - empty) with equal weights and sum the base residues' atoms, cell volume and charge in Fractions; mass/Dmass "
        "from atom masses with H[1]->H / D; density = mass/(N_A*V)*1e24 for the natural and the labile formula. Checked on "
        "Sequence(raw), Sequence(permuted) and formula('<type>:raw'); the prefix route is asked twice (distinct objects), the first "
        "answer is then changed in place (+= formula('H[1]2O'), .density, .name, change_table(private)) and the string asked "
        "again: a new object that satisfies the whole oracle; the same with table=<private table> for chains <= 300. codes: exhaustive sweep of the 25+18+18 table entries "
        "against the equal-weight mean of their bases. fasta: texts rendered from 0..8 records (header, 0..5 sequence lines "
        "with trailing/internal blanks, blank lines, junk before the first header, LF/CRLF, with/without final newline) "
        "written under a mkdtemp directory with each extension of {.fna .ffn .faa .frn .fasta .txt none .fna.txt .faa.gz} and "
        "an optional explicit type; read_fasta (file, StringIO), Sequence.loadall and Sequence.load must give the "
        "generator's records, typed by the extension. Histories (each task is one process): a guard snapshots every fasta "
        "table molecule (object identities, formula structures, densities, cell_volume, charge, mass, Dmass, sld, Dsld, "
        "D2Omatch) and compares after every generated case; the code sweep runs at the start and at the end of every "
        "sequences task; every Sequence is built twice in a row and must report identical values, every third one is built "
        "again 7 cases later; a Sequence and formula('<type>:...') never hand out a formula object of a table entry. Non-trivial: a sequence of >= 2 kept codes containing an ambiguity "
        "code; a FASTA text with >= 2 records one of which is wrapped over >= 2 lines. Distinct by (type, raw string) / "
        "(file name, text).")
ASSUMPTIONS = [
    "the entries of the 20 amino acids and of DNA_BASES / RNA_BASES (formula, cell volume, charge) are the specification; "
    "every other code and every sequence is derived from them by the oracle",
    "relative tolerance 1e-9 (averaged codes carry counts such as 1/3; summation order differs); charge 1e-9*(1+sum|q|)",
    "density is compared only when the cell volume is positive (an empty sequence has no density)",
    "record names are accepted with or without the leading '>'; sequences of records are compared with blanks removed "
    "(blanks are not significant in a sequence)",
    "sequence lines never start with '>' or with white space; the characters after '*' are codes, blanks and stars",
    "after a modification of a table entry is reported the guard puts the snapshot back, so the following cases of the task "
    "are judged on intact tables; at most 2 modified entries are reported per task (bucket per table and key)",
]
EXHAUSTIVE = True
EXHAUSTIVE_NOTE = "task 'codes': all 25 amino-acid codes and all 18 DNA and 18 RNA codes against the mean of their bases"

_STATE = {}

AA_BASES = "ACDEFGHIKLMNPQRSTVWY"
AA_MAP = dict((c, c) for c in AA_BASES)
AA_MAP.update({"B": "DN", "J": "LI", "Z": "EQ", "X": AA_BASES, "-": ""})
NUC_MAP = {"A": "A", "C": "C", "G": "G", "T": "T", "U": "T",
           "R": "AG", "Y": "CT", "K": "GT", "M": "AC", "S": "CG", "W": "AT",
           "B": "CGT", "D": "AGT", "H": "ACT", "V": "ACG", "N": "ACGT", "X": "", "-": ""}
CODE_MAP = {"aa": AA_MAP, "dna": NUC_MAP, "rna": NUC_MAP}
ALPHABET = dict((t, "".join(sorted(m))) for t, m in CODE_MAP.items())
EXT_TYPE = {".fna": "dna", ".ffn": "dna", ".faa": "aa", ".frn": "rna"}
EXTS = [".fna", ".ffn", ".faa", ".frn", ".fasta", ".txt", "", ".fna.txt", ".faa.gz", ".fa", ".frn", ".ffn"]


def env():
    if not _STATE:
        import periodictable as pt
        from periodictable import fasta
        E = _STATE
        E["pt"], E["fasta"] = pt, fasta
        E["T"] = pt.elements
        E["NA"] = pt.constants.avogadro_number
        base = {}
        src = {"aa": (fasta.AMINO_ACID_CODES, AA_BASES), "dna": (fasta.DNA_BASES, "ACGT"), "rna": (fasta.RNA_BASES, "ACGT")}
        for t, (tab, keys) in src.items():
            for k in keys:
                m = tab[k]
                atoms = dict((a, Fraction(n)) for a, n in m.labile_formula.atoms.items())
                base[t, k] = (atoms, Fraction(m.cell_volume), Fraction(m.charge))
        E["base"] = base
    return _STATE


# ----------------------------------------------------------------------
def expected(E, typ, kept):
    """(atoms {atom: Fraction}, V, q, sum|q|) of the kept code string."""
    counts = {}
    for c in kept:
        counts[c] = counts.get(c, 0) + 1
    atoms, V, q, qa = {}, Fraction(0), Fraction(0), Fraction(0)
    cmap = CODE_MAP[typ]
    for c in sorted(counts):
        bases = cmap[c]
        for b in bases:
            w = Fraction(counts[c], len(bases))
            ba, bv, bq = E["base"][typ, b]
            for a, n in ba.items():
                atoms[a] = atoms.get(a, 0) + w * n
            V += w * bv
            q += w * bq
            qa += w * abs(bq)
    return atoms, V, q, qa


def masses(E, atoms):
    """(labile mass, natural-H mass, D mass, natural atoms dict)"""
    T = E["T"]
    L, H, D = T.H[1], T.H, T.D
    lab = math.fsum(float(n) * a.mass for a, n in atoms.items())
    nat = dict(atoms)
    if L in nat:
        n1 = nat.pop(L)
        nat[H] = nat.get(H, 0) + n1
    hm = math.fsum(float(n) * a.mass for a, n in nat.items())
    dm = math.fsum(float(n) * (D.mass if a is L else a.mass) for a, n in atoms.items())
    return lab, hm, dm, nat


def close(x, y, rel=1e-9, floor=0.0):
    try:
        x = float(x)
    except Exception:  # noqa
        return False
    return x == y or abs(x - y) <= rel * max(abs(x), abs(y)) + floor


def cmp_atoms(got, want):
    """None or text. got: {atom: number}; want: {atom: Fraction}"""
    want = dict((a, n) for a, n in want.items() if n != 0)
    got = dict((a, n) for a, n in got.items() if n != 0)
    if set(got) != set(want):
        return "atoms %s, expected %s" % (sorted(str(a) for a in got), sorted(str(a) for a in want))
    for a, n in want.items():
        if not close(got[a], float(n)):
            return "count of %s is %r, expected %r" % (a, got[a], float(n))
    return None


def check_molecule(E, m, typ, kept, label, case, bucket, light=False):
    """Compare a Molecule/Sequence *m* with the oracle for the kept codes."""
    atoms, V, q, qa = expected(E, typ, kept)
    bad = cmp_atoms(m.labile_formula.atoms, atoms)
    if bad:
        raise Violation(bucket + ":formula", "%s labile_formula: %s" % (label, bad), case)
    lab, hm, dm, nat = masses(E, atoms)
    bad = cmp_atoms(m.natural_formula.atoms, nat)
    if bad:
        raise Violation(bucket + ":natural-formula", "%s natural_formula: %s" % (label, bad), case)
    if not close(m.cell_volume, float(V)):
        raise Violation(bucket + ":cell-volume", "%s cell_volume is %r, expected %r" % (label, m.cell_volume, float(V)), case)
    if not close(m.charge, float(q), floor=1e-9 * (1 + float(qa))):
        raise Violation(bucket + ":charge", "%s charge is %r, expected %r" % (label, m.charge, float(q)), case)
    if not close(m.mass, hm):
        raise Violation(bucket + ":mass", "%s mass is %r, expected %r" % (label, m.mass, hm), case)
    if not close(m.Dmass, dm):
        raise Violation(bucket + ":Dmass", "%s Dmass is %r, expected %r" % (label, m.Dmass, dm), case)
    if V > 0:
        for nm, f, mm in (("natural_formula", m.natural_formula, hm), ("labile_formula", m.labile_formula, lab)):
            want = mm / E["NA"] / float(V) * 1e24
            if f.density is None or not close(f.density, want):
                raise Violation(bucket + ":density", "%s %s.density is %r, expected mass/cell volume = %r"
                                % (label, nm, f.density, want), case)
    return atoms, V, lab


# ----------------------------------------------------------------------
# sequences
def build_raw(case):
    """-> (raw string, kept codes, permuted kept codes)."""
    kept = "".join(m * r for m, r in case["blocks"])
    body = kept
    if case["star"] is not None:
        body = kept + "*" + case["star"]
    chars = list(body)
    for p in sorted(case["blanks"], reverse=True):
        chars.insert(p % (len(chars) + 1), " ")
    raw = "".join(chars)
    n = len(kept)
    how, keys = case["perm"]
    if how == "reverse":
        perm = kept[::-1]
    elif how == "sort":
        perm = "".join(sorted(kept))
    elif how == "rotate":
        k = (keys[0] % n) if n else 0
        perm = kept[k:] + kept[:k]
    else:
        order = sorted(range(n), key=lambda i: ((keys[i % len(keys)] + 1) * (i + 7) % 1009, i))
        perm = "".join(kept[i] for i in order)
    return raw, kept, perm


def sequence_strategy():
    def for_type(t):
        alpha = ALPHABET[t]
        ambig = "".join(c for c in alpha if len(CODE_MAP[t][c]) != 1)
        motif = st.one_of(st.text(alphabet=alpha, min_size=1, max_size=12), st.text(alphabet=alpha, min_size=1, max_size=40),
                          st.text(alphabet=ambig, min_size=1, max_size=4))
        reps = st.one_of(st.just(1), st.just(1), st.integers(1, 6), st.integers(1, 80), st.integers(100, 300))
        # the empty sequence through an explicit selector (~6 %), otherwise 1..4 blocks
        blocks = st.tuples(st.integers(0, 15), st.lists(st.tuples(motif, reps).map(list), min_size=1, max_size=4)).map(
            lambda t: [] if t[0] == 7 else t[1])
        star = st.one_of(st.none(), st.none(), st.text(alphabet=alpha + " *", min_size=0, max_size=10))
        blanks = st.lists(st.integers(0, 5000), min_size=0, max_size=6)
        perm = st.tuples(st.sampled_from(["reverse", "sort", "rotate", "shuffle"]),
                         st.lists(st.integers(0, 1000), min_size=1, max_size=12)).map(list)
        return st.tuples(blocks, star, blanks, perm).map(
            lambda v: {"kind": "sequence", "type": t, "blocks": v[0], "star": v[1], "blanks": v[2], "perm": v[3]})
    return st.sampled_from(["aa", "dna", "rna", "aa"]).flatmap(for_type)


def check_sequence(ctx, case, S=None):
    E = env()
    fa, pt = E["fasta"], E["pt"]
    typ = case["type"]
    raw, kept, perm = build_raw(case)
    cmap = CODE_MAP[typ]
    n_amb = sum(1 for c in kept if len(cmap[c]) != 1)
    cls = ["type:" + typ, "len:" + ("0" if not kept else "1" if len(kept) == 1 else "2-20" if len(kept) <= 20 else
                                    "21-300" if len(kept) <= 300 else "301-1000" if len(kept) <= 1000 else ">1000"),
           "ambiguity:" + ("none" if not n_amb else "some" if n_amb < len(kept) else "all")]
    if " " in raw:
        cls.append("with-blanks")
    if case["star"] is not None:
        cls.append("with-star" + (":at-start" if not kept else ""))
    if any(len(cmap[c]) == 0 for c in kept):
        cls.append("with-gap")
    if any(len(cmap[c]) == 3 for c in kept):
        cls.append("with-thirds")
    ctx.case((typ, raw), nontrivial=(len(kept) >= 2 and n_amb > 0), sample={"type": typ, "sequence": raw[:120]}, cls=cls)
    short = raw if len(raw) <= 60 else raw[:57] + "..."
    label = "Sequence(%r, type=%r)" % (short, typ)
    make = (lambda: fa.Sequence("n1", raw, type=typ)) if typ != "aa" or len(raw) % 2 else (lambda: fa.Sequence("n1", raw))
    s = make()
    first = molecule_digest(s)
    # the identical construction once more: same input, same process, same answer
    bad = digest_diff(first, molecule_digest(make()))
    if bad:
        ctx.count("repeat-differs")
        if not ctx.skip_bucket("c18:repeat-differs"):
            small = case
            if S is not None:
                verify_tables(ctx, S, case)
                small = shrink_sequence(E, S, typ, kept, repeat_fails(E))
                bad = repeat_fails(E)(small) or bad
                S.guard.restore()
            ctx.violation("c18:repeat-differs", "Sequence(%r, type=%r) built twice in a row in one process differs: %s"
                          % (build_raw(small)[0][:60], typ, bad), {"kind": "history", "calls": [small]})
    not_table_object(E, s, typ, label, case)
    atoms, V, lab = check_molecule(E, s, typ, kept, label, case, "c18:sequence")
    # order independence: compare both with the oracle and with each other
    if perm != kept:
        p = fa.Sequence("n2", perm, typ)
        check_molecule(E, p, typ, kept, "permuted " + label, case, "c18:permutation")
        bad = cmp_atoms(p.labile_formula.atoms, dict((a, Fraction(n)) for a, n in s.labile_formula.atoms.items()))
        if bad or not close(p.cell_volume, s.cell_volume) or not close(p.mass, s.mass):
            raise Violation("c18:permutation:differs", "%s and its permutation %r differ: %s" % (label, perm[:60], bad), case)
    check_prefix(ctx, E, case, typ, raw, short, atoms, V, lab)
    return first


def private_table(E):
    if "private" not in E:
        from periodictable import core, mass, density
        T = subtable.new("c18-private")
        mass.init(T)
        density.init(T)
        E["private"] = T
    return E["private"]


def on_table(T, atom):
    out = T[atom.number]
    iso = getattr(atom, "isotope", 0)
    if iso:
        out = out[iso]
    if atom.charge:
        out = out.ion[atom.charge]
    return out


def check_prefix(ctx, E, case, typ, raw, short, atoms, V, lab):
    """formula('<type>:codes'): the residue sum, every time it is asked, whatever the caller did to earlier answers."""
    pt = E["pt"]
    text = typ + ":" + raw
    shown = typ + ":" + short
    want_density = lab / E["NA"] / float(V) * 1e24 if V > 0 else None

    def judge(f, bucket, what, want_atoms=atoms):
        bad = cmp_atoms(f.atoms, want_atoms)
        if bad:
            raise Violation(bucket + ":formula", "%s: %s" % (what, bad), case)
        if want_density is not None and (f.density is None or not close(f.density, want_density)):
            raise Violation(bucket + ":density", "%s.density is %r, expected mass/cell volume = %r" % (what, f.density, want_density), case)

    f = pt.formula(text)
    not_table_object(E, f, typ, "formula(%r)" % shown, case)
    judge(f, "c18:prefix", "formula(%r)" % shown)
    fresh_name = f.name
    # asked twice: two answers, not one object
    g = pt.formula(text)
    if g is f:
        raise Violation("c18:prefix:same-object", "formula(%r) returned the same Formula object twice; a caller who extends one "
                        "answer (f += ...) changes the other" % shown, case)
    judge(g, "c18:prefix:repeat", "second formula(%r)" % shown)
    # the caller modifies the first answer in place with documented operations ...
    mode = len(raw) % 3
    ops = []
    if mode in (0, 2):
        f += pt.formula("H[1]2O")           # chain terminations, as the fasta module suggests
        ops.append("f += formula('H[1]2O')")
    if mode in (0, 1):
        f.density = 1.35
        ops.append("f.density = 1.35")
    if mode == 1:
        f.name = "modified"
        ops.append("f.name = 'modified'")
    if mode == 2:
        f.change_table(private_table(E))
        ops.append("f.change_table(private)")
    ctx.count("prefix:modified:" + ["extend+density", "density+name", "extend+change_table"][mode])
    # ... and asks again
    h = pt.formula(text)
    if h is f or h is g:
        raise Violation("c18:prefix:same-object", "formula(%r) returned an object it had returned before" % shown, case)
    what = "formula(%r) after an earlier answer was changed by %s" % (shown, "; ".join(ops))
    judge(h, "c18:prefix:after-modification", what)
    judge(g, "c18:prefix:after-modification", "the second answer of " + what)
    if h.name != fresh_name:
        raise Violation("c18:prefix:after-modification:name", "%s is named %r, a fresh one %r" % (what, h.name, fresh_name), case)
    # the same on a private table (short chains, every other case)
    if len(raw) <= 300 and len(raw) % 2 == 0:
        T = private_table(E)
        patoms = dict((on_table(T, a), n) for a, n in atoms.items())
        ctx.count("prefix:private-table")
        p1 = pt.formula(text, table=T)
        judge(p1, "c18:prefix:private-table", "formula(%r, table=private)" % shown, patoms)
        p1 += pt.formula("H[1]2O", table=T)
        p1.density = 2.5
        p2 = pt.formula(text, table=T)
        if p2 is p1:
            raise Violation("c18:prefix:same-object", "formula(%r, table=private) returned the same object twice" % shown, case)
        judge(p2, "c18:prefix:after-modification", "formula(%r, table=private) after p += formula('H[1]2O'); p.density = 2.5" % shown, patoms)
        judge(pt.formula(text), "c18:prefix:after-modification", "formula(%r) after the private-table requests" % shown)


def not_table_object(E, obj, typ, label, case):
    """A sequence (or the formula of a prefix) owns its formula objects: it never hands out those of a table entry,
    otherwise `seq.labile_formula += x` would rewrite the table."""
    fa = E["fasta"]
    mine = [obj] if not hasattr(obj, "labile_formula") else [obj.labile_formula, obj.natural_formula, obj.formula]
    for tname in ("AMINO_ACID_CODES", "DNA_CODES", "RNA_CODES", "DNA_BASES", "RNA_BASES"):
        tab = getattr(fa, tname)
        for k in tab:
            for attr in ("labile_formula", "natural_formula", "formula"):
                theirs = getattr(tab[k], attr)
                if any(x is theirs for x in mine):
                    raise Violation("c18:shares-table-formula", "%s returns the %s object of fasta.%s[%r]; changing it in place "
                                    "(+=) would change the table" % (label, attr, tname, k), case)


# ----------------------------------------------------------------------
# sequences of calls in one process
REPEAT_AFTER = 7


class Session(object):
    def __init__(self, E):
        self.E = E
        self.guard = TableGuard(E["fasta"], "c18")
        self.recent = []
        self.remembered = []      # [age, case, digest, cases since]
        self.n = 0


def seq_case(typ, kept):
    return {"kind": "sequence", "type": typ, "blocks": [[kept, 1]] if kept else [], "star": None, "blanks": [],
            "perm": ["reverse", [0]]}


def build_sequence(E, case):
    raw = build_raw(case)[0]
    return E["fasta"].Sequence("n1", raw, type=case["type"])


def repeat_fails(E):
    return lambda c: digest_diff(molecule_digest(build_sequence(E, c)), molecule_digest(build_sequence(E, c)))


def modifies_tables(E, S):
    def f(c):
        build_sequence(E, c)
        return bool(S.guard.diff())
    return f


def shrink_sequence(E, S, typ, kept, fails):
    """Halve, then delete single codes, while *fails* stays true; the tables are put back before every try."""
    def bad(k):
        S.guard.restore()
        try:
            return bool(fails(seq_case(typ, k)))
        except Exception:  # noqa
            return False
    best = kept
    if not bad(best):
        S.guard.restore()
        return seq_case(typ, kept)
    progress = True
    while progress and len(best) > 1:
        progress = False
        h = len(best) // 2
        for trial in (best[:h], best[h:]):
            if trial and bad(trial):
                best, progress = trial, True
                break
    progress = len(best) <= 80
    while progress and len(best) > 1:
        progress = False
        for k in range(len(best)):
            trial = best[:k] + best[k + 1:]
            if bad(trial):
                best, progress = trial, True
                break
    S.guard.restore()
    return seq_case(typ, best)


def verify_tables(ctx, S, case):
    """Guard check after a case; a sequence case that modified a table is reduced before it is saved."""
    E = S.E
    if case.get("kind") == "sequence" and S.guard.diff():
        changed = sorted(set((t, k) for t, k, _, _, _ in S.guard.diff()))
        if any("c18:table-modified:%s:%s" % tk not in ctx.found for tk in changed):
            S.guard.restore()
            small = shrink_sequence(E, S, case["type"], build_raw(case)[1], modifies_tables(E, S))
            build_sequence(E, small)
            if S.guard.diff():
                case = small
            else:
                S.guard.restore()
                build_sequence(E, case)
    S.guard.verify(ctx, [case], "while Sequence(%r, type=%r) was built" % (build_raw(case)[0][:60], case["type"]))


def run_call(ctx, S, case, root=None):
    E = S.E
    kind = case.get("kind")
    if kind == "fasta":
        try:
            check_fasta(ctx, case, root)
        finally:
            S.guard.verify(ctx, [case], "while the FASTA file %r was loaded" % (case["stem"] + case["ext"]))
        return
    if kind == "code":
        try:
            check_code(ctx, case)
        finally:
            S.guard.verify(ctx, [case], "while code %r of %s was evaluated" % (case["code"], case["type"]))
        return
    if kind == "code-sweep":
        try:
            sweep_codes(ctx)
        finally:
            S.guard.verify(ctx, [case], "during the sweep of the code tables")
        return
    S.n += 1
    S.recent = (S.recent + [case])[-8:]
    for r in S.remembered:
        r[3].append(case)
    try:
        first = check_sequence(ctx, case, S)
        for r in list(S.remembered):
            r[0] += 1
            if r[0] >= REPEAT_AFTER:
                S.remembered.remove(r)
                ctx.count("repeated-later")
                bad = digest_diff(r[2], molecule_digest(build_sequence(E, r[1])))
                if bad:
                    ctx.count("repeat-differs")
                    ctx.violation("c18:repeat-differs", "Sequence(%r, type=%r) differs %d cases later in the same process: %s"
                                  % (build_raw(r[1])[0][:60], r[1]["type"], r[0], bad),
                                  {"kind": "history", "calls": [r[1]] + r[3][:-1]})
        if S.n % 3 == 0 and len(S.remembered) < 4 and len(build_raw(case)[0]) <= 400:
            S.remembered.append([0, case, first, []])
    finally:
        verify_tables(ctx, S, case)


def check_history(ctx, case):
    """Replay of a saved sequence of calls on a fresh process; the first call is repeated at the end."""
    E = env()
    S = Session(E)
    calls = case["calls"]
    first = None
    if calls and calls[0].get("kind") == "sequence":
        first = molecule_digest(build_sequence(E, calls[0]))
        S.guard.verify(ctx, calls[:1], "while the first sequence was built")
    for c in calls:
        run_call(ctx, S, c)
    if first is not None:
        bad = digest_diff(first, molecule_digest(build_sequence(E, calls[0])))
        if bad:
            ctx.violation("c18:repeat-differs", "Sequence(%r, type=%r) differs after %d further calls: %s"
                          % (build_raw(calls[0])[0][:60], calls[0]["type"], len(calls), bad), case)
        S.guard.verify(ctx, calls, "by the end of the history")


def task_sequences(ctx, n):
    limit_memory()
    E = env()
    S = Session(E)
    sweep_codes(ctx)
    S.guard.verify(ctx, [{"kind": "code-sweep"}], "during the sweep of the code tables")
    ctx.search("sequences", sequence_strategy(), lambda c, v: run_call(c, S, v), n)
    S.guard.verify(ctx, S.recent, "by the end of the task")
    sweep_codes(ctx)
    ctx.extra["table_guard_checks"] = S.guard.checks


# ----------------------------------------------------------------------
# the code tables
def check_code(ctx, case):
    E = env()
    fa = E["fasta"]
    typ, code = case["type"], case["code"]
    bases = CODE_MAP[typ][code]
    ctx.case((typ, code), nontrivial=len(bases) != 1, sample=case, cls=["type:" + typ, "bases:%d" % len(bases)])
    tab = fa.CODE_TABLES[typ]
    if code not in tab:
        raise Violation("c18:code:missing", "code %r is not in the %s table" % (code, typ), case)
    check_molecule(E, tab[code], typ, code, "fasta.CODE_TABLES[%r][%r]" % (typ, code), case, "c18:code")
    s = fa.Sequence("single", code, type=typ)
    check_molecule(E, s, typ, code, "Sequence(%r, type=%r)" % (code, typ), case, "c18:code:sequence")


def sweep_codes(ctx):
    for typ in ("aa", "dna", "rna"):
        for code in sorted(CODE_MAP[typ]):
            ctx.check(check_code, {"kind": "code", "type": typ, "code": code})


def task_codes(ctx):
    limit_memory()
    E = env()
    guard = TableGuard(E["fasta"], "c18")
    sweep_codes(ctx)
    guard.verify(ctx, [{"kind": "code-sweep"}], "during the sweep of the code tables")


# ----------------------------------------------------------------------
# FASTA texts
# the description after '>' is free text: besides the usual characters a few that str.splitlines() would break a line
# at although no text file reader does (vertical tab, form feed, the ASCII separators) - they are in-line characters
HEADER_CHARS = "abcdefghijklmnopqrstuvwxyzABCDEFGHIJKLMNOPQRSTUVWXYZ0123456789 |_.-:>[]=,/" + "\t\x0b\x0c\x1c\x1d\x1e;#*"


def fasta_strategy():
    def for_file(ft):
        ext, explicit = ft
        typ = explicit or EXT_TYPE.get(ext, "aa")
        alpha = ALPHABET[typ]
        chunk = st.one_of(st.text(alphabet=alpha, min_size=1, max_size=12), st.text(alphabet=alpha, min_size=20, max_size=70))
        line = st.tuples(st.lists(chunk, min_size=1, max_size=3), st.sampled_from(["", "", "", " ", "  "])).map(
            lambda t: " ".join(t[0]) + t[1])
        body = st.lists(st.one_of(line, line, line, st.just("")), min_size=0, max_size=5)
        header = st.text(alphabet=HEADER_CHARS, min_size=0, max_size=30).map(lambda h: ">" + h.rstrip())
        star = st.sampled_from([False, False, False, True])
        record = st.tuples(header, body, star).map(lambda t: {"header": t[0], "lines": t[1], "star": t[2]})
        junk = st.lists(st.one_of(st.just(""), st.sampled_from(["; comment", "junk before the first header", "#x"]),
                                  st.text(alphabet=alpha, min_size=1, max_size=10)), min_size=0, max_size=2)
        return st.tuples(st.lists(record, min_size=0, max_size=8), junk, st.sampled_from(["\n", "\n", "\r\n"]),
                         st.booleans(), st.sampled_from(["seq", "x.y", "GCF_0001.1_genomic", "a b"])).map(
            lambda v: {"kind": "fasta", "ext": ext, "explicit": explicit, "records": v[0], "junk": v[1], "eol": v[2],
                       "final_eol": v[3], "stem": v[4]})
    return st.tuples(st.sampled_from(EXTS), st.sampled_from([None, None, None, "aa", "dna", "rna"])).flatmap(for_file)


def render_fasta(case):
    lines = list(case["junk"])
    want = []
    for r in case["records"]:
        lines.append(r["header"])
        body = list(r["lines"])
        if r["star"]:
            body = body + ["*"] if not body or not body[-1].strip() else body[:-1] + [body[-1].rstrip() + "*"]
        lines.extend(body)
        want.append((r["header"], "".join(body)))
    text = case["eol"].join(lines)
    if lines and case["final_eol"]:
        text += case["eol"]
    return text, want


def kept_of(seq):
    return seq.split("*", 1)[0].replace(" ", "")


def check_fasta(ctx, case, root=None):
    E = env()
    fa = E["fasta"]
    own = root is None
    if own:
        root = tempfile.mkdtemp(prefix="c18-")
    try:
        _check_fasta(ctx, case, root, E, fa)
    finally:
        if own:
            shutil.rmtree(root, ignore_errors=True)


def _check_fasta(ctx, case, root, E, fa):
    text, want = render_fasta(case)
    ext, explicit = case["ext"], case["explicit"]
    typ = explicit or EXT_TYPE.get(ext, "aa")
    fname = case["stem"] + ext
    wrapped = any(sum(1 for l in r["lines"] if l.strip()) >= 2 for r in case["records"])
    cls = ["ext:" + (ext or "none"), "explicit:" + str(explicit), "records:%s" % (len(want) if len(want) < 3 else "3+"),
           "eol:" + ("crlf" if case["eol"] == "\r\n" else "lf")]
    if wrapped:
        cls.append("wrapped")
    if case["junk"]:
        cls.append("junk-before-header")
    if any(not "".join(r["lines"]).strip() for r in case["records"]):
        cls.append("empty-record")
    if any("" in r["lines"] for r in case["records"]):
        cls.append("blank-lines")
    if any(r["star"] for r in case["records"]):
        cls.append("with-star")
    ctx.case((fname, explicit, text), nontrivial=(len(want) >= 2 and wrapped),
             sample={"file": fname, "type": explicit, "text": text[:200]}, cls=cls)
    path = os.path.join(root, fname)
    with open(path, "wb") as fh:
        fh.write(text.encode("ascii"))
    # A read that FAILS first: the line source raises in the middle of a record (a truncated archive, an undecodable
    # chunk, a user iterator that gives up).  The caller catches that; the valid reads below must not see any of it.
    if len(text) % 3 == 0:
        class _Gone(Exception):
            pass

        def broken():
            yield ">abandoned record\n"
            yield "MKVLAAGIDE\n"
            yield "ACDEFGHIKL\n"
            raise _Gone()
        try:
            for _ in fa.read_fasta(broken()):
                pass
        except _Gone:
            ctx.count("fasta:failed-read-first")
    try:
        label = "file %r type=%r text=%r" % (fname, explicit, text if len(text) < 160 else text[:157] + "...")

        def same_records(got, route):
            got = list(got)
            if len(got) != len(want):
                raise Violation("c18:fasta:record-count", "%s of %s yields %d records, expected %d: %r"
                                % (route, label, len(got), len(want), [g[0] for g in got][:10]), case)
            for k, ((gn, gs), (wn, ws)) in enumerate(zip(got, want)):
                if gn not in (wn, wn[1:], wn[1:].strip()):
                    raise Violation("c18:fasta:name", "%s of %s: record %d is named %r, expected %r" % (route, label, k, gn, wn), case)
                if gs.replace(" ", "") != ws.replace(" ", ""):
                    raise Violation("c18:fasta:sequence", "%s of %s: record %d has sequence %r, expected %r"
                                    % (route, label, k, gs, ws), case)

        with open(path, "rt") as fh:
            same_records(fa.read_fasta(fh), "read_fasta(file)")
        same_records(fa.read_fasta(io.StringIO(text.replace("\r\n", "\n"))), "read_fasta(StringIO)")

        args = (path,) if explicit is None else (path, explicit)
        seqs = list(fa.Sequence.loadall(*args))
        if len(seqs) != len(want):
            raise Violation("c18:fasta:record-count", "Sequence.loadall of %s yields %d sequences, expected %d"
                            % (label, len(seqs), len(want)), case)
        for k, (s, (wn, ws)) in enumerate(zip(seqs, want)):
            if s.name not in (wn, wn[1:], wn[1:].strip()):
                raise Violation("c18:fasta:name", "Sequence.loadall of %s: record %d is named %r, expected %r" % (label, k, s.name, wn), case)
            check_molecule(E, s, typ, kept_of(ws), "Sequence.loadall(%s)[%d] as %s" % (label, k, typ), case,
                           "c18:fasta:typed:%s" % (ext or "none") if explicit is None else "c18:fasta:explicit-type")
        if want:
            s = fa.Sequence.load(*args) if explicit is None or len(text) % 2 else fa.Sequence.load(path, type=explicit)
            wn, ws = want[0]
            if s.name not in (wn, wn[1:], wn[1:].strip()):
                raise Violation("c18:fasta:load", "Sequence.load of %s is named %r, expected the first record %r" % (label, s.name, wn), case)
            check_molecule(E, s, typ, kept_of(ws), "Sequence.load(%s) as %s" % (label, typ), case,
                           "c18:fasta:load:%s" % (ext or "none") if explicit is None else "c18:fasta:load:explicit-type")
    finally:
        try:
            os.remove(path)
        except OSError:
            pass


# ----------------------------------------------------------------------
# large FASTA texts whose header lines start exactly at (or next to) multiples of the block sizes that buffered
# readers use: a reader that works block-wise must still find every header
BIG_BLOCKS = [512, 4096, 8192, 65536, 131072, 1 << 20]


def render_big(case):
    """-> (text, [(header, sequence)]); header i starts at character offset case['starts'][i]*block + off."""
    B, off, width, alpha = case["block"], case["off"], case["width"], ALPHABET[case["type"]].replace("*", "").replace(" ", "")
    alpha = "".join(ch for ch in alpha if ch.isalpha())
    parts, want, cur = [], [], 0
    starts = [0] + [k * B + off for k in case["starts"]]
    for i, at in enumerate(starts):
        assert at == cur, (at, cur)
        header = ">rec%d block=%d" % (i, B)
        parts.append(header + "\n")
        cur += len(header) + 1
        end = starts[i + 1] if i + 1 < len(starts) else cur + 3 * width + 7
        seq = []
        k = 0
        while cur < end:
            room = end - cur
            n = width if room > 2 * width + 2 else (room - 1 if room - 1 <= width else room // 2 - 1)
            n = max(n, 0)
            line = "".join(alpha[(k + j) % len(alpha)] for j in range(n))
            k += 7
            seq.append(line)
            parts.append(line + "\n")
            cur += n + 1
        want.append((header, "".join(seq)))
    return "".join(parts), want


def check_big_fasta(ctx, case):
    E = env()
    fa = E["fasta"]
    text, want = render_big(case)
    label = "FASTA text of %d characters, %d records, headers at multiples of %d%+d" % (
        len(text), len(want), case["block"], case["off"])
    ctx.case(("bigfasta", json.dumps(case, sort_keys=True)), nontrivial=True,
             sample=dict(case, characters=len(text)), cls=["bigfasta:block:%d" % case["block"], "bigfasta:off:%+d" % case["off"]])
    root = tempfile.mkdtemp(prefix="c18-big-")
    path = os.path.join(root, "big" + case["ext"])
    try:
        with open(path, "wb") as fh:
            fh.write(text.encode("ascii"))
        for route in ("file", "StringIO", "lines"):
            if route == "file":
                with open(path, "rt") as fh:
                    got = list(fa.read_fasta(fh))
            elif route == "StringIO":
                got = list(fa.read_fasta(io.StringIO(text)))
            else:
                got = list(fa.read_fasta(iter(text.splitlines(True))))
            if len(got) != len(want):
                raise Violation("c18:fasta:record-count", "read_fasta(%s) of a %s yields %d records, expected %d: %r"
                                % (route, label, len(got), len(want), [g[0][:30] for g in got][:6]), case)
            for k, ((gn, gs), (wn, ws)) in enumerate(zip(got, want)):
                if gn not in (wn, wn[1:]):
                    raise Violation("c18:fasta:name", "read_fasta(%s) of a %s: record %d is named %r, expected %r"
                                    % (route, label, k, gn[:60], wn), case)
                if gs.replace(" ", "") != ws:
                    raise Violation("c18:fasta:sequence", "read_fasta(%s) of a %s: record %d has %d residues, expected %d"
                                    % (route, label, k, len(gs), len(ws)), case)
    finally:
        shutil.rmtree(root, ignore_errors=True)


def big_cases(tier):
    out = []
    for B in BIG_BLOCKS:
        for starts in ([1, 2], [2, 3, 5]) if (B < (1 << 20) or tier != "quick") else ([1, 2],):
            for off in (0, 1, -1):
                out.append({"kind": "bigfasta", "block": B, "starts": starts, "off": off, "width": 60 if off else 70,
                            "type": "aa" if B % 3 else "dna", "ext": ".faa" if B % 3 else ".fna"})
    return out


def task_big_fasta(ctx, part, parts):
    limit_memory()
    for i, case in enumerate(big_cases(ctx.tier)):
        if i % parts == part:
            ctx.check(check_big_fasta, case)


def task_fasta(ctx, n):
    limit_memory()
    E = env()
    S = Session(E)
    root = tempfile.mkdtemp(prefix="c18-")
    try:
        ctx.search("fasta", fasta_strategy(), lambda c, v: run_call(c, S, v, root), n)
        S.guard.verify(ctx, S.recent, "by the end of the task")
        sweep_codes(ctx)
    finally:
        shutil.rmtree(root, ignore_errors=True)


# ----------------------------------------------------------------------
def tasks(tier):
    from .. import depth
    return _tasks(tier) + [("little-stack", depth.task, dict(prop=PROPERTY))]


def _tasks(tier):
    if tier == "quick":
        return [("codes", task_codes, {}),
                ("sequences-a", task_sequences, dict(n=250)),
                ("sequences-b", task_sequences, dict(n=250)),
                ("sequences-c", task_sequences, dict(n=250)),
                ("sequences-d", task_sequences, dict(n=250)),
                ("sequences-e", task_sequences, dict(n=250)),
                ("sequences-f", task_sequences, dict(n=250)),
                ("fasta-a", task_fasta, dict(n=200)),
                ("fasta-b", task_fasta, dict(n=200)),
                ("big-fasta-0", task_big_fasta, dict(part=0, parts=2)),
                ("big-fasta-1", task_big_fasta, dict(part=1, parts=2))]
    out = [("codes", task_codes, {})]
    for k in range(10):
        out.append(("sequences-%d" % k, task_sequences, dict(n=7000)))
    for k in range(5):
        out.append(("fasta-%d" % k, task_fasta, dict(n=6000)))
    out += [("big-fasta-%d" % k, task_big_fasta, dict(part=k, parts=3)) for k in range(3)]
    # coverage-guided tier (pbt/fuzz.py): libFuzzer drives the strategies and oracles of these tasks
    from .. import fuzz
    fuzz.extend(out, PROPERTY, ["sequences-0"])
    return out


def replay(ctx, case):
    if isinstance(case, dict) and case.get("kind") == "little-stack":
        from .. import depth
        return depth.check(ctx, case)
    if case.get("kind") == "bigfasta":
        return check_big_fasta(ctx, case)
    k = case["kind"]
    if k == "sequence":
        check_sequence(ctx, case)
    elif k == "code":
        check_code(ctx, case)
    elif k == "history":
        check_history(ctx, case)
    elif k == "code-sweep":
        check_history(ctx, {"kind": "history", "calls": [case]})
    else:
        check_fasta(ctx, case)
