"""
C01 - a formula string denotes exactly the composition its documented grammar says.

Valid strings are renderings of generated derivation trees (pbt/formula_ast.py);
the expected composition, charge and density come from the tree, never from a
parser.  Malformed strings are one fixed, unambiguous malformation of a valid
rendering and must be rejected with an exception.
"""
from .. import subtable
from fractions import Fraction

from hypothesis import strategies as st

from ..runner import Violation, lib_frame
from .. import formula_ast as fa
from ..atoms import Pool, resolve, atom_key, spec_key, spec_class, DT

PROPERTY = "C01"
RULE = ("valid: Hypothesis draws a derivation tree of the documented grammar (atoms of every class, "
        "integer/decimal count spellings, implicit and parenthesised groups, every separator spelling, "
        "@d/@dn/@di) and renders it; oracle = composition/charge/density computed from the tree in "
        "Fractions; non-trivial = nesting depth >= 2, or a tagged atom (isotope/ion) with count != 1 inside "
        "a group with count != 1; distinct by rendered string. malformed: one malformation from the fixed "
        "list applied to a valid rendering, every one non-trivial, distinct by string; oracle = the call raises. "
        "Each case runs on the public table and on a private table. customised: a second private table whose "
        "masses and densities are rescaled (the documented H=1 style customisation, factors drawn) BETWEEN two "
        "parses of the same rendering; the oracle reads the table's current masses/densities, so the density of a "
        "lone atom and the '@dn' conversion must follow the table as it is at the time of each parse.")
ASSUMPTIONS = [
    "only strings derivable from doc/sphinx/guide/formula_grammar.rst are generated; strings the parser "
    "accepts beyond it ('2 H2O', '(X) 2Y', leading/trailing blanks) are neither generated nor judged",
    "float counts compared at rel 1e-12 (the parser multiplies doubles), integer counts exactly",
    "natural-density ratio for '@dn' is computed independently from element masses (ion charge kept)",
]

_STATE = {}

UNITS = ("nm", "um", "mm", "cm", "ng", "ug", "mg", "g", "kg", "nL", "uL", "mL", "L")


def env():
    """Tables and pools (per process)."""
    if not _STATE:
        import periodictable
        from periodictable import core, mass, density
        T = subtable.new("c01-private")
        mass.init(T)
        density.init(T)
        # a private table that is an instance of a user subclass (pbt/subtable.py): undefined attributes are looked
        # up in the public table, iteration skips the neutron; half its densities differ from the public ones
        S = subtable.make("both", "c01-subclass")
        mass.init(S)
        density.init(S)
        for el in S:
            if el._density is not None and el.number % 2:
                el._density = el._density * 0.5
        _STATE["tables"] = {"public": periodictable.elements, "private": T, "subclass": S}
        _STATE["pool"] = Pool(periodictable.elements)
        _STATE["formula"] = periodictable.formula
        _STATE["emass"] = periodictable.constants.electron_mass
    return _STATE


# ----------------------------------------------------------------------
def natural_ratio(table, comp):
    """sum n*natural mass / sum n*actual mass, from element/isotope masses."""
    e = env()["emass"]
    nat = act = Fraction(0)
    for (z, a, c), n in comp.items():
        el = table[z]
        m_nat = el.mass - c * e
        m_act = (el[a].mass if a else el.mass) - c * e
        nat += n * Fraction(m_nat)
        act += n * Fraction(m_act)
    return float(nat / act)


def close(x, y, rel=1e-12):
    return x == y or abs(x - y) <= rel * max(abs(x), abs(y))


def check_valid(ctx, tree, which="public"):
    E = env()
    pool = E["pool"]
    table = E["tables"][which]
    s = fa.render(tree)
    comp = fa.composition(pool, tree)
    d = fa.tree_depth(tree)
    tagged = any((a[1][1] or a[1][2]) and fa.cval(a[3]) != 1 and
                 (fa.cval(g[1]) != 1) for a, g in fa.atoms_of(tree["g"]))
    cls = ["table:" + which, "depth:%d" % min(d, 5), "density:" + ("none" if tree["d"] is None else "@" + tree["d"][1])]
    cls += sorted(set("atom:" + spec_class(a[1]) for a, _ in fa.atoms_of(tree["g"])))
    ctx.case((which, s), nontrivial=(d >= 2 or tagged), sample={"table": which, "string": s}, cls=cls)
    case = {"kind": "valid", "table": which, "tree": tree, "string": s}
    try:
        f = E["formula"](s, table=table)
    except Exception as e:  # noqa
        fr = lib_frame(e.__traceback__) or "?"
        raise Violation("c01:valid-rejected:%s:%s" % (type(e).__name__, fr),
                        "%r raised %s: %s" % (s, type(e).__name__, str(e)[:200]), case)
    # parsing the same string again must give an equal, distinct formula
    f2 = E["formula"](s, table=table)
    if f2 is f or f2.structure != f.structure or f2.density != f.density:
        raise Violation("c01:reparse-differs", "%r parsed twice: %r density %r, then %r density %r%s"
                        % (s, f.structure, f.density, f2.structure, f2.density, " (same object)" if f2 is f else ""), case)
    got = {}
    for atom, n in f.atoms.items():
        k = atom_key(atom)
        if k in got:
            raise Violation("c01:identity", "%r: two objects for %r" % (s, k), case)
        got[k] = n
        if atom is not resolve_key(table, k):
            raise Violation("c01:identity", "%r: atom %r is not the object of table %s" % (s, atom, which), case)
    if set(got) != set(comp):
        raise Violation("c01:atoms", "%r: atoms %r expected %r" % (s, sorted(got), sorted(comp)), case)
    for k, v in comp.items():
        if v.denominator == 1 and all(_integral(c) for c in _counts(tree)):
            ok = got[k] == int(v)
        else:
            ok = close(float(got[k]), float(v))
        if not ok:
            raise Violation("c01:atoms", "%r: count of %r is %r expected %s" % (s, k, got[k], float(v)), case)
    q = float(fa.net_charge(comp))
    # the library sums count*charge in doubles: allow rounding relative to the size of the terms
    # (positive and negative ions of large count cancel), not relative to the net value
    qscale = float(sum(abs(v * k[2]) for k, v in comp.items()))
    if abs(float(f.charge) - q) > 1e-12 * max(qscale, 1.0):
        raise Violation("c01:charge", "%r: charge %r expected %r" % (s, f.charge, q), case)
    # density
    if tree["d"] is not None:
        dv = float(Fraction(tree["d"][0]))
        if tree["d"][1] == "n":
            dv = dv / natural_ratio(table, comp)
        if f.density is None or not close(float(f.density), dv, 1e-12):
            raise Violation("c01:density:@%s" % tree["d"][1],
                            "%r: density %r expected %r" % (s, f.density, dv), case)
    elif len(comp) == 1:
        (k,) = comp
        want = resolve_key(table, k).density
        if not (f.density == want or (want is not None and f.density is not None and close(f.density, want))):
            raise Violation("c01:density:single-atom", "%r: density %r expected %r" % (s, f.density, want), case)
    elif f.density is not None:
        raise Violation("c01:density:untagged", "%r: density %r expected None" % (s, f.density), case)


def _integral(c):
    return c is None or ("." not in c)


def _counts(tree):
    def walk(gs):
        for g in gs:
            if g[0] == "i":
                yield g[1]
                for a in g[2]:
                    yield a[3]
            else:
                yield g[3]
                for x in walk(g[1]):
                    yield x
    return list(walk(tree["g"]))


def resolve_key(table, k):
    z, a, c = k
    atom = table[z]
    if a:
        atom = atom[a]
    if c:
        atom = atom.ion[c]
    return atom


# ----------------------------------------------------------------------
# malformations
def tokens(tree):
    """Flat token list [text, role, info] of the rendering."""
    out = []

    def atom(a, last):
        _, (sym, iso, ch), one, cnt = a
        out.append([sym, "sym", a[1]])
        if iso:
            out.append(["[", "iso_open", None]); out.append([str(iso), "iso_num", None]); out.append(["]", "iso_close", None])
        if ch:
            mag = abs(ch)
            out.append(["{", "ion_open", None])
            out.append([(str(mag) if (mag != 1 or one) else "") + ("+" if ch > 0 else "-"), "ion_body", None])
            out.append(["}", "ion_close", None])
        if cnt is not None:
            out.append([cnt, "atom_count", None])

    def group(g):
        if g[0] == "i":
            if g[1] is not None:
                out.append([g[1], "lead_count", None])
            for a in g[2]:
                atom(a, False)
        else:
            _, gs, ss, cnt, pads = g
            out.append([pads[0] + "(" + pads[1], "open", None])
            groups(gs, ss)
            out.append([pads[2] + ")", "close", None])
            if cnt is not None:
                out.append([cnt, "grp_count", None])

    def groups(gs, ss):
        group(gs[0])
        for k in range(1, len(gs)):
            out.append([fa.fix_sep(gs[k - 1], gs[k], ss[k - 1]), "sep", None])
            group(gs[k])

    groups(tree["g"], tree["s"])
    if out and out[0][1] == "open":
        out[0][0] = out[0][0].lstrip(" ")
    if tree["d"] is not None:
        out.append(["@", "at", None])
        out.append([tree["d"][0], "dens_count", None])
        if tree["d"][1]:
            out.append([tree["d"][1], "dens_suffix", None])
    return out


KINDS = ["unknown-symbol", "undefined-isotope", "undefined-charge", "bracket", "count",
         "tag-order", "bad-tag", "density-tag", "non-ascii-digit"]

# decimal digits that are not [0-9]: int()/float()/\d accept the first four families (category Nd), the grammar does not
ALT_DIGITS = [0x0660, 0x06F0, 0x0966, 0xFF10, 0x1D7CE, 0x0E50]           # + d gives the digit d in that script
ALT_OTHER = {"1": "\u00b9", "2": "\u00b2", "3": "\u00b3", "4": "\u2074", "5": "\u2085", "0": "\u2080"}   # category No

BOGUS1 = list("AEGJMQRXZ")          # 'L' is a unit of the mixture grammar
BOGUS2 = ["Xx", "Jj", "Zz", "Qa", "Ab", "Ez", "Gg", "Mx", "Rr", "Xy"]


def malform(tree, kind, r):
    """Apply one malformation; *r* is a list of integers used for the choices
    (drawn by Hypothesis).  Returns (string, detail) or None if the kind does
    not apply to this tree."""
    E = env()
    pool = E["pool"]
    tk = tokens(tree)
    pick = lambda seq, i: seq[r[i] % len(seq)]
    idx = lambda role: [i for i, t in enumerate(tk) if t[1] in role]
    join = lambda: "".join(t[0] for t in tk)

    def atom_span(i):
        """token indices (tags) following sym token i that belong to the same atom"""
        j = i + 1
        while j < len(tk) and tk[j][1] in ("iso_open", "iso_num", "iso_close", "ion_open", "ion_body", "ion_close"):
            j += 1
        return j

    if kind == "unknown-symbol":
        i = pick(idx(("sym",)), 0)
        sym = tk[i][0]
        choices = BOGUS1 + BOGUS2
        low = sym[0].lower() + sym[1:]
        # not after a bare one-letter symbol: 'B'+'h...' would read as another symbol (HBH -> HBh = H Bh)
        glued = i > 0 and tk[i - 1][1] == "sym" and len(tk[i - 1][0]) == 1
        if not any(low.startswith(u) for u in UNITS) and not low.startswith("g") and not glued:
            choices = choices + [low, low]
        if len(sym) == 2:
            # a defined first letter followed by an undefined lower-case letter
            for c in "bqxjz":
                if sym[0] + c not in pool.info:
                    choices.append(sym[0] + c)
        new = pick(choices, 1)
        tk[i][0] = new
        return join(), "symbol %s -> %s" % (sym, new)

    if kind == "undefined-isotope":
        i = pick(idx(("sym",)), 0)
        sym, iso, ch = tk[i][2]
        j = atom_span(i)
        ion = "".join(t[0] for t in tk[i + 1:j] if t[1].startswith("ion"))
        if sym in DT:
            tag = "[%d]" % pick([1, 2, 3], 1)
        else:
            isos = pool.info[sym][1]
            lo, hi = (min(isos), max(isos)) if isos else (1, 1)
            cands = [a for a in list(range(max(1, lo - 3), hi + 4)) + [hi + 40, 999, 1] if a not in isos and a >= 1]
            variants = ["[%d]" % pick(cands, 1), "[0]", "[0%d]" % (isos[0] if isos else 5)]
            tag = variants[r[2] % 5] if r[2] % 5 < len(variants) else variants[0]
        tk[i + 1:j] = [[tag + ion, "x", None]]
        return join(), "isotope tag %s on %s" % (tag, sym)

    if kind == "undefined-charge":
        i = pick(idx(("sym",)), 0)
        sym, iso, ch = tk[i][2]
        j = atom_span(i)
        isot = "".join(t[0] for t in tk[i + 1:j] if t[1].startswith("iso"))
        ions = pool.info["H" if sym in DT else sym][2]
        cands = [c for c in range(-9, 10) if c != 0 and c not in ions]
        c = pick(cands, 1)
        v = "{%d%s}" % (abs(c), "+" if c > 0 else "-") if abs(c) != 1 or r[2] % 2 else "{%s}" % ("+" if c > 0 else "-")
        variants = [v, v, v, "{0+}", "{0-}", "{12+}", "{10-}"]
        tag = pick(variants, 3)
        tk[i + 1:j] = [[isot + tag, "x", None]]
        return join(), "ion tag %s on %s" % (tag, sym)

    if kind == "bracket":
        br = idx(("open", "close", "iso_open", "iso_close", "ion_open", "ion_close"))
        if br and r[1] % 4 != 3:
            i = pick(br, 0)
            if r[2] % 2:
                what = "delete %r" % tk[i][0].strip()
                tk[i][0] = tk[i][0].replace(tk[i][0].strip(), "", 1)
            else:
                what = "duplicate %r" % tk[i][0].strip()
                tk[i][0] = tk[i][0] + tk[i][0].strip()
            return join(), what
        # stray bracket at a token boundary that is not inside a tag
        ch = pick(list("()[]{}"), 2)
        bounds = [i for i, t in enumerate(tk) if t[1] in ("sym", "lead_count", "open", "sep", "at")] + [len(tk)]
        i = pick(bounds, 0)
        tk.insert(i, [ch, "x", None])
        return join(), "stray %r" % ch

    if kind == "count":
        cs = idx(("atom_count", "lead_count", "grp_count", "dens_count"))
        if not cs:
            return None
        i = pick(cs, 0)
        c = tk[i][0]
        nxt = tk[i + 1] if i + 1 < len(tk) else None
        end_like = (tk[i][1] in ("lead_count", "dens_count") or nxt is None or nxt[1] in ("close", "at")
                    or (nxt[1] == "sep" and "+" in nxt[0]))
        opts = ["0" + c if c[0].isdigit() else "00" + c, "-" + c, c + "e3", c + "E2", "00" + c.lstrip("0")]
        if end_like:
            opts += [(c if "." in c else c + ".5") + ".5", c + "..", ("1" + c if c.startswith(".") else c) + "." + "."]
        new = pick(opts, 1)
        tk[i][0] = new
        return join(), "count %s -> %s" % (c, new)

    if kind == "non-ascii-digit":
        # one digit of a count, isotope number, charge or density value written in another script
        cs = [i for i in idx(("atom_count", "lead_count", "grp_count", "dens_count", "iso_num", "ion_body"))
              if any(ch in "0123456789" for ch in tk[i][0])]
        if not cs:
            return None
        i = pick(cs, 0)
        c = tk[i][0]
        pos = [k for k, ch in enumerate(c) if ch in "0123456789"]
        k = pick(pos, 1)
        fam = r[2] % (len(ALT_DIGITS) + 1)
        if fam < len(ALT_DIGITS):
            new_ch = chr(ALT_DIGITS[fam] + int(c[k]))
        else:
            new_ch = ALT_OTHER.get(c[k], chr(0xFF10 + int(c[k])))
        new = c[:k] + new_ch + c[k + 1:]
        tk[i][0] = new
        return join(), "digit %r of %s %r written as U+%04X" % (c[k], tk[i][1], c, ord(new_ch))

    if kind == "tag-order":
        cands = [i for i in idx(("sym",)) if tk[i][2][0] in pool.with_both]
        if not cands:
            return None
        i = pick(cands, 0)
        sym = tk[i][2][0]
        a = pick(pool.info[sym][1], 1)
        c = pick(pool.info[sym][2], 2)
        j = atom_span(i)
        tag = "{%s%s}[%d]" % ("" if abs(c) == 1 else abs(c), "+" if c > 0 else "-", a)
        tk[i + 1:j] = [[tag, "x", None]]
        return join(), "ion tag before isotope tag: %s%s" % (sym, tag)

    if kind == "bad-tag":
        i = pick(idx(("sym",)), 0)
        j = atom_span(i)
        tag = pick(["[]", "[x]", "[1.5]", "[-1]", "[+]", "{}", "{x}", "{2}", "{+-}", "{++}", "{2+3}", "{.5+}", "[1,2]"], 1)
        tk[i + 1:j] = [[tag, "x", None]]
        return join(), "tag %s" % tag

    if kind == "density-tag":
        body = [t for t in tk if t[1] not in ("at", "dens_count", "dens_suffix")]
        tag = pick(["@", "@n", "@i", "@-1", "@x", "@1x", "@1.5k", "@1@2", "@1n2", "@@1", "@0", "@01", "@1nn", "@1ni",
                    "@1.2.3", "@+1"], 1)
        return "".join(t[0] for t in body) + tag, "density tag %s" % tag
    raise ValueError(kind)


def check_malformed(ctx, value, which="public"):
    tree, kind, r = value
    E = env()
    m = malform(tree, kind, r)
    if m is None:
        ctx.count("malformation-not-applicable")
        return
    s, detail = m
    ctx.case((which, "bad", s), nontrivial=True, sample={"table": which, "string": s, "malformation": detail},
             cls=["malformed:" + kind, "table:" + which])
    f = None
    for attempt in (1, 2):
        # the second submission of the same malformed string must be rejected as well
        # (a rejected parse must not leave anything behind that makes the string acceptable)
        try:
            f = E["formula"](s, table=E["tables"][which])
        except Exception:  # noqa  (any exception is a rejection)
            continue
        break
    if f is None:
        return
    sub = kind
    if kind == "density-tag":
        sub = kind + ":" + ("missing-number" if detail.split()[-1] in ("@", "@n", "@i") else "other")
    if attempt == 2:
        sub += ":second-submission"
    raise Violation("c01:accepted:" + sub,
                    "%r (%s) was accepted as %r density=%r" % (s, detail, f.structure, f.density),
                    {"kind": "malformed", "table": which, "tree": tree, "malformation": kind, "r": r, "string": s})


# ----------------------------------------------------------------------
ORDERS = [["public", "private"], ["private", "public"], ["public"], ["private"], ["public", "subclass"], ["subclass", "private"]]


def task_valid(ctx, n, depth, tower=0):
    E = env()
    pool = E["pool"]
    strat = fa.compound(pool, depth=depth) if not tower else fa.tower(pool, tower)
    strat = st.tuples(strat, st.sampled_from(ORDERS))

    def fn(c, v):
        for which in v[1]:
            check_valid(c, v[0], which)
    ctx.search("valid", strat, fn, n)


SCALES = [1.0, 1.0 / 1.00782503223, 0.5, 2.0, 1.25]


def custom_table():
    """A private table whose data the check customises (doc/sphinx/guide/customizing.rst), with its pristine values."""
    E = env()
    if "custom" not in E["tables"]:
        from periodictable import core, mass, density
        T = subtable.new("c01-custom")
        mass.init(T)
        density.init(T)
        pristine = []
        for el in T:
            pristine.append((el, el._mass, el._density, 0))
            for iso in el:
                pristine.append((iso, iso._mass, None, 1))
        E["tables"]["custom"] = T
        E["pristine"] = pristine
    return E["tables"]["custom"]


def set_scale(km, ki, kd):
    """element masses x km, isotope masses x ki, element densities x kd (relative to the pristine values)"""
    for obj, m, d, isiso in env()["pristine"]:
        obj._mass = m * (ki if isiso else km)
        if d is not None:
            obj._density = d * kd


def check_custom(ctx, value):
    """value = (tree, [[km, kd], ...]): parse the same rendering after each customisation step."""
    tree, steps = value
    custom_table()
    try:
        for i, (km, ki, kd) in enumerate(steps):
            set_scale(km, ki, kd)
            try:
                check_valid(ctx, tree, "custom")
            except Violation as v:
                raise Violation(v.bucket + (":after-customising" if i else ""),
                                v.message + " [table customised: element masses x%r, isotope masses x%r, densities x%r, step %d]"
                                % (km, ki, kd, i),
                                {"kind": "custom", "tree": tree, "steps": steps, "string": fa.render(tree)})
    finally:
        set_scale(1.0, 1.0, 1.0)


def task_custom(ctx, n, depth):
    E = env()
    pool = E["pool"]
    # lone atoms and '@dn' tags are where the table's data enter the density: weight them up
    lone = fa.compound(pool, depth=0, max_groups=1, max_atoms=1)
    strat = st.tuples(st.one_of(fa.compound(pool, depth=depth), lone),
                      st.lists(st.tuples(st.sampled_from(SCALES), st.sampled_from(SCALES), st.sampled_from(SCALES)).map(list),
                               min_size=2, max_size=3))

    def fn(c, v):
        check_custom(c, v)
    ctx.search("customised", strat, fn, n)


def task_malformed(ctx, n):
    E = env()
    pool = E["pool"]
    strat = st.tuples(fa.compound(pool, depth=2), st.sampled_from(KINDS),
                      st.lists(st.integers(0, 10**6), min_size=4, max_size=4), st.sampled_from(ORDERS))

    def fn(c, v):
        for which in v[3]:
            check_malformed(c, v[:3], which)
    ctx.search("malformed", strat, fn, n)


def check_mixed(ctx, value):
    """value = (valid tree, tree to malform, kind, r, [table of the rejected string, table of the valid one], echo):
    a string that is rejected (and whose rejection the caller catches) must leave nothing behind: the valid string
    parsed right after it, on the same or on the other table, denotes what its own tree says.  With *echo* the valid
    string is the well-formed original of the rejected one."""
    tree, bad, kind, r, (w_bad, w_ok), echo = value
    E = env()
    try:
        check_malformed(ctx, (bad, kind, r), w_bad)
    except Violation as v:
        v.case = {"kind": "mixed", "value": value}
        raise
    try:
        check_valid(ctx, bad if echo else tree, w_ok)
    except Violation as v:
        m = malform(bad, kind, r)
        raise Violation(v.bucket + ":after-rejected-string",
                        v.message + " [parsed right after the rejected string %r on the %s table]"
                        % (m[0] if m else None, w_bad), {"kind": "mixed", "value": value})


def task_mixed(ctx, n, depth):
    E = env()
    pool = E["pool"]
    strat = st.tuples(fa.compound(pool, depth=depth), fa.compound(pool, depth=2), st.sampled_from(KINDS),
                      st.lists(st.integers(0, 10**6), min_size=4, max_size=4),
                      st.sampled_from([["public", "public"], ["private", "private"], ["public", "private"],
                                       ["private", "public"]]), st.booleans()).map(list)
    ctx.search("mixed", strat, check_mixed, n)


def tasks(tier):
    from .. import depth
    return _tasks(tier) + [("little-stack", depth.task, dict(prop=PROPERTY))]


def _tasks(tier):
    if tier == "quick":
        return [("valid-a", task_valid, dict(n=1000, depth=3)),
                ("mixed", task_mixed, dict(n=400, depth=2)),
                ("valid-b", task_valid, dict(n=1000, depth=2)),
                ("deep", task_valid, dict(n=250, depth=0, tower=12)),
                ("customised", task_custom, dict(n=500, depth=2)),
                ("malformed-a", task_malformed, dict(n=1000)),
                ("malformed-b", task_malformed, dict(n=1000))]
    out = []
    for k in range(8):
        out.append(("valid-%d" % k, task_valid, dict(n=12000, depth=2 + k % 4)))
    out.append(("deep-0", task_valid, dict(n=3000, depth=0, tower=40)))
    out.append(("deep-1", task_valid, dict(n=3000, depth=0, tower=25)))
    for k in range(5):
        out.append(("malformed-%d" % k, task_malformed, dict(n=15000)))
    out.append(("customised", task_custom, dict(n=8000, depth=3)))
    out.append(("mixed-0", task_mixed, dict(n=10000, depth=2)))
    out.append(("mixed-1", task_mixed, dict(n=10000, depth=3)))
    # coverage-guided tier (pbt/fuzz.py): libFuzzer drives the same strategies and oracles
    from .. import fuzz
    fuzz.extend(out, PROPERTY, ["valid-1", "malformed-0"])
    return out


def replay(ctx, case):
    if isinstance(case, dict) and case.get("kind") == "little-stack":
        from .. import depth
        return depth.check(ctx, case)
    if case["kind"] == "mixed":
        check_mixed(ctx, case["value"])
    elif case["kind"] == "custom":
        check_custom(ctx, (case["tree"], case["steps"]))
    elif case["kind"] == "valid":
        check_valid(ctx, case["tree"], case.get("table", "public"))
    else:
        check_malformed(ctx, (case["tree"], case["malformation"], case["r"]), case.get("table", "public"))
