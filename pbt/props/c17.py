"""
C17 - neutron_composite_sld(materials, wavelength)(weights, density) equals the
direct neutron_sld of the formula sum_i w_i * material_i at that density.

The oracle is the relation the property states (calculator vs direct
calculation); the weighted sum is accumulated here as a {atom: count} dict, not
with formula arithmetic.  The reference calculator supplies only the operand
scales for the absolute floor (both sides clip sigma_s - sigma_c at zero).
"""
from hypothesis import strategies as st

from ..runner import Violation
from ..guards import unchanged
from .. import formula_ast as fa
from .. import neutron_c03 as ng
from ..refcalc_neutron import OUTPUTS

PROPERTY = "C17"
RULE = ("1-6 materials drawn (with repeats) from 1-4 generated compounds (flat dicts or rendered derivation trees over "
        "atoms with neutron data; energy dependent atoms 5/17 of the atom draws), weights = 0 | 1..12 | 1e-9..1e6 "
        "(all-zero vectors included, integer and float arrays), density = 0 | (0, 25], wavelength scalar / length-1 / "
        "length-n list or array in [0.05, 50] A. oracle = neutron_sld({atom: sum_i w_i n_ik}, density, wavelength): "
        "three outputs at rel 1e-10 + 2e-13 x operand scale; scalar output for scalar wavelength, wavelength's shape "
        "otherwise; zero total weight or zero density -> all three equal 0. non-trivial = (>= 2 materials with a zero "
        "weight among them) or (sigma_s - sigma_c clips at 0 at some wavelength) or (energy dependent atom with vector "
        "wavelength of length >= 2); distinct by (materials, weights, density, wavelength).")
ASSUMPTIONS = [
    "weights are passed as a numpy vector (docstring: 'takes a vector of weights'), materials as Formula objects",
    "the direct calculation itself is tied to the documented equations by C03",
    "the zero case is 'equal to zero under broadcasting' (the calculator documents scalar zeros)",
]

SLD = OUTPUTS[:3]


def check_composite(ctx, v):
    E = ng.env()
    np, pt, R, nsf = E["np"], E["pt"], E["ref"], E["nsf"]
    built = [ng.build_compound(c) for c in v["compounds"]]
    idx = v["materials"]
    mats = [pt.formula(built[i % len(built)][0]) for i in idx]
    comps = [built[i % len(built)][1] for i in idx]
    specs = [s for i in idx for s in built[i % len(built)][2]]
    w = [v["weights"][j % len(v["weights"])] for j in range(len(mats))]
    if v["allzero"]:
        w = [0 for _ in w]
    rho = v["density"]
    wv = v["wl"]
    lams = wv["lams"]
    if wv["form"] == "scalar":
        arg, shape, lams = lams[0], (), lams[:1]
    elif wv["form"] == "list":
        arg, shape = list(lams), (len(lams),)
    else:
        arg, shape = np.array(lams, dtype=float), (len(lams),)
    integral = all(float(x) == int(x) for x in w)
    weights = np.array([int(x) for x in w]) if (integral and v["intw"]) else np.array(w, dtype=float)

    # the weighted sum, atom by atom
    total, objs = {}, {}
    for m, cmp_, wi in zip(mats, comps, w):
        for atom, n in m.atoms.items():
            objs[atom] = objs.get(atom, 0.0) + float(wi) * n
        for k, n in cmp_.items():
            total[k] = total.get(k, 0.0) + float(wi) * n
    mass = sum(n * R.atom(k)[0] for k, n in total.items())
    zero = (mass == 0) or rho == 0
    edep = ng.has_edep(dict((k, n) for k, n in total.items() if n))
    clips = False
    floors = []
    if not zero:
        nz = dict((k, n) for k, n in total.items())
        for lam in lams:
            ref, f = R.scattering(nz, rho, lam, E["axis"])
            floors.append(f)
            clips = clips or ref["sigma_i"] <= f["sigma_i"]
    nt = (len(mats) >= 2 and any(x == 0 for x in w)) or clips or (edep and len(lams) >= 2 and shape != ())
    cls = ng.comp_classes(specs, total) + ["materials:%d" % len(mats), "wl:" + wv["form"] + (":%d" % min(len(lams), 3)),
                                           "zero:" + ("all-weights" if not any(w) else "density" if rho == 0 else "no"),
                                           "weights:" + ("some-zero" if any(x == 0 for x in w) and any(w) else "other"),
                                           "weights-dtype:" + str(weights.dtype), "repeated-material:" + str(len(set(i % len(built) for i in idx)) < len(idx)),
                                           "inc-clips:" + str(bool(clips))]
    desc = {"materials": [str(m) for m in mats], "weights": w, "density": rho, "wavelength": wv}
    ctx.case((str(desc),), nontrivial=nt, sample=desc, cls=cls)
    case = dict(v, kind="composite")

    with unchanged("c17", None, wavelength=arg, weights=weights):
        calc = nsf.neutron_composite_sld(mats, wavelength=arg)
        got = calc(weights, density=rho)
    if not (isinstance(got, tuple) and len(got) == 3):
        raise Violation("c17:result-form", "calculator returned %r" % (got,), case)
    if zero:
        for o, g in zip(SLD, got):
            if not bool(np.all(np.asarray(g) == 0)):
                raise Violation("c17:zero:%s" % o, "zero %s but %s = %r" % ("density" if rho == 0 else "total weight", o, g), case)
            if np.shape(g) not in ((), shape):
                raise Violation("c17:zero:shape", "%s has shape %r" % (o, np.shape(g)), case)
        return
    direct = pt.neutron_sld(objs, density=rho, wavelength=arg)
    for o, g, d in zip(SLD, got, direct):
        ng.check_shape("c17", o, g, shape, case)
        gg = np.asarray(g, dtype=float).reshape(-1)
        dd = np.asarray(d, dtype=float).reshape(-1)
        for i in range(len(lams)):
            x, y = float(gg[i]), float(dd[i])
            if not abs(x - y) <= 1e-10 * max(abs(x), abs(y)) + 2.0 * floors[i][o]:
                raise Violation("c17:%s:%s" % (o, "edep" if edep else "ordinary"),
                                "%s: calculator %r, direct neutron_sld %r at %r A (weights %r, density %r)"
                                % (o, x, y, lams[i], w, rho), case)
            if o != "sld_re" and not x >= 0:
                raise Violation("c17:negative:%s" % o, "%s = %r" % (o, x), case)
    # the calculator is reusable: a second call with other weights does not see the first
    w2 = [x * 2.0 + 1.0 for x in w]
    got2 = calc(np.array(w2, dtype=float), density=rho)
    got1 = calc(weights, density=rho)
    for o, a, b in zip(SLD, got, got1):
        if not bool(np.all(np.asarray(a) == np.asarray(b))):
            raise Violation("c17:stateful", "%s changed between two identical calls: %r then %r" % (o, a, b), case)


def strat():
    ng.env()
    small = st.one_of(ng.flat_compound(max_atoms=4), ng.tree_compound(depth=1, max_groups=2, max_atoms=3))
    weight = st.one_of(st.integers(1, 12), st.integers(1, 12), st.integers(1, 12),
                       st.floats(-9, 6).map(lambda x: float("%.6g" % 10 ** x)),
                       st.floats(-9, 6).map(lambda x: float("%.6g" % 10 ** x)),
                       st.floats(-2, 2).map(lambda x: float("%.6g" % 10 ** x)), st.just(0))
    lam = ng.one_wavelength()
    wl = st.tuples(st.sampled_from(["scalar", "list", "array", "list"]),
                   st.one_of(st.lists(lam, min_size=1, max_size=1), st.lists(lam, min_size=2, max_size=6),
                             st.lists(lam, min_size=2, max_size=4))).map(lambda t: {"form": t[0], "lams": t[1]})
    idx = st.integers(0, 11)
    rho = ng.density_value()
    return st.fixed_dictionaries({
        "compounds": st.lists(small, min_size=1, max_size=4),
        "materials": st.one_of(st.lists(idx, min_size=1, max_size=6), st.lists(idx, min_size=2, max_size=6),
                               st.lists(idx, min_size=3, max_size=6)),
        "weights": st.lists(weight, min_size=6, max_size=6),
        "allzero": st.sampled_from([False] * 15 + [True]),
        "intw": st.booleans(),
        "density": st.one_of(rho, rho, rho, rho, rho, rho, rho, rho, rho, rho, st.sampled_from([0, 0.0])),
        "wl": wl,
    })


def task_composite(ctx, n):
    ctx.search("composite", strat(), check_composite, n)


def tasks(tier):
    if tier == "quick":
        return [("composite-%d" % k, task_composite, dict(n=600)) for k in range(5)]
    return [("composite-%d" % k, task_composite, dict(n=10000)) for k in range(16)]


def replay(ctx, case):
    check_composite(ctx, case)
