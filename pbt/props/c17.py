"""
C17 - neutron_composite_sld(materials, wavelength)(weights, density) equals the
direct neutron_sld of the formula sum_i w_i * material_i at that density.

The oracle is the relation the property states (calculator vs direct
calculation); the weighted sum is accumulated here as a {atom: count} dict, not
with formula arithmetic.  The reference calculator supplies only the operand
scales for the absolute floor (both sides clip sigma_s - sigma_c at zero).
"""
from hypothesis import strategies as st

from ..runner import Violation
from ..guards import unchanged
from .. import formula_ast as fa
from .. import neutron_c03 as ng
from ..refcalc_neutron import OUTPUTS

PROPERTY = "C17"
RULE = ("1-6 materials drawn (with repeats) from 1-4 generated compounds (flat dicts or rendered derivation trees of nesting "
        "depth up to 3, several fragments with parenthesised groups and counts != 1, over "
        "atoms with neutron data; energy dependent atoms 5/17 of the atom draws), weights = 0 | 1..12 | 1e-9..1e6 "
        "(all-zero vectors included, integer and float arrays), density = 0 | (0, 25], wavelength scalar (float, int, np.int64) / length-1 / "
        "length-n list, tuple or array in [0.05, 50] A, also integer-valued lists/tuples/int32/int64 arrays. oracle = the direct calculation done two ways that must agree (bucket "
        "c17:direct:arithmetic-vs-composition): (a) neutron_sld of the library's own formula arithmetic sum_i w_i*material_i, "
        "(b) neutron_sld({atom: sum_i w_i n_ik}) with the composition of every material taken from this module's tree/dict "
        "semantics, not from Formula.atoms; calculator vs both: "
        "three outputs at rel 1e-10 + 2e-13 x operand scale; scalar output for scalar wavelength, wavelength's shape "
        "otherwise; zero total weight or zero density -> all three equal 0. Then 1-3 further calls of the SAME "
        "calculator with the SAME weights ndarray modified in place (set an element, scale, zero one/all) or with only "
        "the density changed, each judged against the direct calculation for the current values; the library must not "
        "modify the weights/wavelength arguments; every array returned by an earlier call must still equal the copy taken "
        "when it was returned, and outputs of different calls, the three components of one result and the caller's "
        "arrays must not share memory. non-trivial = (>= 2 materials with a zero "
        "weight among them) or (sigma_s - sigma_c clips at 0 at some wavelength) or (energy dependent atom with vector "
        "wavelength of length >= 2) or an in-place weight change in the sequence; distinct by (materials, weights, density, wavelength, steps).")
ASSUMPTIONS = [
    "weights are passed as a numpy vector (docstring: 'takes a vector of weights'), materials as Formula objects",
    "the direct calculation itself is tied to the documented equations by C03",
    "the zero case is 'equal to zero under broadcasting' (the calculator documents scalar zeros)",
]

SLD = OUTPUTS[:3]


def _wavelength_arg(np, wv):
    """(argument, expected shape, wavelengths the oracle uses); integer forms carry whole Angstroms"""
    form = wv["form"]
    lams = wv["lams"][:1] if form in ng.SCALAR_FORMS else wv["lams"]
    vals, ref = ng.wl_values(form, "wavelength", lams)
    arg, shape = ng.wl_object(form, vals)
    return arg, shape, ref


def apply_step(np, weights, rho, step):
    """One step of a calling sequence: modify the caller's weights array IN PLACE (or change
    only the density).  Returns the density of the next call."""
    op = step[0]
    integer = weights.dtype.kind in "iu"
    if op == "set":
        k, val = step[1] % len(weights), step[2]
        weights[k] = int(-(-val // 1)) if integer else val
    elif op == "scale":
        f = step[1]
        if integer:
            weights *= max(2, int(round(f)))
        else:
            weights *= f
    elif op == "zero":
        weights[:] = 0
    elif op == "zero-one":
        weights[step[1] % len(weights)] = 0
    elif op == "density":
        return step[1]
    elif op == "same":
        pass
    else:
        raise ValueError(op)
    return rho


def judge(call, mats, comps, got, weights, rho, arg, shape, lams, case):
    """One calculator result against the direct calculation for the CURRENT weights and density.
    Returns (clips, zero)."""
    E = ng.env()
    np, pt, R = E["np"], E["pt"], E["ref"]
    w = [float(x) for x in weights]
    if not (isinstance(got, tuple) and len(got) == 3):
        raise Violation("c17:result-form", "%s: calculator returned %r" % (call, got), case)
    # (b) the weighted sum, atom by atom, from this module's own composition of every material
    # (derivation tree / dict), never from Formula.atoms
    from ..atoms import key_to_atom
    total = {}
    for cmp_, wi in zip(comps, w):
        for k, n in cmp_.items():
            total[k] = total.get(k, 0.0) + wi * n
    objs = dict((key_to_atom(E["table"], k), n) for k, n in total.items())
    mass = sum(n * R.atom(k)[0] for k, n in total.items())
    seq = "" if call == "call 1" else ":sequence"
    if mass == 0 or rho == 0:
        for o, g in zip(SLD, got):
            if not bool(np.all(np.asarray(g) == 0)):
                raise Violation("c17:zero:%s%s" % (o, seq), "%s: zero %s but %s = %r (weights %r, density %r)"
                                % (call, "density" if rho == 0 else "total weight", o, g, w, rho), case)
            if np.shape(g) not in ((), shape):
                raise Violation("c17:zero:shape", "%s: %s has shape %r" % (call, o, np.shape(g)), case)
        return False, True
    edep = ng.has_edep(dict((k, n) for k, n in total.items() if n))
    clips = False
    floors = []
    for lam in lams:
        ref, f = R.scattering(total, rho, lam, E["axis"])
        floors.append(f)
        clips = clips or ref["sigma_i"] <= f["sigma_i"]
    direct = pt.neutron_sld(objs, density=rho, wavelength=arg)
    # (a) the statement of the property: the library's own formula arithmetic sum_i w_i * material_i
    fsum = None
    for m, wi in zip(mats, weights.tolist()):
        term = wi * m
        fsum = term if fsum is None else fsum + term
    arith = pt.neutron_sld(fsum, density=rho, wavelength=arg)
    for o, a_, d in zip(SLD, arith, direct):
        ng.check_shape("c17:direct", o, a_, shape, case)
        aa = np.asarray(a_, dtype=float).reshape(-1)
        dd = np.asarray(d, dtype=float).reshape(-1)
        for i in range(len(lams)):
            x, y = float(aa[i]), float(dd[i])
            if not abs(x - y) <= 1e-10 * max(abs(x), abs(y)) + 2.0 * floors[i][o]:
                raise Violation("c17:direct:arithmetic-vs-composition",
                                "%s: %s: neutron_sld(sum w_i*material_i = %s) gives %r, neutron_sld of the merged "
                                "composition {atom: sum w_i n_i} gives %r at %r A (weights %r, density %r)"
                                % (call, o, fsum, x, y, lams[i], w, rho), case)
    for o, g, d in zip(SLD, got, direct):
        ng.check_shape("c17", o, g, shape, case)
        gg = np.asarray(g, dtype=float).reshape(-1)
        dd = np.asarray(d, dtype=float).reshape(-1)
        for i in range(len(lams)):
            x, y = float(gg[i]), float(dd[i])
            if not abs(x - y) <= 1e-10 * max(abs(x), abs(y)) + 2.0 * floors[i][o]:
                raise Violation("c17:%s:%s%s" % (o, "edep" if edep else "ordinary", seq),
                                "%s: %s: calculator %r, direct neutron_sld %r at %r A (current weights %r, density %r)"
                                % (call, o, x, y, lams[i], w, rho), case)
            if o != "sld_re" and not x >= 0:
                raise Violation("c17:negative:%s" % o, "%s: %s = %r" % (call, o, x), case)
    return clips, False


def check_composite(ctx, v):
    E = ng.env()
    np, pt, R, nsf = E["np"], E["pt"], E["ref"], E["nsf"]
    built = [ng.build_compound(c) for c in v["compounds"]]
    idx = v["materials"]
    mats = [pt.formula(built[i % len(built)][0]) for i in idx]
    comps = [built[i % len(built)][1] for i in idx]
    specs = [s for i in idx for s in built[i % len(built)][2]]
    w = [v["weights"][j % len(v["weights"])] for j in range(len(mats))]
    if v["allzero"]:
        w = [0 for _ in w]
    rho = v["density"]
    wv = v["wl"]
    arg, shape, lams = _wavelength_arg(np, wv)
    integral = all(float(x) == int(x) for x in w)
    weights = np.array([int(x) for x in w]) if (integral and v["intw"]) else np.array(w, dtype=float)
    steps = v.get("steps", [])

    total = {}
    for cmp_, wi in zip(comps, w):
        for k, n in cmp_.items():
            total[k] = total.get(k, 0.0) + float(wi) * n
    edep = ng.has_edep(dict((k, n) for k, n in total.items() if n))
    case = dict(v, kind="composite")

    with unchanged("c17", case, wavelength=arg, weights=weights):
        calc = nsf.neutron_composite_sld(mats, wavelength=arg)
        got = calc(weights, density=rho)
    keep = ng.Retained("c17", case, foreign=[("weights", weights), ("wavelength", arg)])
    if isinstance(got, tuple):
        keep.add("call 1", list(zip(SLD, got)))
    clips, zero = judge("call 1", mats, comps, got, weights, rho, arg, shape, lams, case)

    nt = (len(mats) >= 2 and any(x == 0 for x in w)) or clips or (edep and len(lams) >= 2 and shape != ()) \
        or any(s[0] in ("set", "scale", "zero", "zero-one") for s in steps)
    cls = ng.comp_classes(specs, total) + ["materials:%d" % len(mats), "wl:" + wv["form"] + (":%d" % min(len(lams), 3)),
                                           "zero:" + ("all-weights" if not any(w) else "density" if rho == 0 else "no"),
                                           "weights:" + ("some-zero" if any(x == 0 for x in w) and any(w) else "other"),
                                           "weights-dtype:" + str(weights.dtype), "repeated-material:" + str(len(set(i % len(built) for i in idx)) < len(idx)),
                                           "inc-clips:" + str(bool(clips)), "calls:%d" % (1 + len(steps))]
    cls += sorted(set("step:" + s[0] for s in steps))
    desc = {"materials": [str(m) for m in mats], "weights": w, "density": rho, "wavelength": wv, "then": steps}
    ctx.case((str(desc),), nontrivial=nt, sample=desc, cls=cls)

    # the same calculator and the SAME weights array, modified in place between the calls
    rho_k = rho
    for n, step in enumerate(steps):
        rho_k = apply_step(np, weights, rho_k, step)
        with unchanged("c17", case, wavelength=arg, weights=weights):
            got_k = calc(weights, density=rho_k)
        if isinstance(got_k, tuple):
            keep.add("call %d" % (n + 2), list(zip(SLD, got_k)))
        judge("call %d (after %r on the same weights array)" % (n + 2, step), mats, comps, got_k, weights, rho_k,
              arg, shape, lams, case)

    # a fresh array with the first weights gives the first answer again
    if not zero:
        first = [np.array(x, copy=True) for x in got]
        got1 = calc(np.array(w, dtype=weights.dtype), density=rho)
        keep.add("the final call", list(zip(SLD, got1)))
        got = tuple(first)                  # what call 1 returned, as it was when returned
        for o, a, b in zip(SLD, got, got1):
            if not bool(np.all(np.asarray(a) == np.asarray(b))):
                raise Violation("c17:stateful", "%s differs between the first call and a later call with equal "
                                "weights and density: %r then %r" % (o, a, b), case)
    keep.verify("at the end of the sequence")

    # a long contrast scan on the one calculator (hundreds of distinct weight vectors and densities), then the first
    # points again: what the calculator answered early it answers late
    if v.get("scan") and not zero and len(mats) >= 2:
        base = np.array([float(x) for x in w], dtype=float)
        firsts = []
        for k in range(v["scan"]):
            wk = base.copy()
            wk[k % len(wk)] = base[k % len(wk)] * (1.0 + 0.01 * (k + 1))
            rk = calc(wk, density=rho * (1.0 + 0.001 * (k % 5)))
            if k < 3:
                firsts.append((wk, rho * (1.0 + 0.001 * (k % 5)), [np.array(x, copy=True) for x in rk]))
        ctx.count("long-scan-on-one-calculator", v["scan"])
        for wk, rk_rho, then in firsts:
            judge("an early point of a %d-point scan, asked again at the end" % v["scan"], mats, comps,
                  calc(wk.copy(), density=rk_rho), wk, rk_rho, arg, shape, lams, dict(case, phase="scan-revisit"))
    # materials DERIVED from Formula objects that a calculator has already used (k*m, m+m', copies, pickle round
    # trips) are materials in their own right: a new calculator over them equals the direct calculation of THEIR sum
    der = v.get("derive")
    if der:
        import copy
        import pickle
        mats2, comps2, how = [], [], []
        for j, (m, c) in enumerate(zip(mats, comps)):
            op = der[j % len(der)]
            how.append(op[0])
            if op[0] == "mul":
                mats2.append(op[1] * m)
                comps2.append(dict((k, op[1] * n) for k, n in c.items()))
            elif op[0] == "add":
                j2 = op[1] % len(mats)
                mats2.append(m + mats[j2])
                merged = dict(c)
                for k, n in comps[j2].items():
                    merged[k] = merged.get(k, 0.0) + n
                comps2.append(merged)
            else:
                mats2.append({"copy": copy.copy, "deepcopy": copy.deepcopy,
                              "pickle": lambda x: pickle.loads(pickle.dumps(x)), "same": lambda x: x}[op[0]](m))
                comps2.append(c)
        w2 = np.array([float(x) for x in w], dtype=float)
        calc2 = nsf.neutron_composite_sld(mats2, wavelength=arg)
        got2 = calc2(w2, density=rho)
        ctx.count("derived-materials:" + "+".join(sorted(set(how))))
        judge("second calculator over materials derived from the first one's (%s)" % ", ".join(how), mats2, comps2, got2,
              w2, rho, arg, shape, lams, dict(case, phase="derived"))
        # and the first calculator still answers as before
        if not zero:
            got3 = calc(np.array(w, dtype=weights.dtype), density=rho)
            for o, a, b in zip(SLD, got, got3):
                if not bool(np.all(np.asarray(a) == np.asarray(b))):
                    raise Violation("c17:stateful", "%s of the first calculator changed after materials were derived from "
                                    "its materials: %r then %r" % (o, a, b), case)


def strat():
    ng.env()
    small = st.one_of(ng.flat_compound(max_atoms=4), ng.tree_compound(depth=1, max_groups=2, max_atoms=3),
                      ng.tree_compound(depth=2, max_groups=3, max_atoms=3), ng.tree_compound(depth=3, max_groups=3, max_atoms=2))
    weight = st.one_of(st.integers(1, 12), st.integers(1, 12), st.integers(1, 12),
                       st.floats(-9, 6).map(lambda x: float("%.6g" % 10 ** x)),
                       st.floats(-9, 6).map(lambda x: float("%.6g" % 10 ** x)),
                       st.floats(-2, 2).map(lambda x: float("%.6g" % 10 ** x)), st.just(0))
    lam = ng.one_wavelength()
    wl = st.tuples(st.sampled_from(["scalar", "list", "array", "list", "scalar", "int", "np.int64", "tuple",
                                    "intlist", "intlist", "intarray32", "intarray64", "inttuple"]),
                   st.one_of(st.lists(lam, min_size=1, max_size=1), st.lists(lam, min_size=2, max_size=6),
                             st.lists(lam, min_size=2, max_size=4))).map(lambda t: {"form": t[0], "lams": t[1]})
    idx = st.integers(0, 11)
    rho = ng.density_value()
    wval = st.one_of(st.integers(1, 12), st.floats(-3, 3).map(lambda x: float("%.6g" % 10 ** x)))
    step = st.one_of(st.tuples(st.just("set"), st.integers(0, 5), wval), st.tuples(st.just("set"), st.integers(0, 5), wval),
                     st.tuples(st.just("scale"), st.sampled_from([0.5, 2.0, 3.0, 0.125, 10.0])),
                     st.tuples(st.just("zero-one"), st.integers(0, 5)), st.tuples(st.just("zero")),
                     st.tuples(st.just("density"), rho), st.tuples(st.just("same"))).map(list)
    return st.fixed_dictionaries({
        "compounds": st.lists(small, min_size=1, max_size=4),
        "materials": st.one_of(st.lists(idx, min_size=1, max_size=6), st.lists(idx, min_size=2, max_size=6),
                               st.lists(idx, min_size=3, max_size=6)),
        "weights": st.lists(weight, min_size=6, max_size=6),
        "allzero": st.sampled_from([False] * 15 + [True]),
        "intw": st.booleans(),
        "density": st.one_of(rho, rho, rho, rho, rho, rho, rho, rho, rho, rho, st.sampled_from([0, 0.0])),
        "wl": wl,
        "steps": st.lists(step, min_size=1, max_size=3),
        "scan": st.sampled_from([None, None, None, None, None, 300, 600]),
        "derive": st.one_of(st.none(), st.lists(st.one_of(
            st.tuples(st.just("mul"), st.sampled_from([2, 3, 5, 0.5, 2.5, 10, 0.125])),
            st.tuples(st.just("mul"), st.sampled_from([2, 3, 5, 0.5, 2.5, 10, 0.125])),
            st.tuples(st.just("add"), st.integers(0, 5)),
            st.tuples(st.sampled_from(["copy", "deepcopy", "pickle", "same"]))).map(list), min_size=1, max_size=4)),
    })


def task_composite(ctx, n):
    ctx.search("composite", strat(), check_composite, n)


def tasks(tier):
    from .. import depth
    return _tasks(tier) + [("little-stack", depth.task, dict(prop=PROPERTY))]


def _tasks(tier):
    if tier == "quick":
        return [("composite-%d" % k, task_composite, dict(n=500)) for k in range(5)]
    return [("composite-%d" % k, task_composite, dict(n=10000)) for k in range(16)]


def replay(ctx, case):
    if isinstance(case, dict) and case.get("kind") == "little-stack":
        from .. import depth
        return depth.check(ctx, case)
    check_composite(ctx, case)
