"""
C07 - neutron data of every element and isotope are those of the embedded table.

Exhaustive sweep of the 364 rows of nsf.nsftable, the 16 rows of nsf.nsftableI,
all nodes of the 14 tables of nsf_tables.ENERGY_DEPENDENT_TABLES and every
element / isotope that has no row, against an independent reading of the
source text (pbt/tables_c07.py), in five table configurations.
"""
from .. import subtable
import math

from ..runner import Violation
from .. import tables_c07 as tb

PROPERTY = "C07"
EXHAUSTIVE = True
EXHAUSTIVE_NOTE = ("all rows of nsftable and nsftableI, all nodes of all ENERGY_DEPENDENT_TABLES (scalar and vector "
                   "call), every element 0..118 and every isotope held by the table that has no row; in each of the "
                   "configurations public, private-only (nsf.init on a private table in a process where the public "
                   "table never loads its neutron data; the public table is not read there), private initialised "
                   "after the public neutron data were read, a second private table, public re-read afterwards")
RULE = ("sweep: one case per (configuration, row) for table rows, per (configuration, element) for single-isotope "
        "elements served from their isotope's row, per (configuration, atom) for atoms without a row, and per "
        "(configuration, energy table, node, scalar|vector) for the energy-dependent tables; oracle = independent "
        "reading of the source text with cells addressed by the documented column names; every case is non-trivial "
        "and distinct by that key.")
ASSUMPTIONS = [
    "interpreter modes: the row / no-row clauses and all energy-table nodes (scalar and vector) are also judged on the "
    "values dumped by a child interpreter started with -O, -OO and -W error::DeprecationWarning, whose first touch of "
    "the neutron data is an attribute read, either unguarded ('plain') or inside try/except followed by a second read "
    "('guarded', public and a private table); the unchanged tree loads under all three, so a child that fails is "
    "c07:mode:<flags>:child-failed and a guarded first touch that raises is c07:mode:<flags>:first-touch-raised",
    "energy scan: every energy-dependent entry is also queried through one ndarray object refilled in place with other "
    "tabulated energies (4 fills x 2 calls of scattering_by_wavelength, then sld() and scattering()): each answer is "
    "judged by the table for the values the array holds at that moment (abs 1e-12; sigma_s = 4 pi |b|^2/100 rel 1e-9), the "
    "argument must be unchanged, returned arrays belong to the caller (they are overwritten and the next answer must "
    "still be right), and sld()/scattering() through the reused array must equal the call with a fresh copy (rel 1e-12)",
    "number cells: [<]value[(unc)][E exp][*]; an exponent written after the uncertainty applies to value and "
    "uncertainty alike, 2.4(8)E-5 = (2.4 +- 0.8)e-5, as in <6.0E-6; a cell in no documented notation is reported as "
    "c07:table:unreadable-cell with what the library serves (only that row is skipped), a row that cannot be laid out "
    "as c07:table:unreadable-row; the sweep always goes on",
    "added isotopes: in the configurations *-added every element 1..118 gets two isotopes with unused mass numbers "
    "(heaviest tabulated + 1 and + 9) through Element.add_isotope() after the table's neutron data were loaded and "
    "read; like any isotope without a row they and their first ion must serve no neutron data (has_sld() false, all "
    "fields None, never the parent element's record), element[A] / isotopes must list them, and the complete sweep "
    "of that table is repeated afterwards (existing atoms unaffected)",
    "the table text in periodictable/nsf.py and nsf_tables.py is the specification; numbers are float(<bare number>) "
    "and compared bit-identically (None for blank cells); abundance is 0 for a half-life cell",
    "the two gap fills documented in nsf.init are part of the expected record: natural Xe total = coherent + "
    "incoherent (rel 1e-14) and Eu-151 b_c = sqrt(coherent*100/(4 pi)) (rel 1e-14)",
    "b_c_complex = reported b_c - i*absorption/(2000*1.798), rel 1e-14 on each part; its real part may be NaN only "
    "when the atom reports no b_c",
    "element-level record of Pu and Cm (several isotope rows, no element row) is not judged; their isotopes are",
    "has_sld() is expected to be (b_c reported) and (element density known): the neutron and Ra-226 etc. have rows "
    "but no density",
    "abundance and nuclear spin are judged for isotope rows only (element rows leave those cells blank)",
    "energy tables: wavelength of a tabulated energy is obtained from the documented nsf.neutron_wavelength(meV) and "
    "cross-checked against h/sqrt(2 m E) with CODATA-2018 constants (rel 1e-6); returned b_c compared abs 1e-12",
]

CONFIGS = ("public", "private-only", "private-after-public", "private-second", "public-after-private",
           "public-added", "private-added", "private-only-added")
NUMERIC = ("b_c", "bp", "bm", "coherent", "incoherent", "total", "absorption")
ALL_FIELDS = NUMERIC + ("b_c_i", "bp_i", "bm_i", "b_c_complex")
ABSORPTION_WAVELENGTH = 1.798      # documented: thermal absorption cross section at 1.798 A
LAMBDA2_E = 81.80421               # meV A^2, h^2/(2 m_n), CODATA 2018

_O = {}
_ENV = {}


def _isnum(x):
    return isinstance(x, (int, float)) and not isinstance(x, bool)


def oracle():
    """Expected records (per process).  Never raises because of a cell's content: unreadable cells stay in the
    record as tables_c07.Bad, rows that cannot be laid out go to O['problems']."""
    if _O:
        return _O
    t = tb.neutron_tables()
    problems = list(t["problems"])
    rows = {}
    per_element = {}
    for r in t["rows"]:
        r = dict(r)
        r["fills"] = []
        rows[(r["z"], r["a"])] = r
        per_element.setdefault(r["z"], []).append(r["a"])
    # documented gap fills
    xe = rows.get((54, 0))
    if xe is not None and xe["total"] is None and _isnum(xe["coherent"]) and _isnum(xe["incoherent"]):
        xe["total"] = xe["coherent"] + xe["incoherent"]
        xe["fills"].append("total")
    eu = rows.get((63, 151))
    if eu is not None and eu["b_c"] is None and _isnum(eu["coherent"]) and eu["coherent"] >= 0:
        eu["b_c"] = math.sqrt(eu["coherent"] * 100 / (4 * math.pi))
        eu["fills"].append("b_c")
    for key, r in rows.items():
        im = t["imag"].get(key)
        if im and im[3] != r["sym"]:
            problems.append(("nsftableI", "%d-%s" % (key[0], im[3]), "symbol differs from nsftable row %s" % r["id"]))
            im = None
        r["b_c_i"], r["bp_i"], r["bm_i"] = (im[:3] if im else (None, None, None))
        if im:
            r["cells"] = dict(r["cells"], b_c_i=im[4]["b_c_i"], bp_i=im[4]["bp_i"], bm_i=im[4]["bm_i"])
    for key in t["imag"]:
        if key not in rows:
            problems.append(("nsftableI", "%d-%s-%d" % (key[0], t["imag"][key][3], key[1]), "no such row in nsftable"))
    # element-level source: own row, else the sole isotope row
    element_src = {}
    for z, alist in per_element.items():
        if 0 in alist:
            element_src[z] = ("row", 0)
        elif len(alist) == 1:
            element_src[z] = ("sole-isotope", alist[0])
        else:
            element_src[z] = ("unjudged", None)
    _O.update(rows=rows, element_src=element_src, energy=tb.energy_tables(), problems=problems)
    return _O


# configurations in which isotopes are added after loading: name -> configuration whose table is extended
ADDED = {"public-added": "public-after-private", "private-added": "private-after-public",
         "private-only-added": "private-only"}
_MADE = {}
_MASS_ISO = {}


def _mass_isotopes(table):
    """(z, a) of the isotopes that have a mass of their own (those of the mass table), per table"""
    key = id(table)
    if key not in _MASS_ISO:
        _MASS_ISO[key] = set((el.number, i.isotope) for el in table for i in el if "_mass" in i.__dict__)
    return _MASS_ISO[key]


# ----------------------------------------------------------------------
# Interpreter modes: configurations "mode:<flags>:<variant>:<table>".  A child interpreter (/venv/bin/python <flags>,
# PYTHONPATH = the repository under test) loads the neutron data by a first attribute read (variant 'plain': unguarded;
# 'guarded': the first touch sits in try/except and everything is read again afterwards), initialises a private table
# too, and dumps every main-table field of every element and isotope plus every energy-table node evaluated through
# scattering_by_wavelength (scalar and vector).  The parent wraps the dump in read-only stand-ins and runs the
# ordinary row / no-row clauses on them; nodes are compared by check_mode_node.
MODES = {"O": ["-O"], "OO": ["-OO"], "W-error-DeprecationWarning": ["-W", "error::DeprecationWarning"]}
MODE_CHILD = r"""
import json, sys
req = json.load(sys.stdin)
import periodictable
from periodictable import core, mass, density

def exc(e):
    return {"exc": "%s: %s" % (type(e).__name__, e)}

def val(f):
    try:
        v = f()
    except BaseException as e:
        return exc(e)
    if v is None or isinstance(v, (bool, int, float, str)):
        return v
    if isinstance(v, complex) or type(v).__name__.startswith("complex"):
        return {"complex": [float(v.real), float(v.imag)]}
    if isinstance(v, tuple):
        return {"tuple": [val(lambda x=x: x) for x in v]}
    try:
        return float(v)
    except Exception:
        return {"exc": "unexpected value %r" % (v,)}

FIELDS = ("b_c", "bp", "bm", "coherent", "incoherent", "total", "absorption", "b_c_i", "bp_i", "bm_i",
          "b_c_complex", "abundance", "is_energy_dependent")

def record(atom):
    try:
        n = atom.neutron
    except BaseException as e:
        return exc(e)
    if n is None:
        return None
    d = dict((f, val(lambda f=f: getattr(n, f))) for f in FIELDS)
    d["has_table"] = val(lambda: n.nsf_table is not None)
    d["has_sld"] = val(lambda: n.has_sld())
    d["sld"] = val(lambda: n.sld())
    return d

def dump(table):
    from periodictable import nsf
    out = {"atoms": {}, "energy": {}}
    for z in range(0, 119):
        try:
            el = table[z]
            d = {"symbol": val(lambda: el.symbol), "density": val(lambda: el.density), "neutron": record(el), "isotopes": {}}
            for a in list(el.isotopes):
                iso = el[a]
                i = {"neutron": record(iso)}
                if "nuclear_spin" in getattr(iso, "__dict__", {}):
                    i["nuclear_spin"] = val(lambda: iso.nuclear_spin)
                d["isotopes"][str(a)] = i
        except BaseException as e:
            d = exc(e)
        out["atoms"][str(z)] = d
    import numpy as np
    for key, energies in req["energy"].items():
        sym, a = key.split("|")
        try:
            el = getattr(table, sym)
            atom = el[int(a)] if int(a) else el
            n = atom.neutron
            lam = [float(nsf.neutron_wavelength(e * 1000)) for e in energies]
            sc = [val(lambda w=w: complex(n.scattering_by_wavelength(w)[0])) for w in lam]
            try:
                vec = [{"complex": [float(x.real), float(x.imag)]} for x in n.scattering_by_wavelength(np.array(lam))[0]]
            except BaseException as e:
                vec = exc(e)
            out["energy"][key] = {"scalar": sc, "vector": vec, "has_table": n.nsf_table is not None}
        except BaseException as e:
            out["energy"][key] = exc(e)
    return out

res = {"optimize": sys.flags.optimize, "warnoptions": list(sys.warnoptions), "first_touch": None}
if req["variant"] == "plain":
    _ = periodictable.elements[1].neutron.b_c
else:
    try:
        _ = periodictable.elements[1].neutron.b_c
    except BaseException as e:
        res["first_touch"] = "%s: %s" % (type(e).__name__, e)
res["public"] = dump(periodictable.elements)
try:
    from periodictable import nsf
    T = core.PeriodicTable("c07-mode-private")
    mass.init(T)
    density.init(T)
    try:
        nsf.init(T)
    except BaseException as e:
        if req["variant"] == "plain":
            raise
        res["private_init"] = "%s: %s" % (type(e).__name__, e)
    res["private"] = dump(T)
except BaseException as e:
    if req["variant"] == "plain":
        raise
    res["private"] = {"atoms": {}, "energy": {}, "failed": "%s: %s" % (type(e).__name__, e)}
json.dump(res, sys.stdout)
"""
_MODE_DUMPS = {}


class ChildRaised(Exception):
    """The child interpreter got an exception where the sweep reads a value."""


class ChildFailed(Exception):
    """The child interpreter did not produce a dump."""


def _unwrap(v, label):
    if isinstance(v, dict):
        if "exc" in v:
            raise ChildRaised("%s raised %s" % (label, v["exc"]))
        if "complex" in v:
            return complex(v["complex"][0], v["complex"][1])
        if "tuple" in v:
            return tuple(_unwrap(x, label) for x in v["tuple"])
    return v


class _PNeutron(object):
    def __init__(self, d, label):
        self._d, self._label = d, label

    def __getattr__(self, name):
        d = self.__dict__["_d"]
        if name == "nsf_table":
            return object() if _unwrap(d["has_table"], self._label + ".neutron.nsf_table") else None
        if name not in d:
            raise AttributeError(name)
        return _unwrap(d[name], "%s.neutron.%s" % (self.__dict__["_label"], name))

    def has_sld(self):
        return _unwrap(self._d["has_sld"], self._label + ".neutron.has_sld()")

    def sld(self):
        return _unwrap(self._d["sld"], self._label + ".neutron.sld()")


class _PAtom(object):
    def __init__(self, d, label, parent=None):
        self._d, self._label = d, label
        self._n = None

    @property
    def neutron(self):
        r = self._d.get("neutron")
        if r is None:
            return None
        if "exc" in r:
            raise ChildRaised("%s.neutron raised %s" % (self._label, r["exc"]))
        if self._n is None:
            self._n = _PNeutron(r, self._label)
        return self._n

    def __getattr__(self, name):
        d = self.__dict__.get("_d", {})
        if name in ("symbol", "density", "nuclear_spin") and name in d:
            return _unwrap(d[name], "%s.%s" % (self.__dict__["_label"], name))
        raise AttributeError(name)


class _PElement(_PAtom):
    def __init__(self, z, d):
        if "exc" in d:
            d = {"symbol": d, "density": d, "neutron": d, "isotopes": {}}
        sym = d.get("symbol")
        _PAtom.__init__(self, d, sym if isinstance(sym, str) else "Z=%d" % z)
        self.isotopes = sorted(int(a) for a in d["isotopes"])
        self._isos = dict((int(a), _PAtom(v, "%s-%s" % (self._label, a))) for a, v in d["isotopes"].items())

    def __getitem__(self, a):
        try:
            return self._isos[a]
        except KeyError:
            raise ChildRaised("%s has no isotope %r in the child interpreter" % (self._label, a))


class _PTable(object):
    def __init__(self, d):
        self.energy = d["energy"]
        self._els = dict((int(z), _PElement(int(z), v)) for z, v in d["atoms"].items())

    def __getitem__(self, z):
        try:
            return self._els[z]
        except KeyError:
            raise ChildRaised("the child interpreter dumped no element %r" % (z,))


def run_child(flags, script, stdin=""):
    """Run *script* in /venv/bin/python <flags> with the repository under test first on the path."""
    import json
    import os
    import subprocess
    import sys
    from ..runner import REPO
    e = dict((k, v) for k, v in os.environ.items() if k not in ("PYTHONOPTIMIZE", "PYTHONWARNINGS", "PYTHONHASHSEED"))
    e.update(PYTHONPATH=REPO, PYTHONDONTWRITEBYTECODE="1")
    r = subprocess.run([sys.executable] + list(flags) + ["-c", script], input=stdin, capture_output=True, text=True,
                       env=e, cwd="/tmp", timeout=600)
    if r.returncode != 0:
        raise ChildFailed("exit %d: %s" % (r.returncode, r.stderr.strip()[-600:]))
    try:
        return json.loads(r.stdout)
    except ValueError as x:
        raise ChildFailed("output is not JSON (%s): %s" % (x, r.stdout[-300:]))


def mode_dump(config):
    import json
    _, flags, variant, which = config.split(":")
    key = (flags, variant)
    if key not in _MODE_DUMPS:
        req = {"variant": variant,
               "energy": dict(("%s|%d" % (sym, a or 0), [row[0] for row in nodes]) for (sym, a), nodes in oracle()["energy"].items())}
        try:
            _MODE_DUMPS[key] = run_child(MODES[flags], MODE_CHILD, json.dumps(req))
        except ChildFailed as x:
            _MODE_DUMPS[key] = x
    d = _MODE_DUMPS[key]
    if isinstance(d, ChildFailed):
        raise d
    return d


def mode_env(config):
    d = mode_dump(config)
    which = config.split(":")[3]
    key = (config, "table")
    if key not in _MODE_DUMPS:
        if d[which].get("failed"):
            raise ChildFailed("private table could not be initialised: %s" % d[which]["failed"])
        _MODE_DUMPS[key] = _PTable(d[which])
    return _MODE_DUMPS[key]


def env(config):
    """Table of a configuration; the construction order is what the name says."""
    if config.startswith("mode:"):
        return mode_env(config)
    if config in _ENV:
        return _ENV[config]
    import periodictable
    from periodictable import core, mass, density, nsf
    pub = periodictable.elements

    def private(name):
        t = subtable.new(name)
        mass.init(t)
        density.init(t)
        nsf.init(t)
        return t

    if config in ADDED:
        # isotopes with unused mass numbers are registered through the public Element.add_isotope()
        # AFTER the neutron data of that table were loaded and read
        base = env(ADDED[config])
        for el in base:
            _ = el.neutron.b_c
        made = {}
        for z in range(1, 119):
            el = base[z]
            top = max(k for k in el.isotopes if (z, k) in _mass_isotopes(base))
            for a in (top + 1, top + 9):
                made[(z, a)] = el.add_isotope(a)
        _MADE[config] = made
        _ENV[config] = base
    elif config == "public":
        _ENV["public"] = pub
    elif config == "private-after-many-reloads":
        # one private table initialised again and again with the documented reload=True (its properties list grows
        # past 300 entries), the neutron data among them 40 times: the last load serves what the first one served
        t = private("c07-reloaded")
        for k in range(300):
            density.init(t, reload=True)
            if k % 8 == 0:
                nsf.init(t, reload=True)
        nsf.init(t, reload=True)
        _ENV[config] = t
    elif config == "private-only":
        # the public table is never asked for neutron data in this process
        _ENV["private-only"] = private("c07-only")
    else:
        for el in pub:                           # public loads and serves its data first
            _ = el.neutron.b_c
        _ENV["private-after-public"] = private("c07-p1")
        _ENV["private-second"] = private("c07-p2")
        _ENV["public-after-private"] = pub
    return _ENV[config]


# ----------------------------------------------------------------------
def V(bucket, msg, case):
    return Violation("c07:" + bucket, "[%s] %s" % (case.get("config"), msg), case)


def same(got, want):
    if want is None:
        return got is None
    return isinstance(got, (int, float)) and not isinstance(got, bool) and got == want


def close(got, want, rel):
    if want is None:
        return got is None
    if not isinstance(got, (int, float)) or isinstance(got, bool):
        return False
    return got == want or abs(got - want) <= rel * abs(want)


def check_record(case, atom, label, rec, isotope_fields):
    """Compare the Neutron record served by *atom* with the expected record."""
    n = atom.neutron
    marks = rec["marks"]
    # a cell the reader cannot read is evidence: report it with what the library serves, skip this row only
    for f in NUMERIC + ("b_c_i", "bp_i", "bm_i") + (("abundance",) if isotope_fields else ()):
        if isinstance(rec[f], tb.Bad):
            raise V("table:unreadable-cell", "row %s (%s): cell %r is not in a documented notation but the library serves %r"
                    % (rec["id"], f, rec[f].text, getattr(n, f, None)), case)
    for f in NUMERIC:
        got = getattr(n, f)
        if f in rec["fills"]:
            if not close(got, rec[f], 1e-14):
                raise V("gap-fill:" + f, "%s %s = %r, documented fill gives %r" % (label, f, got, rec[f]), case)
        elif not same(got, rec[f]):
            kind = "blank" if rec[f] is None else "value"
            raise V("field:%s:%s" % (f, kind), "%s %s = %r, row %s says %r" % (label, f, got, rec["id"], rec[f]), case)
    if n.is_energy_dependent is not (rec["flag"] == "E"):
        raise V("flag", "%s is_energy_dependent = %r, row %s has %r" % (label, n.is_energy_dependent, rec["id"], rec["flag"]), case)
    for f in ("b_c_i", "bp_i", "bm_i"):
        if not same(getattr(n, f), rec[f]):
            raise V("imaginary:" + f, "%s %s = %r, companion table says %r" % (label, f, getattr(n, f), rec[f]), case)
    if isotope_fields:
        if not same(n.abundance, rec["abundance"]):
            raise V("abundance" + (":half-life" if rec["halflife"] else ""),
                    "%s neutron.abundance = %r, row %s says %r" % (label, n.abundance, rec["id"], rec["abundance"]), case)
    # complex scattering length
    if rec["absorption"] is not None:
        bc = n.b_c_complex
        if not isinstance(bc, complex):
            raise V("b_c_complex:type", "%s b_c_complex = %r" % (label, bc), case)
        want_im = -rec["absorption"] / (2000 * ABSORPTION_WAVELENGTH)
        if not close(bc.imag, want_im, 1e-14):
            raise V("b_c_complex:imag", "%s b_c_complex = %r, -absorption/(2000*1.798) = %r" % (label, bc, want_im), case)
        reported = n.b_c
        if reported is None:
            if not math.isnan(bc.real):
                raise V("b_c_complex:real-without-b_c", "%s b_c_complex = %r but b_c is missing" % (label, bc), case)
        elif math.isnan(bc.real):
            raise V("b_c_complex:real-nan-with-b_c", "%s reports b_c = %r but b_c_complex = %r" % (label, reported, bc), case)
        elif not close(bc.real, reported, 1e-14):
            raise V("b_c_complex:real", "%s reports b_c = %r but b_c_complex = %r" % (label, reported, bc), case)
    return marks


def check_row(ctx, case):
    """case = {kind:'row', config, z, a}  (a = 0: element row or sole-isotope element)"""
    O = oracle()
    table = env(case["config"])
    z, a = case["z"], case["a"]
    el = table[z]
    if a:
        rec = O["rows"][(z, a)]
        if el.symbol != rec["sym"]:
            raise V("symbol", "Z=%d is %r, row %s" % (z, el.symbol, rec["id"]), case)
        if a not in el.isotopes:
            raise V("row-not-loaded", "row %s: isotope not in the table" % rec["id"], case)
        atom = el[a]
        label = "%s-%d" % (el.symbol, a)
        check_record(case, atom, label, rec, True)
        spin = getattr(atom, "nuclear_spin", None)
        if spin != rec["spin"]:
            raise V("nuclear-spin", "%s nuclear_spin = %r, row says %r" % (label, spin, rec["spin"]), case)
    else:
        how, src = O["element_src"][z]
        rec = O["rows"][(z, src)]
        if el.symbol != rec["sym"]:
            raise V("symbol", "Z=%d is %r, row %s" % (z, el.symbol, rec["id"]), case)
        atom = el
        label = el.symbol + (" (from its only isotope row %s)" % rec["id"] if how == "sole-isotope" else "")
        check_record(case, atom, label, rec, how == "sole-isotope")
    want_sld = atom.neutron.b_c is not None and el.density is not None
    got_sld = atom.neutron.has_sld()
    if got_sld is not want_sld:
        raise V("has_sld:row", "%s has_sld() = %r, b_c = %r, element density %r" % (label, got_sld, atom.neutron.b_c, el.density), case)


def check_absent(ctx, case):
    """case = {kind:'absent', config, z, a}: an atom without a row reports that nothing is available"""
    table = env(case["config"])
    z, a = case["z"], case["a"]
    el = table[z]
    atom = el[a] if a else el
    n = atom.neutron
    label = "%s-%d" % (el.symbol, a) if a else el.symbol
    if n is None:
        return                       # the class documentation allows a None record
    if n.has_sld() is not False:
        raise V("absent:has_sld", "%s has no row but has_sld() = %r" % (label, n.has_sld()), case)
    for f in ALL_FIELDS:
        if getattr(n, f) is not None:
            raise V("absent:field", "%s has no row but neutron.%s = %r" % (label, f, getattr(n, f)), case)
    if n.is_energy_dependent or n.nsf_table is not None:
        raise V("absent:energy-dependent", "%s has no row but is flagged energy dependent" % label, case)
    if atom.neutron.sld() != (None, None, None):
        raise V("absent:sld", "%s has no row but sld() = %r" % (label, atom.neutron.sld()), case)


def check_added(ctx, case):
    """case = {kind:'added', config, z, a}: an isotope registered with Element.add_isotope(a) after the neutron
    table was loaded is listed, is returned by element[a], and it and its ions serve no neutron data."""
    table = env(case["config"])
    z, a = case["z"], case["a"]
    el = table[z]
    label = "%s-%d" % (el.symbol, a)
    made = _MADE[case["config"]][(z, a)]
    if a not in el.isotopes or el[a] is not made or made.isotope != a or el.add_isotope(a) is not made:
        raise V("added:listing", "%s.add_isotope(%d): isotopes lists it %r, element[a] is it %r"
                % (el.symbol, a, a in el.isotopes, (a in el.isotopes) and el[a] is made), case)
    atoms = [(label, made)]
    if el.ions:
        c = list(el.ions)[0]
        atoms.append(("%s{%+d}" % (label, c), made.ion[c]))
    for lab, atom in atoms:
        n = atom.neutron
        if n is None:
            continue
        if n is el.neutron and el.neutron.b_c is not None:
            raise V("added:inherits-element-record", "%s (added after loading, no row) serves the record of natural %s: "
                    "b_c = %r has_sld() = %r" % (lab, el.symbol, n.b_c, n.has_sld()), case)
        if n.has_sld() is not False:
            raise V("added:has_sld", "%s has no row but has_sld() = %r" % (lab, n.has_sld()), case)
        for f in ALL_FIELDS:
            if getattr(n, f) is not None:
                raise V("added:field", "%s has no row but neutron.%s = %r" % (lab, f, getattr(n, f)), case)
        if n.is_energy_dependent or n.nsf_table is not None:
            raise V("added:energy-dependent", "%s has no row but is flagged energy dependent" % lab, case)
        if n.sld() != (None, None, None):
            raise V("added:sld", "%s has no row but sld() = %r" % (lab, n.sld()), case)


def check_node(ctx, case):
    """case = {kind:'node', config, sym, a (0 = element), k, vector}"""
    import numpy as np
    from periodictable import nsf
    O = oracle()
    table = env(case["config"])
    sym, a, k = case["sym"], case["a"], case["k"]
    nodes = O["energy"][(sym, a or None)]
    el = getattr(table, sym)
    atom = el[a] if a else el
    label = "%s-%d" % (sym, a) if a else sym
    n = atom.neutron
    if n.nsf_table is None:
        raise V("energy:no-table", "%s has an energy-dependent table but neutron.nsf_table is None" % label, case)

    def lam(e_ev):
        w = float(nsf.neutron_wavelength(e_ev * 1000))
        ind = math.sqrt(LAMBDA2_E / (e_ev * 1000))
        if not abs(w / ind - 1) < 1e-6:
            raise V("energy:wavelength", "neutron_wavelength(%r meV) = %r, h/sqrt(2mE) = %r" % (e_ev * 1000, w, ind), case)
        return w

    if case["vector"]:
        ks = list(range(len(nodes)))
        out = n.scattering_by_wavelength(np.array([lam(nodes[j][0]) for j in ks]))[0]
        if getattr(out, "shape", None) != (len(ks),):
            raise V("energy:vector-shape", "%s: vector call returned shape %r" % (label, getattr(out, "shape", None)), case)
        got = [complex(x) for x in out]
    else:
        ks = [k]
        got = [complex(n.scattering_by_wavelength(lam(nodes[k][0]))[0])]
    for j, g in zip(ks, got):
        e, re_, im_, _ = nodes[j]
        want = complex(re_, im_)
        if not abs(g - want) <= 1e-12:
            raise V("energy:node" + (":vector" if case["vector"] else ""),
                    "%s at %r eV (node %d of %d): %r, table says %r" % (label, e, j, len(nodes), g, want), case)


def check_scan(ctx, case):
    """case = {kind:'scan', config, sym, a}: an energy scan through ONE preallocated array that is refilled in place
    with other tabulated energies.  Every answer is judged by the table for the values the buffer holds at that
    moment; the argument must come back unchanged; a returned array must be fresh (mutating it must not change a
    later answer); sld()/scattering() through the reused buffer must equal the same call with a fresh copy."""
    import numpy as np
    from periodictable import nsf
    O = oracle()
    table = env(case["config"])
    sym, a = case["sym"], case["a"]
    nodes = O["energy"][(sym, a or None)]
    el = getattr(table, sym)
    atom = el[a] if a else el
    label = "%s-%d" % (sym, a) if a else sym
    n = atom.neutron
    if n.nsf_table is None:
        raise V("energy:no-table", "%s has an energy-dependent table but neutron.nsf_table is None" % label, case)
    N = len(nodes)
    width = 3
    # four fills: disjoint-ish node triples spread over the table, the last one repeats the first
    fills = [[(f * 7 + j * (N // width)) % N for j in range(width)] for f in range(3)]
    fills.append(list(fills[0]))
    buf = np.empty(width)

    def flat(x):
        return [complex(v) for v in np.ravel(x)]

    def close_all(p, q, rel):
        p, q = flat(p), flat(q)
        return len(p) == len(q) and all(u == v or abs(u - v) <= rel * max(abs(u), abs(v)) for u, v in zip(p, q))

    for fno, ks in enumerate(fills):
        for j, k in enumerate(ks):
            buf[j] = float(nsf.neutron_wavelength(nodes[k][0] * 1000))        # refill the same object in place
        held = buf.copy()
        want = [complex(nodes[k][1], nodes[k][2]) for k in ks]
        where = "%s, fill %d of one reused array (nodes %r)" % (label, fno + 1, ks)
        for rep in (1, 2):
            out = n.scattering_by_wavelength(buf)
            if not np.array_equal(buf, held):
                raise V("energy:scan:argument-modified", "%s: scattering_by_wavelength changed its argument %r -> %r"
                        % (where, held.tolist(), buf.tolist()), case)
            got = flat(out[0])
            if len(got) != width or not all(abs(g - w) <= 1e-12 for g, w in zip(got, want)):
                b = "energy:scan:stale-answer" if rep == 1 else "energy:scan:returned-array-not-fresh"
                raise V(b, "%s, call %d: b_c = %r, table says %r for the energies the array holds now"
                        % (where, rep, got, want), case)
            sig = flat(out[1])
            wsig = [4 * math.pi * abs(w) ** 2 / 100 for w in want]
            if len(sig) != width or not all(abs(g.real - w) <= 1e-9 * max(1.0, w) for g, w in zip(sig, wsig)):
                raise V("energy:scan:sigma_s", "%s, call %d: sigma_s = %r, 4 pi |b|^2/100 = %r" % (where, rep, sig, wsig), case)
            # the caller owns what was returned: scribbling on it must not change a later answer
            for arr in out:
                if isinstance(arr, np.ndarray) and arr.flags.writeable:
                    arr[...] = -12345.0
        if n.has_sld():
            for name in ("sld", "scattering"):
                meth = getattr(n, name)
                r_buf = meth(wavelength=buf)
                if not np.array_equal(buf, held):
                    raise V("energy:scan:argument-modified", "%s: %s() changed its argument" % (where, name), case)
                r_new = meth(wavelength=held.copy())
                parts_b = list(r_buf[0]) + list(r_buf[1]) + [r_buf[2]] if name == "scattering" else list(r_buf)
                parts_n = list(r_new[0]) + list(r_new[1]) + [r_new[2]] if name == "scattering" else list(r_new)
                for pb, pn in zip(parts_b, parts_n):
                    if not close_all(pb, pn, 1e-12):
                        raise V("energy:scan:%s-depends-on-array-identity" % name,
                                "%s: neutron.%s(wavelength=<reused array>) = %r but with a fresh copy of the same values %r"
                                % (where, name, np.ravel(pb).tolist(), np.ravel(pn).tolist()), case)
                for pb in parts_b:
                    if isinstance(pb, np.ndarray) and pb.flags.writeable:
                        pb[...] = -12345.0


def check_mode_node(ctx, case):
    """case = {kind:'mode-node', config, sym, a}: every node of one energy table as evaluated in the child interpreter"""
    O = oracle()
    table = env(case["config"])
    sym, a = case["sym"], case["a"]
    nodes = O["energy"][(sym, a or None)]
    label = "%s-%d" % (sym, a) if a else sym
    d = table.energy.get("%s|%d" % (sym, a))
    if d is None or "exc" in d:
        raise ChildRaised("energy table %s: %s" % (label, (d or {}).get("exc", "not dumped")))
    if not d["has_table"]:
        raise V("energy:no-table", "%s has an energy-dependent table but neutron.nsf_table is None" % label, case)
    for how in ("scalar", "vector"):
        got = d[how]
        if isinstance(got, dict):
            _unwrap(got, "%s.neutron.scattering_by_wavelength (%s)" % (label, how))
        if len(got) != len(nodes):
            raise V("energy:vector-shape", "%s: %s evaluation returned %d values for %d nodes" % (label, how, len(got), len(nodes)), case)
        for j, g in enumerate(got):
            g = _unwrap(g, "%s.neutron.scattering_by_wavelength at %r eV" % (label, nodes[j][0]))
            want = complex(nodes[j][1], nodes[j][2])
            if not abs(g - want) <= 1e-12:
                raise V("energy:node" + (":vector" if how == "vector" else ""),
                        "%s at %r eV (node %d of %d): %r, table says %r" % (label, nodes[j][0], j, len(nodes), g, want), case)


def check_mode_child(ctx, case):
    """case = {kind:'mode-child', config, what}: the child interpreter runs; its guarded first touch does not raise"""
    cfg = case["config"]
    mode, variant = cfg.split(":")[1:3]
    how = "python %s (%s first touch)" % (" ".join(MODES[mode]), variant)
    try:
        d = mode_dump(cfg)
    except ChildFailed as x:
        if case["what"] == "runs":
            raise V("mode:%s:child-failed" % mode, "%s: the child interpreter failed: %s" % (how, x), case)
        return
    if case["what"] == "first-touch" and d.get("first_touch"):
        raise V("mode:%s:first-touch-raised" % mode, "%s: the first read of H.neutron raised %s" % (how, d["first_touch"]), case)
    if case["what"] == "private-init" and cfg.endswith(":private") and (d.get("private_init") or d["private"].get("failed")):
        raise V("mode:%s:private-init-raised" % mode, "%s: nsf.init(private table) raised %s"
                % (how, d.get("private_init") or d["private"].get("failed")), case)


def _moded(fn):
    """Clause wrapper: in an interpreter-mode configuration every finding goes to a bucket of that mode."""
    def wrapped(ctx, case):
        cfg = case["config"]
        if not cfg.startswith("mode:"):
            return fn(ctx, case)
        mode = cfg.split(":")[1]
        how = "python %s (%s first touch)" % (" ".join(MODES[mode]), cfg.split(":")[2])
        try:
            return fn(ctx, case)
        except ChildFailed as x:
            raise V("mode:%s:child-failed" % mode, "%s: the child interpreter failed: %s" % (how, x), case)
        except ChildRaised as x:
            raise V("mode:%s:exception" % mode, "%s: %s" % (how, x), case)
        except Violation as v:
            raise Violation("c07:mode:%s:%s" % (mode, v.bucket.split(":", 1)[1]), "%s: %s" % (how, v.message), v.case)
    return wrapped


CHECKS = {"row": _moded(check_row), "absent": _moded(check_absent), "node": check_node, "added": check_added,
          "scan": check_scan, "mode-node": _moded(check_mode_node), "mode-child": check_mode_child}


def _sym(el):
    try:
        return el.symbol
    except ChildRaised:
        return "?"


def sweep(ctx, config):
    O = oracle()
    reduced = config.startswith("mode:")
    if reduced:
        mode, variant = config.split(":")[1:3]
        how = "python %s (%s first touch)" % (" ".join(MODES[mode]), variant)
        ctx.case((config, "child"), nontrivial=True, sample={"config": config}, cls=["config:" + config])
        for what in ("runs", "first-touch", "private-init"):
            ctx.check(CHECKS["mode-child"], {"kind": "mode-child", "config": config, "what": what})
        try:
            table = env(config)
        except ChildFailed:
            return
    table = env(config)

    def run(case, key, sample, cls):
        case = dict(case, config=config)
        ctx.case((config,) + key, nontrivial=True, sample=dict(sample, config=config), cls=["config:" + config] + cls)
        ctx.check(CHECKS[case["kind"]], case)

    for tname, row, why in O["problems"]:
        ctx.violation("c07:table:unreadable-row", "[%s] %s: row %r cannot be laid out (%s)" % (config, tname, row, why),
                      {"kind": "absent", "config": config, "z": 118, "a": 0})
    for (z, a) in sorted(_MADE.get(config, {})):
        run({"kind": "added", "z": z, "a": a}, ("added", z, a), {"added-after-loading": "%s-%d" % (table[z].symbol, a)},
            ["added-isotope:" + O["element_src"].get(z, ("element-without-rows",))[0]])
    for (z, a), rec in O["rows"].items():
        cls = ["row:" + ("isotope" if a else "element")] + ["cell:" + m for m in rec["marks"]]
        cls += ["gap-fill:" + f for f in rec["fills"]]
        if rec["flag"]:
            cls.append("flag:" + rec["flag"])
        if rec["b_c_i"] is not None:
            cls.append("row:has-imaginary")
        run({"kind": "row", "z": z, "a": a}, ("row", z, a), {"row": rec["id"]}, cls)
    for z in range(0, 119):
        el = table[z]
        how, src = O["element_src"].get(z, ("absent", None))
        if how == "sole-isotope":
            run({"kind": "row", "z": z, "a": 0}, ("row", z, 0), {"element": _sym(el), "served-from": "%s-%d" % (_sym(el), src)},
                ["element:from-sole-isotope-row"])
        elif how == "unjudged":
            ctx.count("element:several-isotope-rows-no-element-row(not judged)")
        elif how == "absent":
            run({"kind": "absent", "z": z, "a": 0}, ("absent", z, 0), {"absent": _sym(el)}, ["absent:element"])
        for a in list(el.isotopes):
            if (z, a) not in O["rows"]:
                run({"kind": "absent", "z": z, "a": a}, ("absent", z, a), {"absent": "%s-%d" % (_sym(el), a)},
                    ["absent:isotope-of-" + ("element-without-rows" if how == "absent" else "element-with-rows")])
    for (sym, a), nodes in O["energy"].items():
        a = a or 0
        if reduced:
            run({"kind": "mode-node", "sym": sym, "a": a}, ("mode-node", sym, a),
                {"energy-table": "%s-%d" % (sym, a) if a else sym, "nodes": len(nodes)}, ["energy-table:all-nodes-in-child"])
            continue
        for k in range(len(nodes)):
            run({"kind": "node", "sym": sym, "a": a, "k": k, "vector": False}, ("node", sym, a, k, "scalar"),
                {"energy-table": "%s-%d" % (sym, a) if a else sym, "eV": nodes[k][0]}, ["energy-node:scalar"])
        run({"kind": "scan", "sym": sym, "a": a}, ("scan", sym, a),
            {"energy-table": "%s-%d" % (sym, a) if a else sym, "scan": "one array refilled in place, 4 fills x 2 calls"},
            ["energy-table:scan-reused-array"])
        run({"kind": "node", "sym": sym, "a": a, "k": 0, "vector": True}, ("node", sym, a, "vector"),
            {"energy-table": "%s-%d" % (sym, a) if a else sym, "nodes": len(nodes)}, ["energy-table:vector"])


def task_sweep(ctx, configs):
    for c in configs:
        sweep(ctx, c)


def tasks(tier):
    return [("sweep-public", task_sweep, dict(configs=["public"])),
            ("sweep-private-only", task_sweep, dict(configs=["private-only", "private-only-added"])),
            ("sweep-private-after-public", task_sweep,
             dict(configs=["public", "private-after-public", "private-second", "public-after-private"])),
            ("sweep-added-isotopes", task_sweep, dict(configs=["public-added", "private-added"])),
            ("sweep-after-many-reloads", task_sweep, dict(configs=["private-after-many-reloads"]))
            ] + [("interpreter-mode-" + m, task_sweep,
                  dict(configs=["mode:%s:%s:%s" % (m, v, t)
                                for v, t in (("plain", "public"), ("guarded", "public"), ("guarded", "private"))]))
                 for m in MODES]


def replay(ctx, case):
    CHECKS[case["kind"]](ctx, case)
