"""
C13 - printing a formula and parsing it back gives the same formula.

Formulas come from three sources: parsing renderings of derivation trees (with
counts from 1e-9 to 1e13), formula arithmetic (histories of pbt/fops_c02.py)
and the mixture constructors.  The expected structure of the re-parsed formula
is computed here from the structure of the printed one: every count rounded to
six significant digits (decimal, half-even, of the exact binary value), groups
whose rounded count is 1 dissolved into their parent.  For tree-built formulas
the structure the grammar assigns to the tree (formula_ast.tree_structure) is
used as well.
"""
import decimal
import json
from decimal import Decimal
from fractions import Fraction

from hypothesis import strategies as st

from ..runner import Violation, lib_frame
from .. import formula_ast as fa
from .. import fops_c02 as ops
from ..atoms import atom_key, key_to_atom, spec_class, DT

PROPERTY = "C13"
RULE = ("formulas from (a) parsing a rendered derivation tree whose counts span 1e-9..1e13 incl. >6-digit and "
        "boundary spellings (999999.5, 0.0000999999, 1.0000001), on the public and on a private table, (b) "
        "arithmetic histories (constructors from str/atom/dict/nested sequence/Formula, +, n*, += with n in "
        "[1e-9, 1e12], counts kept in [1e-20, 1e20]; constructors also on the private table, change_table; the empty "
        "formula from formula(''), formula(), formula(None), Formula(), formula([]), formula({}) with name/density "
        "keywords, as operand, as receiver of += and made again afterwards: each new one prints '' (or its name), "
        "parses back to nothing and is an object of its own), "
        "(c) mix_by_weight / mix_by_volume calls (Formula and string components, table=T in a third of the cases) and wt%/vol%/mass/"
        "layer mixture strings with quantity ratios up to 1e9, (d) long histories: 1-5 ionic sources (parsed on either "
        "table, arithmetic, mixtures) are built and round-tripped, then formulas covering every element ion of the "
        "table (499, exhaustive) plus drawn isotope ions are parsed/printed/parsed back in a drawn order, then the "
        "first formulas are round-tripped again against the atom objects they hold, which must still be the "
        "objects the table serves, (e) wide formulas: 120-400 sibling multi-atom groups on one level built as a sum "
        "chain, by +=, as one sequence, by mix_by_weight, or 0.5*chain. Oracle: s=str(f) must parse; the parsed structure "
        "must equal (same nesting, atoms by identity, counts as equal doubles) the structure of f with each count "
        "rounded to 6 significant digits and groups of (rounded) count 1 dissolved; for (a) also the structure the "
        "grammar gives the tree; repr(f) == \"formula('\"+s+\"')\"; with a name, str is the name and repr shows it. "
        "non-trivial = some count != 1 whose 6-digit value is outside [1e-4, 1e6), or an ion of D/T, or nesting "
        "depth >= 2; distinct by (table, printed string).")
ASSUMPTIONS = [
    "a group whose count is exactly 1 is the same nesting as its contents: the grammar cannot denote a count-1 "
    "group ('(X)1' and '(X)' parse to X, asserted by the repository's tests)",
    "'printed precision' is the correctly rounded 6-significant-digit decimal of the stored double (what %g "
    "computes); the re-parsed count must be the double nearest to that decimal",
    "if building the source formula itself raises (a C01/C02/C11 matter) the case is counted as inconclusive, not judged here",
    "zero and negative counts are outside the property ('positive counts')",
    "in a long history (d) a formula whose immediate round trip fails is left to sources (a)-(c), which generate "
    "the same formulas; (d) judges the scan and the second round trip after it",
]

_STATE = {}
CTX = decimal.Context(prec=1400, rounding=decimal.ROUND_HALF_EVEN)


def env():
    if not _STATE:
        E = ops.env()           # public table and the private table of pbt/fops_c02.py (own atoms, some masses changed)
        _STATE.update(E)
    return _STATE


# ----------------------------------------------------------------------
# reference: printed precision
def round6(x):
    """Six significant digits of the exact value of the int/float *x*, as Decimal."""
    d = Decimal(x)
    if d == 0:
        return d
    q = Decimal(1).scaleb(d.adjusted() - 5)
    r = d.quantize(q, context=CTX)
    return r


def exponent_form(x):
    """True if the six-digit decimal of *x* has a decimal exponent outside [-4, 6)."""
    r = round6(x)
    return r != 0 and not (-4 <= r.adjusted() < 6)


def expected_from_structure(structure):
    out = []
    for count, frag in structure:
        c = float(round6(count))
        if isinstance(frag, (list, tuple)):
            inner = expected_from_structure(frag)
            if c == 1:
                out.extend(inner)
            else:
                out.append((c, inner))
        else:
            out.append((c, frag))
    return out


def expected_from_tree(table, ts):
    """ts = formula_ast.tree_structure(...) with Fraction counts and atom keys."""
    out = []
    for count, frag in ts:
        v = int(count) if count.denominator == 1 else float(count)
        c = float(round6(v))
        if isinstance(frag, tuple) and len(frag) == 3 and all(isinstance(i, int) for i in frag):
            out.append((c, key_to_atom(table, frag)))
        else:
            inner = expected_from_tree(table, frag)
            if c == 1:
                out.extend(inner)
            else:
                out.append((c, inner))
    return out


def observed(structure):
    out = []
    for count, frag in structure:
        c = float(count)
        if isinstance(frag, (list, tuple)):
            inner = observed(frag)
            if c == 1:
                out.extend(inner)
            else:
                out.append((c, inner))
        else:
            out.append((c, frag))
    return out


def diff(exp, got, path=""):
    """None, or (kind, text) for the first difference."""
    if len(exp) != len(got):
        return "nesting", "%s: %d fragments expected, %d found" % (path or "top", len(exp), len(got))
    for i, ((ce, fe), (cg, fg)) in enumerate(zip(exp, got)):
        p = "%s/%d" % (path, i)
        if isinstance(fe, list) != isinstance(fg, list):
            return "nesting", "%s: group vs atom" % p
        if isinstance(fe, list):
            d = diff(fe, fg, p)
            if d:
                return d
        elif fe is not fg:
            if atom_key(fe) == atom_key(fg):
                return "atom-identity", "%s: %r is a different object" % (p, fg)
            return "atom", "%s: atom %r expected %r" % (p, fg, fe)
        if ce != cg:
            return "count", "%s: count %r expected %r" % (p, cg, ce)
    return None


def all_counts(structure):
    for count, frag in structure:
        yield count
        if isinstance(frag, (list, tuple)):
            for c in all_counts(frag):
                yield c


def all_atoms(structure):
    for _, frag in structure:
        if isinstance(frag, (list, tuple)):
            for a in all_atoms(frag):
                yield a
        else:
            yield frag


def is_dt_ion(atom):
    return atom.charge != 0 and atom.number == 1 and getattr(atom, "isotope", 0) in (2, 3)


# ----------------------------------------------------------------------
def roundtrip(ctx, f, case, which, source, exp_tree=None, nm=None):
    E = env()
    table = E["tables"][which]
    formula = E["formula"]
    name = f.name
    if name:
        if str(f) != name:
            raise Violation("c13:name:str", "named formula prints %r, name is %r" % (str(f), name), case)
        if repr(f) != "formula('" + name + "')":
            raise Violation("c13:name:repr", "named formula has repr %r, name is %r" % (repr(f), name), case)
        f = formula(f)
        f.name = None
    s = str(f)
    counts = [c for c in all_counts(f.structure)]
    if any(not (c > 0) for c in counts):
        ctx.count("skipped:non-positive-count")
        return
    expo = any(c != 1 and exponent_form(c) for c in counts)
    dtion = any(is_dt_ion(a) for a in all_atoms(f.structure))
    d = ops.depth(f.structure)
    cls = ["source:" + source, "table:" + which, "depth:%d" % min(d, 4)]
    if expo:
        cls.append("count:outside[1e-4,1e6)")
    if any(float(round6(c)) != float(c) for c in counts):
        cls.append("count:needs>6digits")
    if dtion:
        cls.append("atom:DT-ion")
    if name:
        cls.append("named")
    ctx.case((which, s), nontrivial=(expo or dtion or d >= 2), sample={"source": source, "table": which, "printed": s},
             cls=cls)
    r = repr(f)
    if r != "formula('" + s + "')":
        raise Violation("c13:repr", "repr is %r, str is %r" % (r, s), case)
    # the producer was asked for atoms of this table: parsing the printed form with this table must give them back
    for a in all_atoms(f.structure):
        if a is not key_to_atom(table, atom_key(a)):
            raise Violation("c13:producer:atom-of-another-table",
                            "%s made with the %s table holds %r, which is not that table's atom (printed %r)"
                            % (source, which, a, s), case)
    try:
        g = formula(s, table=table)
    except Exception as e:  # noqa
        if expo and ("e+" in s or "e-" in s):
            b = "c13:unparseable:exponent-count"
        elif dtion and ("D[2]" in s or "T[3]" in s):
            b = "c13:unparseable:DT-ion"
        else:
            b = "c13:unparseable:%s:%s" % (type(e).__name__, lib_frame(e.__traceback__) or "?")
        raise Violation(b, "str(f) = %r does not parse: %s: %s" % (s, type(e).__name__, str(e)[:160]), case)
    got = observed(g.structure)
    exp = expected_from_structure(f.structure)
    dd = diff(exp, got)
    if dd:
        raise Violation("c13:roundtrip:" + dd[0], "printed %r parses to %r; %s"
                        % (s, g.structure, dd[1]), case)
    if exp_tree is not None:
        dd = diff(exp_tree, got)
        if dd:
            raise Violation("c13:tree:" + dd[0], "tree %r prints as %r which parses to %r; %s"
                            % (case.get("string"), s, g.structure, dd[1]), case)
    if nm:
        h = formula(f, name=nm)
        if str(h) != nm or repr(h) != "formula('" + nm + "')":
            raise Violation("c13:name:str", "formula(f, name=%r) prints %r / %r" % (nm, str(h), repr(h)), case)
        if str(f) != s:
            raise Violation("c13:name:alias", "naming a copy changed str of the original to %r" % str(f), case)


# ----------------------------------------------------------------------
# (a) trees with wide counts
SPECIAL_COUNTS = ["999999", "1000000", "999999.5", "999999.4", "999999.49", "0.0001", ".0001", "0.00009999995",
                  "0.0000999999", "0.00001", "123456.5", "1234567", "0.000000001", "1000000000000", "1.0000001",
                  "1.000001", "0.9999999", "0.99999949", "100000", "0.00012345678", "2.5", "12.", "1.5"]


def wide_count():
    digits = st.text("0123456789", min_size=0, max_size=7)
    nzd = st.sampled_from("123456789")
    big = st.tuples(nzd, st.text("0123456789", min_size=4, max_size=12)).map("".join)
    tiny = st.tuples(st.sampled_from(["0.", "."]), st.one_of(st.integers(0, 8), st.integers(9, 15)).map(lambda n: "0" * n),
                     digits, nzd).map("".join)
    mixed = st.tuples(st.integers(1, 9999999).map(str), digits).map(lambda t: t[0] + "." + t[1])
    return st.one_of(st.none(), st.none(), fa.count_str(), fa.count_str(allow_none=False), big, tiny, mixed,
                     st.sampled_from(SPECIAL_COUNTS))


def w_atom(pool, cnt):
    return st.tuples(pool.atom(), st.booleans(), cnt).map(lambda t: ["a", t[0], t[1], t[2]])


def w_implicit(pool, cnt, max_atoms=3):
    return st.tuples(cnt, st.lists(w_atom(pool, cnt), min_size=1, max_size=max_atoms)).map(lambda t: ["i", t[0], t[1]])


def w_groups(pool, depth, cnt, max_groups=3, max_atoms=3):
    leaf = w_implicit(pool, cnt, max_atoms)
    if depth <= 0:
        g = leaf
    else:
        inner = w_groups(pool, depth - 1, cnt, max(2, max_groups - 1), max_atoms)
        explicit = st.tuples(inner, cnt, fa._pads()).map(lambda t: ["e", t[0][0], t[0][1], t[1], t[2]])
        g = st.one_of(leaf, leaf, explicit)
    return st.lists(g, min_size=1, max_size=max_groups).flatmap(
        lambda gs: st.lists(st.sampled_from(fa.SEPS), min_size=len(gs) - 1, max_size=len(gs) - 1
                            ).map(lambda ss: (gs, ss)))


def w_compound(pool, depth):
    return st.tuples(w_groups(pool, depth, wide_count()), fa.density_tag()).map(
        lambda t: {"g": t[0][0], "s": t[0][1], "d": t[1]})


def check_tree(ctx, value):
    tree, which, nm = value
    E = env()
    table = E["tables"][which]
    s0 = fa.render(tree)
    case = {"kind": "tree", "tree": tree, "table": which, "name": nm, "string": s0}
    try:
        f = E["formula"](s0, table=table)
    except Exception:  # noqa
        ctx.inconclusive += 1
        ctx.count("inconclusive:source-rejected")
        return
    exp_tree = expected_from_tree(table, fa.tree_structure(E["pool"], tree["g"]))
    roundtrip(ctx, f, case, which, "parse", exp_tree=exp_tree, nm=nm)


# ----------------------------------------------------------------------
# (b) arithmetic
def mult():
    return st.one_of(ops.number(), ops.number(),
                     st.tuples(st.integers(1, 999999), st.integers(-14, 7)).map(lambda t: float("%de%d" % t)),
                     # six full digits far below 1: printing them needs up to 25 decimals
                     st.tuples(st.integers(100000, 999999), st.integers(-24, -12)).map(lambda t: float("%de%d" % t)),
                     st.sampled_from([1e6, 1e-5, 1e9, 1e12, 1e-9, 999999.5, 1000000, 10 ** 12, 0.5, 1.0000001,
                                      6.25e-14, 1.23457e-11]))


def Formula_unnamed(f):
    """A copy of f without its name (so that str shows the composition)."""
    g = env()["formula"](f)
    g.name = None
    return g


def check_ops(ctx, value):
    history, nm = value[0], value[1]
    early = value[2] if len(value) > 2 else False
    case = {"kind": "ops", "ops": history, "name": nm, "early": early}

    def observer(step, vars_):
        # an empty formula just made (formula(''), formula(), Formula(), formula([]) ...) prints '' (or its own
        # name), parses back to nothing and is an object of its own, whatever happened to earlier empty formulas
        if step.new is not None and step.kind == "empty":
            f = vars_[step.new].f
            c = dict(case, var=step.new, at_step=step.index)
            want = step.op[2] if step.op[2] else ""
            if str(f) != want or repr(f) != "formula('" + want + "')":
                raise Violation("c13:empty:print", "step %d %r: a new empty formula prints %r / %r, expected %r"
                                % (step.index, step.op, str(f), repr(f), want), c)
            if tuple(f.structure) != () or f.atoms != {}:
                raise Violation("c13:empty:not-empty", "step %d %r: a new empty formula has structure %r"
                                % (step.index, step.op, f.structure), c)
            for k, other in enumerate(vars_[:-1]):
                if other.f is f:
                    raise Violation("c13:empty:shared-object", "step %d %r: the new empty formula is the object "
                                    "of variable %d" % (step.index, step.op, k), c)
            back = env()["formula"](str(Formula_unnamed(f)))
            if tuple(back.structure) != () or str(back) != "":
                raise Violation("c13:empty:print", "step %d: formula('') gives %r (%r)"
                                % (step.index, str(back), back.structure), c)
        if not early:
            return
        # print (and round-trip) every variable as soon as it exists or changes, so that later
        # operations work on operands that have already been printed
        i = step.new if step.new is not None else step.changed
        if i is not None:
            exp_tree = None
            if step.new is not None and step.kind == "str" and step.op[2] is None:
                # a formula just parsed from a rendered tree (possibly the same string as an earlier,
                # since modified, variable) must print and parse back to what the tree says
                E = env()
                exp_tree = expected_from_tree(E["tables"][vars_[i].table],
                                              fa.tree_structure(E["pool"], step.op[1]["g"]))
            roundtrip(ctx, vars_[i].f, dict(case, var=i, at_step=step.index, string=None), vars_[i].table,
                      "arithmetic-early", exp_tree=exp_tree)
    try:
        vars_, flags, skipped = ops.interpret(history, observer=observer,
                                              mag=(Fraction(1, 10 ** 20), Fraction(10 ** 20)))
    except Violation:
        raise
    except Exception:  # noqa
        ctx.inconclusive += 1
        ctx.count("inconclusive:source-rejected")
        return
    ctx.count("ops:printed-early" if early else "ops:printed-at-end")
    for i, v in enumerate(vars_):
        c = dict(case, var=i)
        roundtrip(ctx, v.f, c, v.table, "arithmetic", nm=nm if i == len(vars_) - 1 else None)


# ----------------------------------------------------------------------
# (c) mixtures
def quantity():
    return st.one_of(st.integers(1, 100).map(str),
                     st.tuples(st.integers(1, 9999), st.integers(0, 6)).map(
                         lambda t: ("%.*f" % (t[1], t[0] / 10.0 ** t[1]))),
                     st.sampled_from(["1", "0.001", "1000", "0.000001", "50", "2.5"]))


def part(pool, atoms=None):
    """A component: a flat or once-nested compound with an explicit density."""
    dens = st.tuples(fa.count_str(allow_none=False, max_int=25), st.sampled_from(["", "n", "i"])).map(list)
    return st.tuples(fa.groups(pool, 1, atoms, 2, 3), dens).map(lambda t: {"g": t[0][0], "s": t[0][1], "d": t[1]})


def mixture(pool, atoms=None):
    how = st.sampled_from(["mix_by_weight", "mix_by_volume", "mix_by_weight:str", "mix_by_volume:str",
                           "wt%", "vol%", "mass", "layer"])
    parts = st.lists(st.tuples(part(pool, atoms), quantity()).map(list), min_size=2, max_size=3)
    units = st.lists(st.integers(0, 20), min_size=3, max_size=3)
    which = st.sampled_from(["public", "public", "private"])
    return st.tuples(how, parts, units, which).map(lambda t: {"how": t[0], "parts": t[1], "u": t[2], "table": t[3]})


MASS_U = ["g", "mg", "ug", "kg", "ng", "mL", "uL", "nL"]
LEN_U = ["nm", "um", "mm", "cm"]


def build_mixture(E, m):
    """The mixture on the table m['table']: components parsed with table=T / the mix functions called with
    table=T (string and Formula components) / the mixture string parsed with table=T."""
    pt = E["pt"]
    strings = [fa.render(t) for t, _ in m["parts"]]
    qs = [q for _, q in m["parts"]]
    how = m["how"]
    which = m.get("table", "public")
    kw = {} if which == "public" else {"table": E["tables"][which]}
    formula = E["formula"]
    if how in ("mix_by_weight", "mix_by_volume"):
        args = []
        for s, q in zip(strings, qs):
            args += [formula(s, **kw), float(q)]
        fn = pt.mix_by_weight if how == "mix_by_weight" else pt.mix_by_volume
        return fn(*args, **kw), None
    if how in ("mix_by_weight:str", "mix_by_volume:str"):
        args = []
        for s, q in zip(strings, qs):
            args += [s, float(q)]
        fn = pt.mix_by_weight if how == "mix_by_weight:str" else pt.mix_by_volume
        return fn(*args, **kw), None
    if how in ("wt%", "vol%"):
        # percentages of all but the last part; they must sum to less than 100
        pcs = [Decimal(q) for q in qs[:-1]]
        while sum(pcs) >= 100:
            pcs = [p.scaleb(-1) for p in pcs]      # shift the decimal point: still exact decimals
        spell = [format(p, "f") for p in pcs]
        s = "%s%s %s" % (spell[0], how, strings[0])
        for p, c in zip(spell[1:], strings[1:-1]):
            s += " // %s%% %s" % (p, c)
        s += " // " + strings[-1]
        return formula(s, **kw), s
    if how == "mass":
        s = " // ".join("%s%s %s" % (q, MASS_U[u % len(MASS_U)], c) for q, u, c in zip(qs, m["u"], strings))
        return formula(s, **kw), s
    if how == "layer":
        s = " // ".join("%s %s %s" % (q, LEN_U[u % len(LEN_U)], c) for q, u, c in zip(qs, m["u"], strings))
        return formula(s, **kw), s
    raise ValueError(how)


def check_mixture(ctx, value):
    m, nm = value
    E = env()
    case = {"kind": "mixture", "mixture": m, "name": nm}
    try:
        f, s = build_mixture(E, m)
    except Exception:  # noqa
        ctx.inconclusive += 1
        ctx.count("inconclusive:source-rejected")
        return
    case["string"] = s
    if not f.structure:
        ctx.count("skipped:empty-mixture")
        return
    roundtrip(ctx, f, case, m.get("table", "public"), "mixture:" + m["how"], nm=nm)


# ----------------------------------------------------------------------
# (d) long histories: formulas built early are printed and parsed back again after several hundred
# other ions have been used
def ionic(pool):
    return st.one_of(pool.ion(), pool.ion(), pool.isotope_ion(), pool.dt_ion())


def long_case(pool):
    tree = fa.compound(pool, depth=1, atoms=ionic(pool), max_groups=2, max_atoms=3, density=False)
    item = st.one_of(
        st.tuples(st.just("tree"), tree, st.sampled_from(["public", "private"])).map(list),
        st.tuples(st.just("tree"), tree, st.just("public")).map(list),
        st.tuples(st.just("ops"), ops.history(pool, max_steps=6, mult=mult(), tree=tree, tables=True)).map(list),
        st.tuples(st.just("mixture"), mixture(pool, ionic(pool))).map(list))
    scan = st.fixed_dictionaries({
        "offset": st.integers(0, 2000), "reverse": st.booleans(), "per": st.integers(1, 4),
        "iso": st.lists(st.integers(0, 10 ** 6), min_size=0, max_size=120),
        "table": st.sampled_from(["public", "public", "private"]),
        "count": st.sampled_from([None, "2", "0.5", "3"]),
        # a short scan is there for the shrinker: a failure that does not need the long scan shrinks to it quickly
        "limit": st.sampled_from([30, 5000, 5000, 5000, 5000])})
    return st.tuples(st.lists(item, min_size=1, max_size=5), scan).map(
        lambda t: {"kind": "long", "first": t[0], "scan": t[1]})


def scan_specs(pool, scan):
    """Every element ion of the table (exhaustive) plus drawn isotope ions, in the drawn order."""
    specs = [[sym, 0, c] for sym in pool.with_ions for c in pool.info[sym][2]]
    for i in scan["iso"]:
        sym = pool.with_both[i % len(pool.with_both)]
        isos, ions = pool.info[sym][1], pool.info[sym][2]
        specs.append([sym, isos[(i // 7) % len(isos)], ions[(i // 3) % len(ions)]])
    k = scan["offset"] % len(specs)
    specs = specs[k:] + specs[:k]
    if scan["reverse"]:
        specs.reverse()
    return specs[:scan.get("limit", 5000)]


def held_atoms_are_table_atoms(f, table, which, when, case):
    for a in f.atoms:
        if a is not key_to_atom(table, atom_key(a)):
            raise Violation("c13:long:held-atom-is-not-the-table-atom",
                            "%s: atom %r held by %s is not the object the %s table serves for it"
                            % (when, a, str(f)[:80], which), case)


def check_long(ctx, case):
    E = env()
    pool, formula = E["pool"], E["formula"]
    held = []
    for item in case["first"]:
        try:
            if item[0] == "tree":
                which = item[2]
                held.append((formula(fa.render(item[1]), table=E["tables"][which]), which))
            elif item[0] == "ops":
                vars_, _, _ = ops.interpret(item[1], mag=(Fraction(1, 10 ** 20), Fraction(10 ** 20)))
                held += [(v.f, v.table) for v in vars_]
            else:
                f, _ = build_mixture(E, item[1])
                if f.structure:
                    held.append((f, item[1].get("table", "public")))
        except Exception:  # noqa
            ctx.inconclusive += 1
            ctx.count("inconclusive:source-rejected")
    # The immediate round trip of the early formulas is a precondition here: the same sources are judged at
    # scale by tasks (a)-(c); a formula that fails it is dropped from this history (a failing case would make
    # every shrink step pay for the whole scan).
    ok = []
    for f, which in held:
        try:
            held_atoms_are_table_atoms(f, E["tables"][which], which, "right after building", case)
            roundtrip(ctx, f, case, which, "long:first")
            ok.append((f, which))
        except Violation:
            ctx.count("long:first-round-trip-failed(left to the other tasks)")
    held = ok
    # the scan: other ionic formulas are parsed, printed and parsed back
    scan = case["scan"]
    which = scan["table"]
    table = E["tables"][which]
    specs = scan_specs(pool, scan)
    per = scan["per"]
    seen = set()
    for i in range(0, len(specs), per):
        chunk = specs[i:i + per]
        tree = {"g": [["i", None, [["a", sp, False, scan["count"]] for sp in chunk]]], "s": [], "d": None}
        g = formula(fa.render(tree), table=table)
        roundtrip(ctx, g, case, which, "long:scan")
        seen.update(tuple(sp) for sp in chunk)
    ctx.count("long:distinct-ions-scanned", len(seen))
    # and every ion of every isotope of that table is looked up once (more than 14 000 objects: any bounded memo of
    # ions has evicted the ones held above by now)
    if len(specs) > 200:
        nall = 0
        for el in table:
            for iso in el:
                for c in el.ions:
                    iso.ion[c]
                    nall += 1
        ctx.count("long:all-isotope-ions-looked-up", nall)
    # the formulas built first, again
    for f, w in held:
        roundtrip(ctx, f, case, w, "long:again")
        held_atoms_are_table_atoms(f, E["tables"][w], w, "after the scan of %d ions" % len(seen), case)


# ----------------------------------------------------------------------
def nm_strategy():
    return st.one_of(st.none(), ops.name())


def task_tree(ctx, n, depth):
    E = env()
    strat = st.tuples(w_compound(E["pool"], depth), st.sampled_from(["public", "public", "private"]), nm_strategy())
    ctx.search("tree", strat, check_tree, n)


def task_ops(ctx, n, steps=12):
    E = env()
    strat = st.tuples(ops.history(E["pool"], max_steps=steps, mult=mult(), tables=True, empties=True), nm_strategy(), st.booleans())
    ctx.search("ops", strat, check_ops, n)


def task_mixture(ctx, n):
    E = env()
    strat = st.tuples(mixture(E["pool"]), nm_strategy())
    ctx.search("mixture", strat, check_mixture, n)


# ----------------------------------------------------------------------
# (e) wide formulas: several hundred sibling groups on one level
WIDE_MULTS = [2, 3, 1.5, 0.5, 12, 2.25, 7, 0.125]


def wide_case(pool):
    piece = fa.compound(pool, depth=1, max_groups=2, max_atoms=3, density=False)
    return st.fixed_dictionaries({
        "kind": st.just("wide"), "pieces": st.lists(piece, min_size=2, max_size=4),
        "n": st.integers(120, 400), "how": st.sampled_from(["chain", "iadd", "seq", "mix", "half-chain"]),
        "m": st.lists(st.integers(0, 7), min_size=3, max_size=6)})


def check_wide(ctx, case):
    E = env()
    formula, pt = E["formula"], E["pt"]
    try:
        pieces = [formula(fa.render(t)) for t in case["pieces"]]
        pieces = [p if len(p.atoms) > 1 or len(p.structure) > 1 else p + formula("HO2") for p in pieces]
        n, how, ms = case["n"], case["how"], case["m"]
        mult = lambda k: WIDE_MULTS[ms[k % len(ms)] % len(WIDE_MULTS)]
        if how in ("chain", "half-chain"):
            f = mult(0) * pieces[0]
            for k in range(1, n):
                f = f + mult(k) * pieces[k % len(pieces)]
            if how == "half-chain":
                f = 0.5 * f
        elif how == "iadd":
            f = formula('')
            for k in range(n):
                f += mult(k) * pieces[k % len(pieces)]
        elif how == "seq":
            f = formula([(mult(k), pieces[k % len(pieces)].structure) for k in range(n)])
        else:
            args = []
            for k in range(min(n, 160)):
                args += [pieces[k % len(pieces)], float(1 + (k * 7) % 5)]
            f = pt.mix_by_weight(*args)
    except Exception:  # noqa
        ctx.inconclusive += 1
        ctx.count("inconclusive:source-rejected")
        return
    ctx.count("wide:top-level-terms", len(f.structure))
    roundtrip(ctx, f, case, "public", "wide:" + how)


def task_wide(ctx, n):
    E = env()
    ctx.search("wide", wide_case(E["pool"]), check_wide, n)


def task_long(ctx, n):
    E = env()
    ctx.search("long", long_case(E["pool"]), check_long, n)


def task_fixed(ctx):
    """The empty formula and a few documented examples."""
    E = env()
    f = E["formula"]()
    if str(f) != "" or repr(f) != "formula('')" or E["formula"](str(f)).structure != tuple():
        ctx.violation("c13:empty", "empty formula prints %r / %r" % (str(f), repr(f)), {"kind": "empty"})
    ctx.case(("public", ""), nontrivial=False, sample={"printed": ""}, cls=["source:empty"])
    # counts of other numeric types (decimal.Decimal, fractions.Fraction, numpy scalars) print like the float of the
    # same value - six significant digits, positional - and the text parses back to those counts
    import numpy as np
    from fractions import Fraction as Fr
    texts = ["CaCO3", "Fe{3+}2O{2-}3", "(H2O)2NaCl", "D2O"]
    values = ["0.1234567", "1234567", "2.00000", "0.333333333", "12.5", "1000000", "0.000123456789", "3"]
    for t in texts:
        for vtext in values:
            for kind, make in (("Decimal", Decimal), ("Fraction", Fr), ("np.float64", lambda s: np.float64(float(s))),
                               ("np.float32", lambda s: np.float32(float(s)))):
                n = make(vtext)
                case = {"kind": "numeric-type", "text": t, "value": vtext, "type": kind}
                ctx.case(("numeric-type", t, vtext, kind), nontrivial=True, sample=case, cls=["count-type:" + kind])
                try:
                    # Decimal counts are multiplied in the caller's decimal context: a caller who uses them works at a
                    # precision that holds them, whatever the ambient layer has set for the thread
                    with decimal.localcontext(decimal.Context(prec=40)):
                        g = n * E["formula"](t)
                        got = str(g)
                except Exception as e:  # noqa  (a type the arithmetic rejects: nothing to print)
                    ctx.count("count-type:%s:rejected:%s" % (kind, type(e).__name__))
                    continue
                want = str(float(n) * E["formula"](t))
                if got != want:
                    ctx.violation("c13:count-type:" + kind, "str(%s(%r) * formula(%r)) = %r, with the float of the same value %r"
                                  % (kind, vtext, t, got, want), case)
                    continue
                try:
                    back = E["formula"](got)
                except Exception as e:  # noqa
                    ctx.violation("c13:count-type:" + kind + ":reparse", "%r (printed for %s(%r) * %r) does not parse: %s"
                                  % (got, kind, vtext, t, e), case)
                    continue
                if back != E["formula"](want):
                    ctx.violation("c13:count-type:" + kind + ":reparse", "%r parses to %r" % (got, back.structure), case)


def tasks(tier):
    from .. import depth
    return _tasks(tier) + [("little-stack", depth.task, dict(prop=PROPERTY))]


def _tasks(tier):
    if tier == "quick":
        return [("tree-a", task_tree, dict(n=500, depth=2)),
                ("tree-b", task_tree, dict(n=500, depth=3)),
                ("tree-c", task_tree, dict(n=500, depth=1)),
                ("tree-d", task_tree, dict(n=500, depth=2)),
                ("ops-a", task_ops, dict(n=250)),
                ("ops-b", task_ops, dict(n=250)),
                ("ops-c", task_ops, dict(n=250, steps=20)),
                ("mixture-a", task_mixture, dict(n=300)),
                ("mixture-b", task_mixture, dict(n=300)),
                ("mixture-c", task_mixture, dict(n=300)),
                ("mixture-d", task_mixture, dict(n=300)),
                ("wide", task_wide, dict(n=10)),
                ("long-a", task_long, dict(n=12)),
                ("long-b", task_long, dict(n=12)),
                ("fixed", task_fixed, dict())]
    out = [("fixed", task_fixed, dict())]
    for k in range(3):
        out.append(("long-%d" % k, task_long, dict(n=250)))
    out.append(("wide", task_wide, dict(n=300)))
    for k in range(6):
        out.append(("tree-%d" % k, task_tree, dict(n=15000, depth=1 + k % 4)))
    for k in range(5):
        out.append(("ops-%d" % k, task_ops, dict(n=4000, steps=10 + 4 * k)))
    for k in range(4):
        out.append(("mixture-%d" % k, task_mixture, dict(n=8000)))
    # coverage-guided tier (pbt/fuzz.py): libFuzzer drives the strategies and oracles of these tasks
    from .. import fuzz
    fuzz.extend(out, PROPERTY, ['tree-0', 'ops-0', 'mixture-0'])
    return out


def replay(ctx, case):
    if isinstance(case, dict) and case.get("kind") == "little-stack":
        from .. import depth
        return depth.check(ctx, case)
    k = case["kind"]
    if k == "tree":
        check_tree(ctx, (case["tree"], case.get("table", "public"), case.get("name")))
    elif k == "ops":
        check_ops(ctx, (case["ops"], case.get("name"), case.get("early", False)))
    elif k == "mixture":
        check_mixture(ctx, (case["mixture"], case.get("name")))
    elif k == "long":
        check_long(ctx, case)
    elif k == "wide":
        check_wide(ctx, case)
    elif k == "empty":
        task_fixed(ctx)
    else:
        raise ValueError(k)
