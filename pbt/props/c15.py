"""
C15 - Sample.decay_time(target) returns the time at which the total activity
reaches the target.

Truth: the activities at removal from the beam A_i(0), read from a sample
computed with rest_times=[0], each decaying with its tabulated half-life:
A(t) = sum_i A_i(0) 2^(-t/T_i), evaluated in `decimal`.  The same formula,
mass, environment and exposure are then activated with other rest-time lists
and decay_time(target) must give an outcome consistent with that truth for
every list (so the answer cannot depend on the requested rest times).
"""
from decimal import Decimal as D
import math

from hypothesis import strategies as st

from ..runner import Violation, lib_frame
from .. import refcalc_activation as ra
from . import c14

AMBIENT_SKIP = ("decimal",)      # the oracle computes in the thread's decimal context throughout
PROPERTY = "C15"
RULE = ("Hypothesis draws a sample (1..4 atoms: natural elements, isotopes, ions, isotope ions, D/T; mass; "
        "environment; exposure - the C14 generator), two rest-time lists (length 1..6, any order, with or without 0, "
        "values in {0} u [1e-3,1e4] h, also the values 1 and 2) and a target = k*A(0) with k log-uniform in [1e-9,10] or "
        "within 1e-9..1e-6 of 1 or of 0.5. Oracle: A(t) = sum_i A_i(0) 2^(-t/T_i) in decimal from the activities of "
        "the same sample activated with rest_times=[0]. For each of the lists [0], L1, L2: RuntimeError is allowed; a "
        "returned t must be >= 0, equal to 0 iff A(0) <= target (either answer accepted within a relative band 1e-11 "
        "around equality), otherwise |A(t)-target| <= 1e-3 target; any other exception is a violation; RuntimeError "
        "for one list and a time for another is a violation (dependence on the rest times); RuntimeError for all "
        "lists is inconclusive. non-trivial = target in (0.3 A0, A0), or a list without 0, or >= 3 products whose "
        "half-lives span >= 6 decades; distinct by (formula, environment, lists, target). Every decay_time question is "
        "asked twice (same answer). reuse: ONE Sample receives 2..3 consecutive calculate_activation calls (beam, "
        "exposure, rest times, abundance function change); after each, decay_time for two targets relative to A(0), "
        "for the absolute targets of the previous step, and after a first question for 10 A(0), must equal the answer "
        "of a never-questioned fresh Sample given the same call and satisfy the oracle; the rest-time list and the "
        "shared ActivationEnvironment must be unchanged. multi: 2..4 drawn samples are all calculated before any question; "
        "then all are asked the same bit-identical absolute targets (1..2 drawn in 1e-9..1e3 uCi or 5e-4, and k*A(0) of each "
        "sample asked of every sample) in a drawn interleaved order; each answer is judged by that sample's truth and must "
        "equal the answer of a fresh Sample calculated and asked alone afterwards. families (deterministic, complete): every daughter name that "
        "activation.dat (independent reader) lists under two parent elements x both parents in one formula (both "
        "orders; atom ratios 1:1, 30:1, 1:30) x a thermal-only and a fast-dominated beam x targets = the true total "
        "activity at 0.5, 3, 8 of each half-life tabulated for that daughter plus 1e-6..0.9 of A(0); same oracle.")
ASSUMPTIONS = [
    "the activities computed by calculate_activation are taken as given (C14 decides them); only the relation "
    "between them and the returned time is checked",
    "samples whose activation fails to compute (a C14 failure, e.g. element ions) or that have no positive activity "
    "are skipped and counted",
    "'activity at removal' is the activity the library itself reports for rest time 0",
    "acceptance uses 1.0000001e-3 so that a result the library accepted at exactly 0.1 % is not rejected by rounding",
]

BAND = D("1e-11")
ACC = D("1.0000001e-3")


def env():
    return c14.env()


def rest_value():
    return st.one_of(st.just(0.0), st.just(1.0), st.just(2.0), c14.logu(1e-3, 1e4), c14.logu(1e-3, 1e4), c14.logu(1e-2, 1e2))


def rest_list():
    return st.lists(rest_value(), min_size=1, max_size=6)


def bright_env():
    return st.fixed_dictionaries(dict(
        fluence=c14.logu(1e6, 1e16), Cd=c14.cd_ratio(), fast=c14.fast_ratio(), exposure=c14.logu(1e-3, 1e4),
        mass=c14.logu(1e-3, 1e3)))


def any_env():
    return st.fixed_dictionaries(dict(
        fluence=c14.logu(1e2, 1e16), Cd=c14.cd_ratio(), fast=c14.fast_ratio(), exposure=c14.logu(1e-3, 1e4),
        mass=c14.logu(1e-6, 1e3)))


def target_factor():
    near = st.tuples(st.sampled_from([1.0, 0.5]), st.sampled_from([-1.0, 1.0]), c14.logu(1e-9, 1e-6)).map(
        lambda t: float(t[0] * (1.0 + t[1] * t[2])))
    return st.one_of(c14.logu(1e-9, 10.0), c14.logu(1e-9, 10.0), c14.logu(0.3, 1.0), c14.logu(1.0, 10.0), near, near,
                     st.just(1.0))


def cases(E):
    return st.fixed_dictionaries(dict(
        atoms=c14.sample_atoms(E), env=st.one_of(bright_env(), bright_env(), any_env()),
        rests1=rest_list(), rests2=rest_list(), k=target_factor()))


# ----------------------------------------------------------------------
def activate(E, formula, envd, rests):
    environment = c14.make_env(E, envd)
    s = E.act.Sample(formula, envd["mass"])
    s.calculate_activation(environment, exposure=envd["exposure"], rest_times=rests)
    return s


def outcome(sample, target):
    try:
        t = sample.decay_time(target)
    except RuntimeError as e:
        return ("runtime", str(e)[:100])
    except Exception as e:  # noqa
        return ("exc", type(e).__name__, lib_frame(e.__traceback__) or "?", str(e)[:100])
    return ("time", t)


def cause(products, rests, zero):
    """Label of the input class of one rest-time list (chosen by the oracle
    from the inputs only)."""
    To = min(rests)
    lost = False
    if To > 0:
        for a, T in products:
            if a > 0 and D(a) * ra.rest_factor({"Thalf_hrs": T}, To) < D("1e-290"):
                lost = True
    if lost:
        return "product-underflows-at-first-rest-time"
    if To == 0:
        return "first-rest-0"
    if To == 1:
        return "first-rest-1"
    return "first-rest-positive"


def judge(case, formula, envd, k, products, A0, target, relation, zero, L, why, r):
    """One outcome of decay_time against the truth A(t) = sum_i A_i(0) 2^(-t/T_i)."""
    tgt = D(target)

    def fail(kind, w, msg):
        raise Violation("c15:%s:%s" % (kind, w), "%s, mass %r, target %r = %r*A(0): %s" % (formula, envd["mass"], target, k, msg), case)

    if r[0] == "exc":
        w = why
        if zero and r[1] in ("ZeroDivisionError", "ValueError"):
            w = "zero-activity-product"
        fail("exception:%s" % r[1], w, "rest times %r: decay_time raised %s in %s: %s" % (L, r[1], r[2], r[3]))
    if r[0] != "time":
        return
    t = r[1]
    if not (t >= 0):
        fail("negative-time", why, "rest times %r: returned %r" % (L, t))
    if relation == "below" and t != 0:
        fail("positive-time-below-target", why, "rest times %r: A(0) = %.17g <= target but returned %r" % (L, float(A0), t))
    if relation == "above" and t == 0:
        fail("zero-above-target", why, "rest times %r: A(0) = %.17g > target but returned 0" % (L, float(A0)))
    if t > 0:
        At = ra.total_activity(products, t)
        if abs(At - tgt) > ACC * tgt:
            fail("inaccurate", why, "rest times %r: returned %r h where the activity is %.17g (%.3g %% off)"
                 % (L, t, float(At), float(100 * abs(At - tgt) / tgt)))


def relation_of(A0, target):
    tgt = D(target)
    return "band" if abs(A0 - tgt) <= BAND * tgt else ("above" if A0 > tgt else "below")


def check_case(ctx, v):
    E = env()
    atoms, envd, k = v["atoms"], v["env"], v["k"]
    formula = "".join(c14.atom_string(sp, cnt) for sp, cnt in atoms)
    lists = [[0.0], list(v["rests1"]), list(v["rests2"])]
    case = dict(v, kind="decay", formula=formula)
    try:
        base = activate(E, formula, envd, [0.0])
    except Exception:  # noqa   (C14's business)
        ctx.count("skipped:activation-raises")
        return
    products = [(vals[0], ai.Thalf_hrs) for ai, vals in base.activity.items()]
    if not products:
        ctx.case((formula, "none"), nontrivial=False, cls=["no-products"])
        r = outcome(base, 1.0)
        if r != ("time", 0):
            raise Violation("c15:no-activity", "%r has no activation products, decay_time(1) gave %r" % (formula, r), case)
        return
    zero = [a for a, T in products if a <= 0]
    positive = [(a, T) for a, T in products if a > 0]
    A0 = ra.total_activity(products, 0.0)
    if A0 <= 0 or not positive or not math.isfinite(float(A0)):
        ctx.count("skipped:no-positive-activity")
        return
    target = float(A0 * D(k))
    if not (target > 0) or not math.isfinite(target):
        ctx.count("skipped:target-underflow")
        return
    tgt = D(target)
    halves = sorted(T for a, T in positive)
    spread = len(positive) >= 3 and halves[-1] / halves[0] >= 1e6
    without0 = any(min(L) > 0 for L in lists)
    relation = "band" if abs(A0 - tgt) <= BAND * tgt else ("above" if A0 > tgt else "below")
    nontrivial = (0.3 * float(A0) < target < float(A0)) or without0 or spread
    cls = ["A0:" + relation, "products:%s" % ("1" if len(products) == 1 else "2-5" if len(products) <= 5 else ">5")]
    if spread:
        cls.append("half-lives-span>=1e6")
    if zero:
        cls.append("has-zero-activity-product")
    if 0.3 * float(A0) < target < float(A0):
        cls.append("target-in-(0.3,1)A0")
    if target < 1e-7:
        cls.append("target<1e-7uCi")

    results = []
    for L in lists:
        try:
            s = base if L == [0.0] else activate(E, formula, envd, L)
        except Exception:  # noqa
            ctx.count("skipped:activation-raises")
            return
        why = cause(products, L, zero)
        r = outcome(s, target)
        again = outcome(s, target)
        if again != r:
            raise Violation("c15:reuse:decay-time-differs",
                            "%s, rest times %r: decay_time(%r) asked twice on the same sample gave %r then %r"
                            % (formula, L, target, r[1:], again[1:]), case)
        results.append((L, why, r))
        cls.append("list:" + why)
        cls.append("outcome:" + r[0])
    ctx.case((formula, c14.envkey(dict(envd, rests=[])), tuple(map(tuple, lists)), target), nontrivial=nontrivial,
             sample={"formula": formula, "env": envd, "lists": lists[1:], "target": target, "A0": float(A0)}, cls=cls)

    for L, why, r in results:
        judge(case, formula, envd, k, products, A0, target, relation, zero, L, why, r)
    kinds = [r[0] for _, _, r in results]
    if "runtime" in kinds and "time" in kinds:
        L, why, r = [x for x in results if x[2][0] == "runtime"][0]
        other = [x for x in results if x[2][0] == "time"][0]
        raise Violation("c15:rest-time-dependence:%s" % why,
                        "%s, mass %r, target %r = %r*A(0): rest times %r: RuntimeError (%s) but rest times %r give %r"
                        % (formula, envd["mass"], target, k, L, r[1], other[0], other[2][1]), case)
    if all(x == "runtime" for x in kinds):
        ctx.inconclusive += 1
        ctx.count("inconclusive:runtime-error-for-every-list")


# ----------------------------------------------------------------------
# one Sample reused for consecutive calculations; decay_time asked repeatedly
def reuse_cases(E):
    return st.fixed_dictionaries(dict(
        atoms=c14.sample_atoms(E), mass=c14.logu(1e-3, 1e3), steps=c14.reuse_steps(bright=True),
        first=st.sampled_from(["NIST", "IAEA"]), ks=st.lists(target_factor(), min_size=2, max_size=2),
        clone=st.one_of(st.none(), st.tuples(st.sampled_from(["copy", "deepcopy", "pickle"]), st.booleans()).map(list))))


def _clone(how, sample):
    import copy
    import pickle
    if how == "copy":
        return copy.copy(sample)
    if how == "deepcopy":
        return copy.deepcopy(sample)
    try:
        return pickle.loads(pickle.dumps(sample))
    except pickle.PicklingError as e:
        if "not the same object" in str(e):
            # a module was re-executed (pbt/ambient.py 'reload') after the activation rows were made: instances of the
            # previous class object cannot be pickled by Python's own rules; use a deep copy instead
            return copy.deepcopy(sample)
        raise


def same_outcome(a, b):
    if a[0] != b[0]:
        return False
    if a[0] == "time":
        return a[1] == b[1] or abs(a[1] - b[1]) <= 1e-9 * max(abs(a[1]), abs(b[1]))
    if a[0] == "exc":
        return a[1] == b[1]
    return True


def check_reuse(ctx, v):
    """2-3 consecutive calculate_activation calls on ONE Sample (beam, exposure,
    rest times and abundance function change; the two abundance functions
    alternate).  After each call decay_time of the reused sample must equal
    decay_time of a fresh Sample given the same call, for two targets relative to
    the activity at removal and for the absolute targets asked in the previous
    step (a memo must not outlive the calculation); asking twice gives the same
    answer; every answer is judged against the truth; the rest-time list and the
    ActivationEnvironment (shared by the samples) are unchanged."""
    from ..guards import unchanged
    E = env()
    atoms, mass, steps, ks = v["atoms"], v["mass"], v["steps"], v["ks"]
    formula = "".join(c14.atom_string(sp, cnt) for sp, cnt in atoms)
    case = dict(v, kind="reuse", formula=formula)
    env_objs = {}
    try:
        reused = E.act.Sample(formula, mass)
    except Exception:  # noqa
        ctx.count("skipped:formula")
        return
    ctx.case(("reuse", formula, mass, repr(steps), v["first"], tuple(ks)), nontrivial=True,
             sample={"formula": formula, "steps": steps, "ks": ks}, cls=["reuse:steps:%d" % len(steps)])
    previous = []
    clone, recorded = None, []       # a copy of the sample taken after the previous step, and what it answered then
    for i in range(len(steps)):
        envd = c14.step_env(steps, i, mass)
        which = v["first"] if i % 2 == 0 else c14.other(v["first"])
        abundance = E.act.NIST2001_isotopic_abundance if which == "NIST" else E.act.IAEA1987_isotopic_abundance
        ekey = (envd["fluence"], envd["Cd"], envd["fast"])
        environment = env_objs.setdefault(ekey, c14.make_env(E, envd))
        snap = dict(vars(environment))
        L = list(envd["rests"])
        where = "step %d of %d (%s, exposure %r, rest times %r)" % (i + 1, len(steps), which, envd["exposure"], envd["rests"])
        try:
            fresh = E.act.Sample(formula, mass)
            fresh.calculate_activation(environment, exposure=envd["exposure"], rest_times=list(L), abundance=abundance)
            base = E.act.Sample(formula, mass)
            base.calculate_activation(environment, exposure=envd["exposure"], rest_times=[0.0], abundance=abundance)
        except Exception:  # noqa  (C14's business)
            ctx.count("skipped:activation-raises")
            return
        # rejected requests first (the caller catches the exceptions): rest times that are not a list, on the reused
        # sample - at step 0 that is a sample which has never been calculated - and a target that is not a number
        if len(formula) % 2 == i % 2:
            def _gives_up():
                yield 0.0
                raise ValueError("rest times unavailable")
            for bad_rests in (24, None, _gives_up()):
                try:
                    reused.calculate_activation(environment, exposure=envd["exposure"], rest_times=bad_rests,
                                                abundance=abundance)
                except Exception:  # noqa
                    ctx.count("reuse:rejected-rest-times")
            if i:
                for bad_target in ("1e-3", None, object()):
                    try:
                        reused.decay_time(bad_target)
                    except Exception:  # noqa
                        ctx.count("reuse:rejected-target")
        try:
            with unchanged("c15", case, rest_times=L):
                reused.calculate_activation(environment, exposure=envd["exposure"], rest_times=L, abundance=abundance)
        except Violation:
            raise
        except Exception as e:  # noqa
            raise Violation("c15:reuse:sample-state", "%s %s: calculate_activation on the reused sample raised %s: %s"
                            % (formula, where, type(e).__name__, str(e)[:120]), case)
        # a copy of the sample (copy.copy / deepcopy / pickle round trip) taken after the previous step is a sample in
        # its own right: the original's new calculation must not change what the copy answers, and a new calculation
        # on the copy must not change what the original answers (judged below against a fresh sample and the truth)
        if clone is not None:
            how, recalc = v["clone"]
            if recalc:
                try:
                    clone.calculate_activation(environment, exposure=envd["exposure"] * 3, rest_times=[0.0, 2.0],
                                               abundance=abundance)
                except Exception as e:  # noqa
                    raise Violation("c15:clone:raises", "%s %s: calculate_activation on a %s of the sample raised %s: %s"
                                    % (formula, where, how, type(e).__name__, str(e)[:120]), case)
                ctx.count("reuse:clone-recalculated:" + how)
            else:
                for target, o_then in recorded:
                    o_now = outcome(clone, target)
                    if not same_outcome(o_now, o_then):
                        raise Violation("c15:clone:changed-by-original",
                                        "%s %s: a %s of the sample taken after the previous step answered decay_time(%r) = %r "
                                        "then and %r after the ORIGINAL was recalculated" % (formula, where, how, target,
                                                                                             o_then[1:], o_now[1:]), case)
                ctx.count("reuse:clone-asked-again:" + how)
        products = [(vals[0], ai.Thalf_hrs) for ai, vals in base.activity.items()]
        zero = [a for a, T in products if a <= 0]
        A0 = ra.total_activity(products, 0.0) if products else D(0)
        targets = []
        if products and A0 > 0 and math.isfinite(float(A0)):
            for k in ks:
                t = float(A0 * D(k))
                if t > 0 and math.isfinite(t):
                    targets.append((k, t))
        else:
            ctx.count("reuse:step-without-activity")
            targets.append((None, 1.0))
        asked = targets + [(None, t) for _, t in previous]
        # the ActivationEnvironment object is changed in place (the caller moves on to the next beam setting) after the
        # calculation and before the first question: the answers belong to the calculation that was made
        bumped = None
        if (len(formula) + i) % 3 == 0:
            bumped = (environment.fluence,)
            environment.fluence = environment.fluence * 64.0
            ctx.count("reuse:environment-changed-before-first-question")
        o_bumped = [outcome(reused, t) for _, t in asked] if bumped else None
        if bumped:
            environment.fluence = bumped[0]
        if products and A0 > 0 and math.isfinite(float(A0) * 10):
            # a query must not change the sample: ask for a high level first
            outcome(reused, float(A0) * 10)
        for n, (k, target) in enumerate(asked):
            if o_bumped is not None:
                o_now = outcome(reused, target)
                if not same_outcome(o_now, o_bumped[n]):
                    raise Violation("c15:reuse:environment-object", "%s %s: decay_time(%r) answered %r while the environment "
                                    "object had been changed in place after the calculation, and %r with it restored"
                                    % (formula, where, target, o_bumped[n][1:], o_now[1:]), case)
            if n:
                # every comparison value comes from a sample that was never asked before
                fresh = E.act.Sample(formula, mass)
                fresh.calculate_activation(environment, exposure=envd["exposure"], rest_times=list(L), abundance=abundance)
            o_f = outcome(fresh, target)
            o_r = outcome(reused, target)
            o_r2 = outcome(reused, target)
            ctx.count("reuse:outcome:" + o_r[0])
            if not same_outcome(o_r, o_r2) or (o_r[0] == "time" and o_r[1] != o_r2[1]):
                raise Violation("c15:reuse:decay-time-differs",
                                "%s %s: decay_time(%r) asked twice on the same sample gave %r then %r"
                                % (formula, where, target, o_r[1:], o_r2[1:]), case)
            if not same_outcome(o_r, o_f):
                raise Violation("c15:reuse:sample-state",
                                "%s %s: decay_time(%r) on the reused sample gives %r, on a fresh sample %r"
                                % (formula, where, target, o_r[1:], o_f[1:]), case)
            if products and A0 > 0:
                why = cause(products, L, zero)
                judge(case, formula, envd, k, products, A0, target, relation_of(A0, target), zero, L, why, o_r)
            elif o_r != ("time", 0):
                raise Violation("c15:no-activity", "%s %s: no activity but decay_time(%r) gave %r" % (formula, where, target, o_r), case)
        if dict(vars(environment)) != snap:
            raise Violation("c15:reuse:environment-modified", "%s %s: the ActivationEnvironment changed from %r to %r"
                            % (formula, where, snap, dict(vars(environment))), case)
        previous = targets
        if v.get("clone"):
            try:
                clone = _clone(v["clone"][0], reused)
            except Exception as e:  # noqa
                raise Violation("c15:clone:raises", "%s %s: %s of the sample raised %s: %s"
                                % (formula, where, v["clone"][0], type(e).__name__, str(e)[:120]), case)
            recorded = [(t, outcome(reused, t)) for _, t in targets]
            for target, o_then in recorded:
                o_c = outcome(clone, target)
                if not same_outcome(o_c, o_then):
                    raise Violation("c15:clone:differs", "%s %s: a %s of the sample answers decay_time(%r) = %r, the sample %r"
                                    % (formula, where, v["clone"][0], target, o_c[1:], o_then[1:]), case)


def task_reuse(ctx, n):
    E = env()
    ctx.search("reuse", reuse_cases(E), check_reuse, n)


# ----------------------------------------------------------------------
# daughters listed under several parent elements (sometimes with different half-lives)
FAMILY_ENVS = [
    dict(fluence=1e10, Cd=0.0, fast=0.0, exposure=10.0, mass=1.0),
    dict(fluence=1e12, Cd=20.0, fast=0.5, exposure=100.0, mass=0.1),
]
FAMILY_KS = [1e-6, 1e-3, 0.1, 0.5, 0.9]
FAMILY_MULT = [0.5, 3.0, 8.0]


def check_family(ctx, case):
    """A sample containing both parents of a shared daughter.  Targets: the true
    total activity at 0.5, 3 and 8 half-lives of that daughter (every half-life the
    table lists for it under the two parents), where its terms matter, and the
    generic fractions of A(0); asked of a sample activated with rest_times=[0] and
    of one activated with the case's rest times."""
    E = env()
    atoms, envd, rests = case["atoms"], case["env"], list(case["rests"])
    formula = "".join(c14.atom_string(sp, cnt) for sp, cnt in atoms)
    try:
        base = activate(E, formula, envd, [0.0])
        second = activate(E, formula, envd, rests)
    except Exception:  # noqa   (C14's business)
        ctx.count("skipped:activation-raises")
        return
    products = [(vals[0], ai.Thalf_hrs) for ai, vals in base.activity.items()]
    zero = [a for a, T in products if a <= 0]
    A0 = ra.total_activity(products, 0.0) if products else D(0)
    ctx.case(("family", formula, c14.envkey(dict(envd, rests=rests))), nontrivial=True,
             sample={"daughter": case.get("daughter"), "formula": formula, "env": envd, "rests": rests},
             cls=["family", "family:" + ("fast" if envd["fast"] else "thermal-only")])
    if not products or A0 <= 0:
        ctx.count("family:no-activity")
        return
    targets = []
    for T in case["halflives"]:
        for m in case.get("mult", FAMILY_MULT):
            a = float(ra.total_activity(products, T * m))
            if a > 0 and math.isfinite(a):
                targets.append((a, "A(%g h)" % (T * m)))
    for k in case.get("ks", FAMILY_KS):
        a = float(A0 * D(k))
        if a > 0 and math.isfinite(a):
            targets.append((a, "%g*A(0)" % k))
    for target, label in targets:
        k = float(D(target) / A0)
        for L, s in (([0.0], base), (rests, second)):
            r = outcome(s, target)
            again = outcome(s, target)
            if again != r:
                raise Violation("c15:reuse:decay-time-differs", "%s, rest times %r: decay_time(%r) asked twice gave %r then %r"
                                % (formula, L, target, r[1:], again[1:]), dict(case, kind="family", formula=formula))
            ctx.count("family:outcome:" + r[0])
            judge(dict(case, kind="family", formula=formula, failing_target=label), formula, envd, k, products, A0, target,
                  relation_of(A0, target), zero, L, cause(products, L, zero), r)


def family_cases(E):
    out = []
    for n, (name, atoms, hl) in enumerate(c14.family_formulas(E)):
        for m, envd in enumerate(FAMILY_ENVS):
            out.append(dict(kind="family", daughter=name, atoms=atoms, env=envd, halflives=hl,
                            rests=[[1.0, 24.0], [360.0, 2.0], [0.0, 5.0]][(n + m) % 3]))
    return out


def task_families(ctx, part, parts):
    E = env()
    cases_ = family_cases(E)
    ctx.extra["family_cases"] = len(cases_)
    for case in cases_[part::parts]:
        ctx.check(check_family, case)


# ----------------------------------------------------------------------
# several samples calculated first, then all of them questioned with the same absolute targets
def multi_cases(E):
    one = st.fixed_dictionaries(dict(atoms=c14.sample_atoms(E), env=st.one_of(bright_env(), bright_env(), any_env()),
                                     rests=rest_list()))
    return st.fixed_dictionaries(dict(
        samples=st.lists(one, min_size=2, max_size=4),
        absolute=st.lists(st.one_of(c14.logu(1e-9, 1e3), st.just(5e-4)), min_size=1, max_size=2),
        ks=st.lists(target_factor(), min_size=1, max_size=2),
        order=st.lists(st.integers(0, 10**6), min_size=16, max_size=16)))


def check_multi(ctx, v):
    """2-4 different samples are all calculated BEFORE any decay_time question; then every
    sample is asked the same bit-identical absolute targets (drawn ones, and k*A(0) of every
    sample asked of ALL samples) in a drawn interleaved order.  Each answer is judged by the
    sample's own truth, and must equal the answer of a fresh Sample that is calculated and
    questioned alone at the end."""
    E = env()
    case = dict(v, kind="multi")
    specs = v["samples"]
    samples = []
    try:
        for sp in specs:
            formula = "".join(c14.atom_string(a, cnt) for a, cnt in sp["atoms"])
            s = activate(E, formula, sp["env"], list(sp["rests"]))
            base = activate(E, formula, sp["env"], [0.0])          # truth: activities at removal (never questioned)
            samples.append(dict(formula=formula, s=s, base=base, env=sp["env"], rests=list(sp["rests"])))
    except Exception:  # noqa  (C14's business)
        ctx.count("skipped:activation-raises")
        return
    targets = [float(t) for t in v["absolute"]]
    for smp in samples:
        smp["products"] = [(vals[0], ai.Thalf_hrs) for ai, vals in smp["base"].activity.items()]
        smp["zero"] = [a for a, T in smp["products"] if a <= 0]
        smp["A0"] = ra.total_activity(smp["products"], 0.0) if smp["products"] else D(0)
        if smp["A0"] > 0 and math.isfinite(float(smp["A0"])):
            for k in v["ks"]:
                t = float(smp["A0"] * D(k))
                if t > 0 and math.isfinite(t):
                    targets.append(t)
    targets = sorted(set(targets))
    ctx.case(("multi", tuple(x["formula"] for x in samples), repr([x["env"] for x in samples]), tuple(targets), tuple(v["order"])),
             nontrivial=True, sample={"formulas": [x["formula"] for x in samples], "targets": targets},
             cls=["multi:samples:%d" % len(samples), "multi:targets:%d" % len(targets)])
    queries = [(i, t) for t in targets for i in range(len(samples))]
    order = v["order"]
    queries = [q for _, _, q in sorted((order[n % len(order)], n, q) for n, q in enumerate(queries))]
    answers = {}
    for i, target in queries:
        smp = samples[i]
        r = outcome(smp["s"], target)
        answers[(i, target)] = r
        ctx.count("multi:outcome:" + r[0])
        if smp["products"] and smp["A0"] > 0:
            k = float(D(target) / smp["A0"])
            judge(dict(case, failing_sample=i, failing_target=target), smp["formula"], smp["env"], k, smp["products"], smp["A0"],
                  target, relation_of(smp["A0"], target), smp["zero"], smp["rests"],
                  cause(smp["products"], smp["rests"], smp["zero"]), r)
        elif r != ("time", 0):
            raise Violation("c15:no-activity", "%s has no activity but decay_time(%r) gave %r" % (smp["formula"], target, r), case)
    # a fresh Sample, calculated and questioned alone
    for i, smp in enumerate(samples):
        fresh = activate(E, smp["formula"], smp["env"], list(smp["rests"]))
        for target in targets:
            r = outcome(fresh, target)
            if not same_outcome(r, answers[(i, target)]):
                raise Violation("c15:reuse:multi-sample-differs",
                                "sample %d (%s) among %r: decay_time(%r) gave %r after all samples were calculated, a fresh "
                                "sample questioned alone gives %r" % (i, smp["formula"], [x["formula"] for x in samples], target,
                                                                      answers[(i, target)][1:], r[1:]), case)


def task_multi(ctx, n):
    E = env()
    ctx.search("multi", multi_cases(E), check_multi, n)


def task_search(ctx, n):
    E = env()
    ctx.search("decay", cases(E), check_case, n)


FIXED = [
    # the module doctest's sample, with list variations
    dict(atoms=[[["Co", 0, 0], "30"], [["Fe", 0, 0], "70"]], env=dict(fluence=1e5, Cd=70.0, fast=50.0, exposure=10.0, mass=10.0)),
    dict(atoms=[[["Mg", 0, 0], "1"]], env=dict(fluence=1e5, Cd=70.0, fast=50.0, exposure=10.0, mass=10.0)),
    dict(atoms=[[["Au", 0, 0], "1"]], env=dict(fluence=1e8, Cd=0.0, fast=0.0, exposure=1.0, mass=1.0)),
    dict(atoms=[[["Al", 0, 0], "2"], [["O", 0, 0], "3"]], env=dict(fluence=1e10, Cd=20.0, fast=10.0, exposure=100.0, mass=0.5)),
]


def task_fixed(ctx):
    """A small deterministic grid around the documented example."""
    for base in FIXED:
        for L in ([0.0, 1.0, 24.0, 360.0], [360.0], [1.0, 24.0], [24.0, 2.0], [0.5], [1e4, 0.0]):
            for k in (1e-6, 1e-3, 0.1, 0.5 * (1 + 1e-7), 0.75, 1 - 1e-8, 1 + 1e-8, 3.0):
                ctx.check(check_case, dict(base, rests1=L, rests2=[0.0], k=k))


def tasks(tier):
    if tier == "quick":
        out = [("decay-%d" % i, task_search, dict(n=350)) for i in range(5)]
        out.append(("reuse", task_reuse, dict(n=200)))
        out.append(("multi", task_multi, dict(n=150)))
        out += [("families-%d" % i, task_families, dict(part=i, parts=3)) for i in range(3)]
        out.append(("fixed", task_fixed, {}))
        return out
    out = [("decay-%02d" % i, task_search, dict(n=10000)) for i in range(13)]
    out += [("reuse-%d" % i, task_reuse, dict(n=4000)) for i in range(2)]
    out += [("multi-%d" % i, task_multi, dict(n=3000)) for i in range(2)]
    out += [("families-%d" % i, task_families, dict(part=i, parts=2)) for i in range(2)]
    out.append(("fixed", task_fixed, {}))
    return out


def replay(ctx, case):
    if case.get("kind") == "reuse":
        check_reuse(ctx, case)
    elif case.get("kind") == "multi":
        check_multi(ctx, case)
    elif case.get("kind") == "family":
        check_family(ctx, case)
    else:
        check_case(ctx, case)
