"""
C12 - density, natural density, isotope substitution and cell volume are consistent.

Four families of cases, all with formulas rendered from derivation trees
(pbt/formula_ast.py) and reference values from pbt/refcalc_mix.py (Fractions
over the masses of the table atoms; Formula.mass / natural_mass_ratio are the
code under test and are not used):

  density   the density reaches the formula by one of ten routes (keywords,
            attributes, '@' tags, copy constructor, dict/structure initialiser);
            density and natural_density must differ by the natural mass ratio,
            and setting one then reading the other inverts.
  single    every element, isotope and element ion (sweep) and generated isotope
            ions: a formula of one atom has that atom's density (or None).
  replace   f.replace(source, target, portion): expected atom map, density
            scaled by the mass, unknown density stays unknown.
  volume    packing factor by name (any case) / number / default, and lattice
            parameters in every documented call form.
"""
from .. import subtable
from fractions import Fraction
from math import pi

from hypothesis import strategies as st

from ..runner import Violation, lib_frame
from .. import formula_ast as fa
from .. import refcalc_mix as rc
from ..atoms import Pool, atom_key, spec_key, spec_class

PROPERTY = "C12"
RULE = ("density: Hypothesis draws a compound derivation tree over all atom classes (element, isotope, D/T, ion, "
        "isotope ion), a density in (0, 30] and one of ten routes (density= / natural_density= keyword on a string, "
        "a Formula, a dict or a structure; attribute assignment; '@d' '@dn' '@di' tags on a compound; and, "
        "as the group-tag family, the same three tags after a PARENTHESISED MIXTURE of 2..3 drawn components (wt%, "
        "vol%, mass/volume or layer parts; parsed alone or as the only part of a quantity), which must also equal the "
        "mixture built by mix_by_weight/mix_by_volume with density=/natural_density= and by attribute assignment); oracle: density and "
        "natural_density equal d or d*/ratio with ratio = sum n*(element mass - q*m_e) / sum n*(atom mass) computed "
        "in Fractions, then a generated history of 2..8 assignments (density / natural_density, "
        "values from a pool of three so that repeats are frequent) runs on the same object with both attributes checked "
        "after every step, and both setters are inverted once more; non-trivial = the formula holds an isotope "
        "and an ion (or an isotope ion). single: sweep of all elements, isotopes and element ions plus generated "
        "isotope ions, each as string, atom object and structure, oracle = the atom's own density; non-trivial = "
        "isotope or ion. replace: tree with or without density, source/target drawn from the formula's atoms or from "
        "the table (source != target), portion in {0, 1} or (0, 1); oracle: expected atom map and density*mass'/mass, "
        "None stays None; non-trivial = 0 < portion < 1 with source and target both present. volume: atoms with a "
        "covalent radius; packing factor by name in any letter case, number or default; lattice a[,b,c][,angles] with a valid cell, each "
        "case called in EVERY shape (first k = 0..6 parameters positional, the rest by keyword, omitted ones left to "
        "their documented default) through Formula.volume and util.cell_volume, the documented exception (one "
        "positional argument and nothing else) judged as a packing factor; oracle: closed forms; non-trivial = >= 2 distinct atoms "
        "(packing) or a non-right angle (lattice). Cases run on the public and on a private table; distinct by "
        "(family, string, route/arguments).")
ASSUMPTIONS = [
    "atom.mass, atom.density and atom.covalent_radius of the table atoms are trusted (C06, C20)",
    "tolerances: density ratio rel max(1e-14, (4N+16)*2^-53) for N distinct atoms (two sums of N products and two "
    "divisions in doubles); replace counts rel 1e-13, replaced density rel 1e-13 + 8*2^-53*(mass+|mass change|)/mass' "
    "(the implementation forms mass' as a difference); volume rel 1e-13; lattice rel 1e-13 + 16*2^-53/D with D the "
    "Gram determinant (>= 1e-3 by construction)",
    "source == target is excluded ('one atom for another'); an entry with count 0 left in the atom map is treated "
    "as absent; when a formula of unknown density collapses to a single atom by substitution its density is not "
    "judged (the single-atom default and 'stays unknown' conflict)",
    "util.cell_volume documents beta, gamma default to alpha while Formula.volume documents 90 degrees: when some "
    "but not all angles are given either reading is accepted",
    "density and natural_density keywords are never given together (the precedence is not documented)",
    "portions are 0, 1 or in [1e-12, 1]: a product count*portion that underflows to 0 is outside the domain",
    "reading natural_density of a formula whose density is unknown is not judged (the property is silent)",
]

_STATE = {}
EPS = 2.0 ** -53
NAMES = ["cubic", "bcc", "hcp", "fcc", "diamond"]


def env():
    if not _STATE:
        import periodictable
        from periodictable import core, mass, density, covalent_radius
        T = subtable.new("c12-private")
        mass.init(T)
        density.init(T)
        covalent_radius.init(T)
        _STATE["tables"] = {"public": periodictable.elements, "private": T}
        _STATE["pool"] = Pool(periodictable.elements)
        rad = [el.symbol for el in periodictable.elements if el.number > 0 and el.covalent_radius is not None]
        _STATE["radius_pool"] = Pool(periodictable.elements, symbols=rad)
        _STATE["pt"] = periodictable
        from periodictable.formulas import Formula
        _STATE["Formula"] = Formula
        _STATE["emass"] = periodictable.constants.electron_mass
    return _STATE


def close(x, y, rel):
    return x == y or abs(x - y) <= rel * max(abs(x), abs(y))


def atom_map(f, T, bucket, case):
    """{key: count} of a formula; every atom must be the unique object of T."""
    got = {}
    for atom, n in f.atoms.items():
        k = atom_key(atom)
        if k in got or atom is not rc.key_atom(T, k):
            raise Violation(bucket + ":identity", "atom %r is not the (unique) object of the table in use" % (atom,), case)
        got[k] = n
    return got


def tree_classes(tree):
    return sorted(set("atom:" + spec_class(a[1]) for a, _ in fa.atoms_of(tree["g"])))


def mixes_isotope_and_ion(comp):
    return any(a for _, a, _ in comp) and any(c for _, _, c in comp)


# ----------------------------------------------------------------------
# density routes
ROUTES = ["kw-density", "kw-natural", "attr-density", "attr-natural", "tag", "tag-i", "tag-n",
          "copy-density", "copy-natural", "dict-natural", "dict-density", "structure-natural"]


def structure_of(E, T, tree):
    """Nested (count, fragment) structure equivalent to the tree, built from atom objects."""
    def groups(gs):
        out = []
        for g in gs:
            if g[0] == "i":
                inner = [(float(fa.cval(a[3])), rc.key_atom(T, spec_key(E["pool"], a[1]))) for a in g[2]]
                out.append((float(fa.cval(g[1])), inner))
            else:
                out.append((float(fa.cval(g[3])), groups(g[1])))
        return out
    return groups(tree["g"])


def check_density(ctx, value):
    if value["route"] == "all":
        for r in ROUTES:
            check_density(ctx, dict(value, route=r))
        return
    E = env()
    pt = E["pt"]
    tree, d, d2, route, which = value["tree"], value["d"], value["d2"], value["route"], value["table"]
    T = E["tables"][which]
    comp = fa.composition(E["pool"], tree)
    ratio = float(rc.natural_ratio(T, comp, E["emass"]))
    s = fa.render(dict(tree, d=None))
    case = dict(value, kind="density", string=s)
    nt = mixes_isotope_and_ion(comp)
    ctx.case(("d", which, s, route, d), nontrivial=nt, sample={"string": s, "route": route, "d": d, "table": which},
             cls=["family:density", "route:" + route, "table:" + which] + tree_classes(tree))
    tol = max(1e-14, (4 * len(comp) + 16) * EPS)

    natural = route.endswith("natural") or route == "tag-n"
    if route == "kw-density":
        f = pt.formula(s, density=d, table=T)
    elif route == "kw-natural":
        f = pt.formula(s, natural_density=d, table=T)
    elif route == "attr-density":
        f = pt.formula(s, table=T)
        f.density = d
    elif route == "attr-natural":
        f = pt.formula(s, table=T)
        f.natural_density = d
    elif route in ("tag", "tag-i", "tag-n"):
        ds = value["dstr"]
        d = float(ds)
        f = pt.formula(s + "@" + ds + {"tag": "", "tag-i": "i", "tag-n": "n"}[route], table=T)
    elif route == "copy-density":
        f = pt.formula(pt.formula(s, table=T), density=d)
    elif route == "copy-natural":
        f = pt.formula(pt.formula(s, table=T), natural_density=d)
    elif route == "dict-density":
        f = pt.formula(dict((rc.key_atom(T, k), float(v)) for k, v in comp.items()), density=d)
    elif route == "dict-natural":
        f = pt.formula(dict((rc.key_atom(T, k), float(v)) for k, v in comp.items()), natural_density=d)
    else:
        f = pt.formula(structure_of(E, T, tree), natural_density=d)
    atom_map(f, T, "c12:density", case)
    want_d = d / ratio if natural else d
    want_n = d if natural else d * ratio
    b = "c12:density:%s" % route
    if f.density is None or not close(f.density, want_d, tol):
        raise Violation(b + ":density", "%r via %s: density %r expected %.17g (ratio %.17g)" % (s, route, f.density, want_d, ratio), case)
    if not close(f.natural_density, want_n, tol):
        raise Violation(b + ":natural_density", "%r via %s: natural_density %r expected %.17g (ratio %.17g)"
                        % (s, route, f.natural_density, want_n, ratio), case)
    # a history of assignments on this one object: after every step both
    # attributes are what the last assignment says (values repeat on purpose)
    pool = [d, value["d2"], 1.0]
    hist = []
    for attr, k in value.get("seq", []):
        x = pool[k % len(pool)]
        hist.append("%s=%r" % ("natural_density" if attr == "n" else "density", x))
        if attr == "n":
            f.natural_density = x
            wd, wn = x / ratio, x
        else:
            f.density = x
            wd, wn = x, x * ratio
        if k % 2:
            # an assignment the library rejects (the value cannot be divided by the mass ratio); the caller catches the
            # exception, and both attributes still read what the last accepted assignment says
            import decimal
            bad = [decimal.Decimal("1.25"), "1.25", None, object()][(k // 2) % 4]
            try:
                f.natural_density = bad
            except Exception:  # noqa
                hist.append("natural_density=%r rejected" % (bad,))
            else:
                hist.append("natural_density=%r accepted" % (bad,))
                f.density = wd
        if f.density is None or not close(f.density, wd, tol) or not close(f.natural_density, wn, tol):
            rep = len(hist) >= 2 and hist[-1] in hist[:-1]
            raise Violation("c12:density:sequence:" + ("repeated-value" if rep else "step"),
                            "%r via %s, then %s: density %r natural_density %r expected %.17g and %.17g (ratio %.17g)"
                            % (s, route, "; ".join(hist), f.density, f.natural_density, wd, wn, ratio), case)
    # setting one and reading the other inverts
    f.natural_density = d2
    if not close(f.density, d2 / ratio, tol) or not close(f.natural_density, d2, tol):
        raise Violation("c12:density:setter-natural", "%r: natural_density=%r gives density %r natural_density %r, ratio %.17g"
                        % (s, d2, f.density, f.natural_density, ratio), case)
    f.density = d
    if not close(f.natural_density, d * ratio, tol) or not close(f.density, d, tol):
        raise Violation("c12:density:setter-density", "%r: density=%r gives natural_density %r, ratio %.17g"
                        % (s, d, f.natural_density, ratio), case)


# ----------------------------------------------------------------------
# single atom default
def single_strings(spec, form):
    """A formula of the one atom in a few groupings."""
    a = fa.render_atom(["a", spec, False, None])
    return {"plain": a, "count": a + "2", "lead": "3" + a, "group": "(" + a + ")2", "repeat": a + "2" + a + "3",
            "frac": a + "0.5"}[form]


def check_single(ctx, value):
    E = env()
    pt = E["pt"]
    spec, form, which = value["spec"], value["form"], value["table"]
    T = E["tables"][which]
    key = spec_key(E["pool"], spec)
    atom = rc.key_atom(T, key)
    want = atom.density
    case = dict(value, kind="single")
    ctx.case(("1", which, tuple(spec), form), nontrivial=bool(key[1] or key[2]),
             sample={"atom": spec, "form": form, "table": which},
             cls=["family:single", "form:" + form, "atom:" + spec_class(spec), "table:" + which,
                  "single:density-" + ("unknown" if want is None else "known")])
    if form == "object":
        f = pt.formula(atom)
    elif form == "structure":
        f = E["Formula"](structure=((2, atom),))
    elif form == "dict":
        f = pt.formula({atom: 3})
    else:
        f = pt.formula(single_strings(spec, form), table=T)
    atom_map(f, T, "c12:single", case)
    if not (f.density == want or (want is not None and f.density is not None and close(f.density, want, 1e-15))):
        raise Violation("c12:single:%s" % spec_class(spec), "%r as %s: density %r, the atom has %r" % (spec, form, f.density, want), case)


FORMS = ["plain", "count", "lead", "group", "repeat", "frac", "object", "structure", "dict"]


def task_single_sweep(ctx, part, parts):
    E = env()
    pool = E["pool"]
    specs = []
    for s in pool.symbols:
        z, isos, ions = pool.info[s]
        specs.append([s, 0, 0])
        specs += [[s, a, 0] for a in isos]
        specs += [[s, 0, c] for c in ions]
    specs += [["D", 0, 0], ["T", 0, 0]] + [[x, 0, c] for x in "DT" for c in pool.info["H"][2]]
    for i, spec in enumerate(specs):
        if i % parts != part:
            continue
        for j, which in enumerate(("public", "private")):
            form = FORMS[(i // parts + j * 4) % len(FORMS)]
            ctx.check(check_single, {"spec": spec, "form": form, "table": which})
            if form != "plain":
                ctx.check(check_single, {"spec": spec, "form": "plain", "table": which})
    ctx.extra["swept_atoms"] = len(specs)


# ----------------------------------------------------------------------
# replace
def pick(E, T, comp, sel, other=None):
    """sel = ["in", k] -> k-th atom of the formula (not counting *other*);
    ["out", spec] -> that atom of the table"""
    if sel[0] == "in":
        keys = [k for k in sorted(comp) if k != other]
        if keys:
            return keys[sel[1] % len(keys)]
        # the formula has no other atom: take an element of the table instead
        z = sel[1] % 96 + 1
        return (z if other is None or z != other[0] else z % 96 + 1, 0, 0)
    return spec_key(E["pool"], sel[1])


def check_replace(ctx, value):
    E = env()
    pt = E["pt"]
    tree, which, p = value["tree"], value["table"], value["p"]
    T = E["tables"][which]
    em = E["emass"]
    comp = fa.composition(E["pool"], tree)
    ks = pick(E, T, comp, value["source"])
    kt = pick(E, T, comp, value["target"], ks)
    if ks == kt:
        ctx.count("skipped:source == target")
        return
    s = fa.render(tree)
    case = dict(value, kind="replace", string=s)
    rho0 = rc.compound_density(T, comp, tree["d"], em)
    # expected
    want = dict(comp)
    P = Fraction(p)
    if ks in comp:
        moved = comp[ks] * P
        want[ks] = comp[ks] - moved
        want[kt] = want.get(kt, 0) + moved
    want = dict((k, v) for k, v in want.items() if v != 0)
    m0 = rc.comp_mass(T, comp, em)
    m1 = rc.comp_mass(T, want, em)
    rho1 = None if rho0 is None else rho0 * m1 / m0
    pcls = "0" if p == 0 else "1" if p == 1 else "(0,1)"
    present = "source:%s,target:%s" % ("in" if ks in comp else "out", "in" if kt in comp else "out")
    ctx.case(("r", which, s, ks, kt, p), nontrivial=(0 < p < 1 and ks in comp and kt in comp),
             sample={"string": s, "source": ks, "target": kt, "portion": p, "table": which},
             cls=["family:replace", "portion:" + pcls, present, "table:" + which,
                  "replace:density-" + ("unknown" if rho0 is None else "known")] + tree_classes(tree))
    f = pt.formula(s, table=T)
    src, tgt = rc.key_atom(T, ks), rc.key_atom(T, kt)
    try:
        g = f.replace(src, tgt, p) if (p != 1 or value.get("explicit_one")) else f.replace(src, tgt)
    except Exception as e:  # noqa
        fr = lib_frame(e.__traceback__)
        if fr is None:
            raise
        sub = "unknown-density" if rho0 is None else "known-density"
        raise Violation("c12:replace:%s:%s:%s" % (sub, type(e).__name__, fr),
                        "formula(%r).replace(%r, %r, %r) raised %s: %s" % (s, src, tgt, p, type(e).__name__, e), case)
    got = dict((k, v) for k, v in atom_map(g, T, "c12:replace", case).items() if v != 0)
    if set(got) != set(want):
        raise Violation("c12:replace:atoms", "formula(%r).replace(%r, %r, %r): atoms %r expected %r"
                        % (s, src, tgt, p, sorted(got), sorted(want)), case)
    for k in sorted(want):
        if not close(float(got[k]), float(want[k]), 1e-13):
            what = "source" if k == ks else "target" if k == kt else "other"
            raise Violation("c12:replace:count:" + what, "formula(%r).replace(%r, %r, %r): count of %r is %r expected %.17g"
                            % (s, src, tgt, p, k, got[k], float(want[k])), case)
    # the original is not modified
    if dict((k, v) for k, v in atom_map(f, T, "c12:replace", case).items()) != dict(
            (k, v) for k, v in atom_map(pt.formula(s, table=T), T, "c12:replace", case).items()):
        raise Violation("c12:replace:original-modified", "formula(%r).replace(...) changed the original" % s, case)
    if rho1 is None:
        if g.density is not None:
            if len(want) == 1:
                ctx.count("unjudged:unknown density collapses to a single atom")
            else:
                raise Violation("c12:replace:density-invented", "formula(%r).replace(%r, %r, %r): density %r expected unknown"
                                % (s, src, tgt, p, g.density), case)
    else:
        change = abs(float(m1 - m0))
        tol = 1e-13 + 8 * EPS * (float(m0) + change + (float(comp.get(ks, 0)) * float(P) *
                                                       max(float(rc.atom_mass(T, ks, em)), float(rc.atom_mass(T, kt, em))))) / float(m1)
        if g.density is None or not close(float(g.density), float(rho1), tol):
            raise Violation("c12:replace:density", "formula(%r).replace(%r, %r, %r): density %r expected %.17g = %.17g*%.17g/%.17g"
                            % (s, src, tgt, p, g.density, float(rho1), float(rho0), float(m1), float(m0)), case)


# ----------------------------------------------------------------------
# volume
def spell_name(name, style):
    if style == 0:
        return name
    if style == 1:
        return name.upper()
    if style == 2:
        return name.capitalize()
    return "".join(c.upper() if (i + style) % 2 else c for i, c in enumerate(name))


def check_volume(ctx, value):
    E = env()
    pt = E["pt"]
    tree, which = value["tree"], value["table"]
    T = E["tables"][which]
    comp = fa.composition(E["pool"], tree)
    s = fa.render(tree)
    case = dict(value, kind="volume", string=s)
    f = pt.formula(s, table=T)
    if value["mode"] == "pf":
        how, pf = value["how"], value["pf"]
        if isinstance(pf, list):
            arg = spell_name(NAMES[pf[0] % 5], pf[1] % 5)
            num = rc.PACKING[NAMES[pf[0] % 5]]
            pcls = "name:%s:%s" % (NAMES[pf[0] % 5], ["lower", "upper", "capital", "mixed", "mixed"][pf[1] % 5])
        else:
            arg = num = pf
            pcls = "number"
        if how == "default":
            num, pcls, arg = rc.PACKING["hcp"], "default", None
        # bucket labels: an exception depends on the letter case, a wrong value on the lattice name
        ecls = "name-" + pcls.split(":")[2] if pcls.startswith("name:") else pcls
        vcls = "name-" + pcls.split(":")[1] if pcls.startswith("name:") else pcls
        ctx.case(("v", which, s, how, repr(arg)), nontrivial=len(comp) >= 2,
                 sample={"string": s, "packing_factor": arg, "call": how, "table": which},
                 cls=["family:volume", "volume:packing", "pf:" + pcls, "call:" + how, "table:" + which] + tree_classes(tree))
        radii = [(rc.key_atom(T, k).covalent_radius, float(n)) for k, n in sorted(comp.items())]
        want = rc.sphere_volume(radii, num)
        try:
            got = f.volume() if how == "default" else f.volume(arg) if how == "positional" else f.volume(packing_factor=arg)
        except Exception as e:  # noqa
            fr = lib_frame(e.__traceback__)
            if fr is None:
                raise
            raise Violation("c12:volume:packing:%s:%s" % (ecls, type(e).__name__),
                            "formula(%r).volume(%r) raised %s: %s" % (s, arg, type(e).__name__, e), case)
        if not close(got, want, 1e-13):
            raise Violation("c12:volume:packing:" + vcls,
                            "formula(%r).volume(%r) = %r expected %.17g" % (s, arg, got, want), case)
        return
    # lattice
    names = ["a", "b", "c", "alpha", "beta", "gamma"]
    given = dict((k, value["cell"][k]) for k in names if value["cell"].get(k) is not None)
    npos = value["npos"]
    a = given["a"]
    b = given.get("b", a)
    c = given.get("c", a)
    al, be, ga = given.get("alpha"), given.get("beta"), given.get("gamma")
    # reading U (util.cell_volume): alpha -> 90, beta/gamma -> alpha ; reading V (Formula.volume): all -> 90
    al_u = 90.0 if al is None else al
    readings = [(al_u, al_u if be is None else be, al_u if ga is None else ga),
                (al_u, 90.0 if be is None else be, 90.0 if ga is None else ga)]
    D = min(rc.gram(*r) for r in readings)
    if D < 1e-3:
        ctx.count("skipped:cell not valid (Gram determinant < 1e-3)")
        return
    wants = [rc.lattice_volume(a, b, c, *r) for r in readings]
    nonright = any(x is not None and x != 90 for x in (al, be, ga))
    tol = 1e-13 + 16 * EPS / D
    acls = "angles:" + ("none" if (al, be, ga) == (None, None, None) else "all" if None not in (al, be, ga) else "some")
    gcls = "given:" + "".join(k[0] if k in given else "-" for k in names)
    # Every call shape: the first k parameters positionally (k = 0..6), the rest
    # by keyword.  A positional prefix needs every parameter in it: an omitted b
    # or c is passed as its documented default a; an omitted angle ends the prefix.
    full = dict(given, b=b, c=c)
    kmax = 0
    while kmax < 6 and names[kmax] in full:
        kmax += 1
    from periodictable.util import cell_volume
    for k in range(0, kmax + 1):
        args = [full[x] for x in names[:k]]
        kw = dict((x, given[x]) for x in names[k:] if x in given)
        for target in ("Formula.volume", "util.cell_volume"):
            if target == "Formula.volume" and k == 1 and not kw:
                # the documented exception: one positional argument and nothing else is a packing factor
                radii = [(rc.key_atom(T, key).covalent_radius, float(n)) for key, n in sorted(comp.items())]
                shape_wants, shape_tol, shape = [rc.sphere_volume(radii, a)], 1e-13, "k=1-alone-is-packing-factor"
            else:
                scale = 1.0 if target == "Formula.volume" else 1e24
                shape_wants, shape_tol, shape = [w * scale for w in wants], tol, "k=%d" % k
            ctx.case(("l", which, s, target, repr(args), repr(sorted(kw.items()))), nontrivial=nonright,
                     sample={"string": s, "call": target, "args": args, "kw": kw, "table": which},
                     cls=["family:volume", "volume:lattice", "shape:%s:%s%s" % (target, shape, "+kw" if kw else ""),
                          "table:" + which, gcls, acls])
            try:
                got = f.volume(*args, **kw) if target == "Formula.volume" else cell_volume(*args, **kw)
            except Exception as e:  # noqa
                fr = lib_frame(e.__traceback__)
                if fr is None:
                    raise
                raise Violation("c12:volume:lattice:%s:%s:%s" % (target, shape + ("+kw" if kw else ""), type(e).__name__),
                                "formula(%r): %s(*%r, **%r) raised %s: %s" % (s, target, args, kw, type(e).__name__, e), case)
            if not any(close(got, w, shape_tol) for w in shape_wants):
                sub = "packing" if shape.startswith("k=1-") else "angles" if nonright else "lengths"
                raise Violation("c12:volume:lattice:%s:%s" % (target, sub), "formula(%r): %s(*%r, **%r) = %r expected %s"
                                % (s, target, args, kw, got, " or ".join("%.17g" % w for w in sorted(set(shape_wants)))), case)


# ----------------------------------------------------------------------
# density tag on a parenthesised mixture: '( part // part )@d', '@di', '@dn'
WRAPS = ["top", "mL", "nm", "g", "uL", "cm"]


def check_group_tag(ctx, value):
    """One more density route: the tag after a parenthesised mixture.  The
    group is parsed on its own (percentage mixtures: the grammar accepts
    '(...)@d' as a whole formula) or as the only part of a quantity
    ('3mL (...)@dn', '3 nm (...)@dn': the result is the group's material), and is
    compared with the natural-mass-ratio relation, with the same mixture built
    by mix_by_weight / mix_by_volume with density= / natural_density=, and with
    attribute assignment on the untagged mixture."""
    from . import c11
    E = env()
    pt = E["pt"]
    m, tag, wrap, which = value["mix"], value["tag"], value["wrap"], value["table"]
    T = E["tables"][which]
    if wrap == "top" and m[0] != "p":
        wrap = "mL"          # '(5g A // 3g B)@d' alone is not accepted by the grammar (read as a repeated group)
    ref = c11.Ref(E, T)
    comp, _, _ = ref.mix(m)
    comp = dict((k, v) for k, v in comp.items() if v != 0)
    if ref.ambiguous or ref.errors or not comp:
        ctx.count("skipped:inner mixture not judged (%s)" % (ref.ambiguous + ref.errors + ["empty"])[0])
        return
    group = "(" + value["pads"][0] + c11.render_mix(m) + value["pads"][1] + ")@" + tag[0] + tag[1]
    s = group if wrap == "top" else value["q"] + (" " if value["sp"] else "") + wrap + " " + group
    case = dict(value, kind="group-tag", string=s)
    ratio = float(rc.natural_ratio(T, comp, E["emass"]))
    d = float(tag[0])
    natural = tag[1] == "n"
    want_d = d / ratio if natural else d
    want_n = d if natural else d * ratio
    has_iso = any(a for _, a, _ in comp)
    ctx.case(("g", which, s), nontrivial=(has_iso and natural),
             sample={"string": s, "table": which},
             cls=["family:group-tag", "route:group-tag@" + tag[1], "wrap:" + wrap, "inner:" + m[0] + m[1],
                  "table:" + which, "group:isotopes-" + ("yes" if has_iso else "no"),
                  "group:ions-" + ("yes" if any(c for _, _, c in comp) else "no")])
    tol = 1e-12 + ref.slack
    b = "c12:density:group-tag@%s" % tag[1]
    try:
        f = pt.formula(s, table=T)
    except Exception as e:  # noqa
        fr = lib_frame(e.__traceback__)
        if fr is None:
            raise
        raise Violation(b + ":rejected:" + type(e).__name__, "%r raised %s: %s" % (s, type(e).__name__, str(e)[:200]), case)
    atom_map(f, T, "c12:group-tag", case)
    if f.density is None or not close(f.density, want_d, tol):
        raise Violation(b + ":density", "%r: density %r expected %.17g (tag %s%s, ratio %.17g)"
                        % (s, f.density, want_d, tag[0], tag[1], ratio), case)
    if not close(f.natural_density, want_n, tol):
        raise Violation(b + ":natural_density", "%r: natural_density %r expected %.17g (ratio %.17g)"
                        % (s, f.natural_density, want_n, ratio), case)
    # the same mixture with its density given by keyword and by attribute
    try:
        g = c11.build_mix(E, T, m, {"natural_density" if natural else "density": d})
        h = c11.build_mix(E, T, m)
    except c11.CannotBuild:
        ctx.count("group-tag:no equivalent call")
        return
    if natural:
        h.natural_density = d
    else:
        h.density = d
    for how, x in (("keyword", g), ("attribute", h)):
        if x.density is None or not close(x.density, f.density, tol) or not close(x.natural_density, f.natural_density, tol):
            raise Violation("c12:density:group-tag@%s:differs-from-%s" % (tag[1], how),
                            "%r: density %r natural_density %r, the same mixture with the density given by %s has %r and %r"
                            % (s, f.density, f.natural_density, how, x.density, x.natural_density), case)


def task_group_tag(ctx, n, depth):
    from . import c11
    env()
    c11.env()
    mixes = st.one_of(c11.pct_mix(True, depth, 3), c11.pct_mix(True, depth, 3), c11.qty_mix(True, depth, 3))
    strat = c11.short_repr(st.fixed_dictionaries({
        "mix": mixes,
        "tag": st.tuples(fa.count_str(allow_none=False, max_int=25), st.sampled_from(["n", "n", "", "i"])).map(list),
        "wrap": st.sampled_from(WRAPS + ["top"] * 3),
        "q": st.sampled_from(["3", "0.5", "12.", "250", ".25"]),
        "sp": st.booleans(),
        "pads": st.sampled_from(c11.PADS),
        "table": st.sampled_from(["public", "public", "private"]),
    }), "group_tag_%d" % depth)
    ctx.search("group-tag", strat, check_group_tag, n)


# ----------------------------------------------------------------------
# strategies
def positive(hi=30.0):
    return st.one_of(st.floats(1e-3, hi, allow_nan=False), st.integers(1, int(hi)).map(float),
                     st.sampled_from([1.0, 0.5, 2.16, 19.3, 1e-3]))


def sel(pool):
    inside = st.tuples(st.just("in"), st.integers(0, 40)).map(list)
    return st.one_of(inside, inside, inside, st.tuples(st.just("out"), pool.atom()).map(list))


def task_density(ctx, n, depth):
    E = env()
    strat = st.fixed_dictionaries({
        "tree": fa.compound(E["pool"], depth=depth, density=False),
        "d": positive(), "d2": positive(),
        "dstr": fa.count_str(allow_none=False, max_int=30),
        "route": st.just("all"),
        "seq": st.lists(st.tuples(st.sampled_from(["n", "d", "n"]), st.integers(0, 2)).map(list), min_size=2, max_size=8),
        "table": st.sampled_from(["public", "private"]),
    })
    ctx.search("density", strat, check_density, n)


def task_single(ctx, n):
    E = env()
    pool = E["pool"]
    strat = st.fixed_dictionaries({
        "spec": st.one_of(pool.isotope_ion(), pool.isotope_ion(), pool.dt_ion(), pool.atom()),
        "form": st.sampled_from(FORMS),
        "table": st.sampled_from(["public", "private"]),
    })
    ctx.search("single", strat, check_single, n)


def task_replace(ctx, n, depth):
    E = env()
    pool = E["pool"]
    tree = fa.compound(pool, depth=depth, max_groups=3, max_atoms=3)
    one = st.tuples(pool.atom(), st.sampled_from([None, "2", "0.5"])).map(
        lambda t: {"g": [["i", None, [["a", t[0], False, t[1]]]]], "s": [], "d": None})
    strat = st.fixed_dictionaries({
        "tree": st.one_of(tree, tree, tree, one),
        "source": sel(pool), "target": sel(pool),
        # portions in (0, 1e-12) are raised to 1e-12: count*portion must not underflow to 0
        "p": st.one_of(st.floats(0.0, 1.0, allow_nan=False).map(lambda x: x if x == 0 or x >= 1e-12 else 1e-12),
                       st.integers(1, 999999).map(lambda k: k / 1e6),
                       st.integers(1, 999999).map(lambda k: k / 1e6), st.integers(1, 99).map(lambda k: k / 100.),
                       st.sampled_from([1, 1.0]), st.sampled_from([0, 0.0]),
                       st.sampled_from([0.5, 0.25, 0.1, 0.999999, 1e-9])),
        "explicit_one": st.booleans(),
        "table": st.sampled_from(["public", "private"]),
    })
    ctx.search("replace", strat, check_replace, n)


def task_volume(ctx, n, depth):
    E = env()
    pool = E["radius_pool"]
    tree = fa.compound(pool, depth=depth, max_groups=3, max_atoms=3)
    length = st.one_of(st.floats(0.5, 50.0, allow_nan=False), st.sampled_from([2.8664, 1.0, 5.0, 50.0, 0.5]))
    angle = st.one_of(st.floats(20.0, 160.0, allow_nan=False), st.sampled_from([90, 90.0, 60.0, 120.0, 109.47]))
    opt = lambda s: st.one_of(st.none(), s)
    none3 = st.just([None, None, None])
    all3 = st.lists(angle, min_size=3, max_size=3)
    some3 = st.lists(opt(angle), min_size=3, max_size=3)
    cell = st.tuples(length, opt(length), opt(length), st.one_of(none3, all3, all3, some3)).map(
        lambda t: {"a": t[0], "b": t[1], "c": t[2], "alpha": t[3][0], "beta": t[3][1], "gamma": t[3][2]})

    # every call shape (k positional + the rest by keyword, Formula.volume and util.cell_volume) runs per case
    lattice = st.fixed_dictionaries({"mode": st.just("lattice"), "tree": tree, "cell": cell, "npos": st.just(0),
                                     "table": st.sampled_from(["public", "private"])})
    pf = st.one_of(st.tuples(st.integers(0, 4), st.integers(0, 4)).map(list),
                   st.tuples(st.integers(0, 4), st.integers(0, 4)).map(list),
                   st.floats(0.05, 1.0, allow_nan=False))
    packing = st.fixed_dictionaries({"mode": st.just("pf"), "tree": tree, "pf": pf,
                                     "how": st.sampled_from(["positional", "positional", "keyword", "keyword", "default"]),
                                     "table": st.sampled_from(["public", "private"])})
    ctx.search("volume", st.one_of(packing, lattice), check_volume, n)


def tasks(tier):
    from .. import depth
    from .. import mixed_tables
    return _tasks(tier) + [("little-stack", depth.task, dict(prop=PROPERTY)), ("mixed-tables", mixed_tables.task, dict(prop=PROPERTY))]


def _tasks(tier):
    if tier == "quick":
        return [("density-a", task_density, dict(n=500, depth=2)),
                ("density-b", task_density, dict(n=500, depth=3)),
                ("single-sweep-0", task_single_sweep, dict(part=0, parts=2)),
                ("single-sweep-1", task_single_sweep, dict(part=1, parts=2)),
                ("single", task_single, dict(n=500)),
                ("replace-a", task_replace, dict(n=600, depth=1)),
                ("replace-b", task_replace, dict(n=600, depth=2)),
                ("volume", task_volume, dict(n=800, depth=2)),
                ("group-tag", task_group_tag, dict(n=300, depth=0))]
    out = []
    for k in range(4):
        out.append(("density-%d" % k, task_density, dict(n=10000, depth=1 + k % 3)))
    out.append(("group-tag", task_group_tag, dict(n=8000, depth=1)))
    for k in range(5):
        out.append(("replace-%d" % k, task_replace, dict(n=15000, depth=1 + k % 3)))
    for k in range(3):
        out.append(("volume-%d" % k, task_volume, dict(n=15000, depth=1 + k)))
    out.append(("single", task_single, dict(n=30000)))
    out.append(("single-sweep-0", task_single_sweep, dict(part=0, parts=2)))
    out.append(("single-sweep-1", task_single_sweep, dict(part=1, parts=2)))
    return out


EXHAUSTIVE = False
EXHAUSTIVE_NOTE = ("the single-atom default is swept over every element, isotope and element ion of the table "
                   "(both tables); everything else is sampled")


def replay(ctx, case):
    if isinstance(case, dict) and case.get("kind") == "mixed-tables":
        from .. import mixed_tables
        return mixed_tables.check(ctx, case["property"])
    if isinstance(case, dict) and case.get("kind") == "little-stack":
        from .. import depth
        return depth.check(ctx, case)
    kind = case["kind"]
    fn = {"density": check_density, "single": check_single, "replace": check_replace, "volume": check_volume,
          "group-tag": check_group_tag}[kind]
    fn(ctx, case)
