"""
C09 - lazy loading is invisible: served values do not depend on access order.

Every history runs in its own interpreter forked from a zygote that never
imported periodictable (pbt/histories.py).  Oracle: the canonical run (all
groups touched once through an element read, in registration order) gives the
canonical observation of every event and the canonical digest of everything the
public table serves; a history must reproduce both.
"""
import itertools

from hypothesis import strategies as st

from ..runner import Violation
from .. import histories as H

PROPERTY = "C09"
RULE = ("histories = sequences of first-touch events (attribute read / hasattr / getattr-with-default of the 12 lazy "
        "property names through element-with-data, element-without-data, isotope, ion, isotope ion, D, neutron; "
        "import of each submodule; 12 calculator calls; direct <module>.init(elements) for the 9 loader entry points), "
        "each executed in a fresh interpreter (fork of a zygote that never imported periodictable). Oracle: per-event "
        "observation and the final digest of all values served by the 7 lazy groups for every element/isotope/ion plus "
        "12 calculator results must equal those of the canonical run. Enumerated: all single events, ordered pairs "
        "(quick: same-group pairs of a reduced alphabet + generated cross-group pairs; thorough: all pairs of the "
        "reduced alphabet), closure of the abstract loader state (thorough), and Hypothesis lists of 1-15 events. "
        "non-trivial = the first touch of some group in the history is not a plain element attribute read; "
        "distinct by the event list.")
ASSUMPTIONS = [
    "os.fork of a process that imported numpy/pyparsing but never periodictable is a faithful fresh interpreter "
    "(asserted in every child)",
    "the canonical run is stable under its own events (checked: digest before and after must agree)",
    "user assignment to lazy attributes is not among the property's events and is not generated",
    "x-ray digest samples 12 atoms (not all 92 tables) to keep a history under 0.4 s; C05/C20 sweep the tables",
]

CALC_GROUP = {"xray_n": "xray", "xray_N": "xray", "xray_all_fwd": "xray", "xray_all_rev": "xray", "neutron_sld": "neutron", "neutron_scattering": "neutron", "xray_sld": "xray", "volume": "covalent_radius",
              "activation": "activation", "list": "covalent_radius", "emission_table": "emission", "sld_table": "neutron",
              "D2O_sld": "neutron", "fasta": "neutron", "xray_f0": "xray", "magnetic": "magnetic_ff",
              "activation_iaea": "activation", "abundance_fns": "activation", "activity_fn": "activation",
              "composite_sld": "neutron", "D2O_match": "neutron", "formula_methods": "neutron", "refraction": "xray",
              "from_atoms": "neutron", "atom_methods": "neutron", "xsf_sld_table": "xray", "edep_table": "neutron",
              "comparison_tables": "neutron", "print_scattering": "neutron", "cromermann": "xray",
              "volume_routes": "covalent_radius"}
INIT_GROUP = {"nsf.init": "neutron", "xsf.init": "xray", "xsf.init_spectral_lines": "emission",
              "covalent_radius.init": "covalent_radius", "crystal_structure.init": "crystal_structure",
              "magnetic_ff.init": "magnetic_ff", "activation.init": "activation", "mass.init": None, "density.init": None}
INIT_GROUP.update([(e + "+reload", g) for e, g in list(INIT_GROUP.items())] + [(e + "+clone", g) for e, g in list(INIT_GROUP.items())])
DIGEST_GROUP = dict((g, g) for g in H.GROUPS)
DIGEST_GROUP.update(("calc:" + c, g) for c, g in CALC_GROUP.items())
DIGEST_GROUP["calc:list"] = "covalent_radius"


def full_alphabet():
    evs = []
    for means in ("read", "hasattr", "getattr3"):
        for p in H.LAZY_PROPS:
            for r in H.ROUTES:
                evs.append([means, p, r, "public"])
    evs += [["import", m] for m in H.MODULES]
    evs += [["init", e, "public"] for e in H.INIT_ENTRIES + H.RELOAD_ENTRIES]
    evs += [["calc", c, "public"] for c in H.CALCS]
    evs += bare_table_events(True)
    evs += [["ext", "ok"], ["ext", "fail"]]
    evs += [["init", e, "public"] for e in H.CLONE_ENTRIES]
    evs += [["ambient", "warnerr"]]
    return evs


BARE_PROPS = ["covalent_radius", "covalent_radius_uncertainty", "crystal_structure", "neutron", "neutron_activation", "xray",
              "K_alpha", "K_alpha_units", "magnetic_ff"]
BARE_CALCS = ["neutron_sld", "xray_sld", "volume", "activation", "magnetic", "formula_methods"]


def bare_table_events(full):
    """First touches THROUGH A PRIVATE TABLE THAT NEVER INITIALISED THE GROUP (the user guide's mass-and-density-only
    table): the class-level hook that fires is the public table's, so these are first-touch events of the public
    loaders too. What the bare table's own atom serves is whatever the canonical order serves for the same probe."""
    evs = []
    for p in BARE_PROPS:
        for r in (("el+", "iso", "ion") if full else ("el+",)):
            for means in (("read", "hasattr") if full else ("hasattr",)):
                evs.append([means, p, r, "T0"])
    evs += [["calc", c, "T0"] for c in (BARE_CALCS if full else BARE_CALCS[:2])]
    return evs


def reduced_alphabet():
    evs = []
    for p in ("covalent_radius", "covalent_radius_units", "crystal_structure", "neutron", "neutron_activation", "xray",
              "K_alpha", "K_alpha_units", "magnetic_ff"):
        for r in ("el+", "iso2" if p == "neutron_activation" else "iso", "ion"):
            for means in ("read", "hasattr"):
                evs.append([means, p, r, "public"])
    evs += [["import", m] for m in H.MODULES]
    evs += [["init", e, "public"] for e in H.INIT_ENTRIES + H.RELOAD_ENTRIES]
    # the event-only calculators (printed tables, legacy entry points) are in the full alphabet only
    evs += [["calc", c, "public"] for c in H.CALCS if c not in H.EVENT_ONLY_CALCS[2:]]
    evs += bare_table_events(False)
    evs += [["ext", "ok"], ["ext", "fail"]]
    evs += [["init", e, "public"] for e in H.CLONE_ENTRIES]
    return evs


def ev_group(ev):
    if ev[0] in ("read", "hasattr", "getattr3"):
        return H.GROUP_OF.get(ev[1])
    if ev[0] == "init":
        return INIT_GROUP[ev[1]]
    if ev[0] == "calc":
        return CALC_GROUP[ev[1]]
    return None


def touch_kind(ev):
    if ev[0] in ("read", "hasattr", "getattr3"):
        return "%s:%s" % (ev[0], {"el+": "element", "el-": "element", "n": "element", "iso": "isotope", "iso2": "isotope",
                                  "D": "isotope", "ion": "ion", "isoion": "ion"}[ev[2]])
    return "%s:%s" % (ev[0], ev[1])


def first_touch(history, group):
    for ev in history:
        g = ev_group(ev)
        if g == group or (ev[0] == "calc" and ev[1] == "list" and group in ("covalent_radius", "emission")):
            return touch_kind(ev)
    return "untouched"


def nontrivial(history):
    seen = set()
    for ev in history:
        g = ev_group(ev)
        if g is None or g in seen:
            continue
        seen.add(g)
        if not (ev[0] == "read" and ev[2] in ("el+", "el-", "n")):
            return True
    return False


def judge(history, res, canon):
    """Return (bucket, message) of the first disagreement, or None."""
    if "error" in res:
        raise RuntimeError("history runner failed: %s" % res["error"])
    for ev, o in zip(history, res["obs"]):
        want = canon["obs"].get(H.ev_key(ev))
        if want is None:
            raise RuntimeError("no canonical observation for %r" % (ev,))
        if o != want:
            if o[0] == "exc" and want[0] == "exc" and o[1] == want[1]:
                continue
            g = ev_group(ev) or "none"
            return ("c09:%s:first-touch=%s" % (g, first_touch(history, g)),
                    "event %s observed %s, canonical order serves %s" % (H.ev_key(ev), _short(o), _short(want)))
    bad = H.diff_digest(canon["digest"], res["digest"]["public"])
    if bad:
        g = DIGEST_GROUP[bad[0]]
        return ("c09:%s:first-touch=%s" % (g, first_touch(history, g)),
                "after the history the public table serves different values for %s (%s)"
                % (", ".join(bad), "; ".join("%s=%s" % (k, res["digest"]["public"][k]) for k in bad
                                              if str(res["digest"]["public"][k]).startswith("exc"))))
    return None


def _short(o):
    s = repr(o)
    return s if len(s) < 160 else s[:160] + "..."


def sweep(ctx, histories, canon, par):
    results = H.run_histories(histories, par=par)
    for h, r in zip(histories, results):
        ctx.case(tuple(H.ev_key(e) for e in h), nontrivial=nontrivial(h), sample=[H.ev_key(e) for e in h],
                 cls=["len:%d" % min(len(h), 9)])
        j = judge(h, r, canon)
        if j is not None:
            if ctx.skip_bucket(j[0]):
                continue
            ctx.violation(j[0], j[1], {"kind": "history", "events": shrink(h, j[0], canon)})
    return results


def shrink(h, bucket, canon):
    if len(h) <= 1:
        return h

    def fails(s):
        r = H.run_histories([s], par=1)[0]
        j = judge(s, r, canon)
        return j is not None and j[0] == bucket
    return H.ddmin(h, fails)


def prepare(tier):
    """Run once per check, in a fresh process: the canonical observations and digest."""
    H.zygote_prepare()
    return H.canonical(full_alphabet(), par=16)


def get_canon(ctx):
    H.zygote_prepare()
    canon = ctx.shared
    for k, d in sorted(canon.get("unstable", {}).items())[:3]:
        # an event that changes what the public table serves even after the canonical load
        ctx.violation("c09:%s:after-canonical-load" % DIGEST_GROUP[d[0]],
                      "event %s executed after the canonical prelude changes the values served for %s"
                      % (k, ", ".join(d)), {"kind": "history", "events": H.canonical_prelude() + [k.split("/")]})
    return canon


# ----------------------------------------------------------------------
def task_singles(ctx, par):
    alpha = full_alphabet()
    canon = get_canon(ctx)
    sweep(ctx, [[e] for e in alpha], canon, par)
    # every import / init / calculator / extension event as the first touch in a process where warnings are errors
    # (pbt/ambient.py 'warnerr'): a warning issued half-way through a loader must not leave the group half loaded
    we = ["ambient", "warnerr"]
    sweep(ctx, [[we, e] for e in alpha if e[0] in ("import", "init", "calc", "ext")], canon, par)
    ctx.extra["alphabet"] = len(alpha)


def task_pairs(ctx, par, shard, nshards, same_group_only):
    alpha = reduced_alphabet()
    canon = get_canon(ctx)
    pairs = []
    for a, b in itertools.product(alpha, alpha):
        if same_group_only:
            ga, gb = ev_group(a), ev_group(b)
            if not (ga == gb or ga is None or gb is None) or (ga is None and gb is None):
                continue
        pairs.append([a, b])
    mine = pairs[shard::nshards]
    sweep(ctx, mine, canon, par)
    ctx.extra["pairs_total"] = len(pairs)


def task_random(ctx, n, max_len, reduced):
    alpha = reduced_alphabet() if reduced else full_alphabet()
    canon = get_canon(ctx)
    strat = st.lists(st.sampled_from(alpha), min_size=2, max_size=max_len)

    def fn(c, h):
        r = H.run_histories([h], par=1)[0]
        c.case(tuple(H.ev_key(e) for e in h), nontrivial=nontrivial(h), sample=[H.ev_key(e) for e in h],
               cls=["len:%d" % min(len(h), 9)])
        j = judge(h, r, canon)
        if j is not None:
            raise Violation(j[0], j[1], {"kind": "history", "events": h})
    # a history costs a fork: Hypothesis' shrinker is replaced by delta debugging on the event list
    ctx.search("random", strat, fn, n, shrink=False,
               post_shrink=lambda b, case: {"kind": "history", "events": shrink(case["events"], b, canon)})


def task_closure(ctx, par, max_states, reduced):
    """Breadth-first closure over abstract loader states."""
    alpha = reduced_alphabet() if reduced else full_alphabet()
    canon = get_canon(ctx)
    r0 = H.run_histories([[]], par=1)[0]
    reach = {r0["state"]: []}
    frontier = [r0["state"]]
    transitions = 0
    depth = 0
    while frontier and len(reach) < max_states:
        hs = []
        for s in frontier:
            for e in alpha:
                hs.append(reach[s] + [e])
        rs = sweep(ctx, hs, canon, par)
        nxt = []
        for h, r in zip(hs, rs):
            transitions += 1
            s2 = r["state"]
            if s2 not in reach:
                reach[s2] = h
                nxt.append(s2)
        frontier = nxt
        depth += 1
    ctx.extra["states"] = len(reach)
    ctx.extra["transitions"] = transitions
    ctx.extra["closed"] = not frontier
    ctx.extra["bfs_depth"] = depth
    ctx.extra["longest_shortest_history"] = max(len(h) for h in reach.values())
    ctx.extra["sample_state_histories"] = [[H.ev_key(e) for e in h] for h in list(reach.values())[:6]]


def tasks(tier):
    if tier == "quick":
        import os
        seed = int(os.environ.get("VERIF_SEED", "1") or "1")
        t = [("singles", task_singles, dict(par=4))]
        # 3 of the 10 shards of the same-group pairs, chosen by the seed
        for k in range(3):
            sh = (seed * 3 + k) % 10
            t.append(("pairs-same-group-%d" % sh, task_pairs, dict(par=2, shard=sh, nshards=10, same_group_only=True)))
        for k in range(3):
            t.append(("random-%d" % k, task_random, dict(n=50, max_len=8, reduced=(k != 0))))
        return t
    t = [("singles", task_singles, dict(par=1)),
         ("closure", task_closure, dict(par=5, max_states=100000, reduced=True))]
    for k in range(5):
        t.append(("pairs-%d" % k, task_pairs, dict(par=1, shard=k, nshards=5, same_group_only=False)))
    for k in range(5):
        t.append(("random-%d" % k, task_random, dict(n=1500, max_len=15, reduced=(k % 2 == 1))))
    return t


def replay(ctx, case):
    H.zygote_prepare()
    canon = ctx.shared
    h = case["events"]
    r = H.run_histories([h], par=1)[0]
    ctx.case(tuple(H.ev_key(e) for e in h), nontrivial=nontrivial(h))
    j = judge(h, r, canon)
    if j is not None:
        raise Violation(j[0], j[1], case)
