"""
C05 - x-ray scattering factors, SLD, index of refraction, mirror reflectivity, f0.

Oracle: pbt/tables_c05.py re-reads periodictable/xsf/*.nff and f0_WaasKirf.dat
with its own regex readers; interpolation, the SLD sum and the Cromer-Mann sum
are recomputed in plain Python.  The physical constants are written out here
(CODATA 2006, the values documented in periodictable/constants.py).
"""
import bisect
import math
import sys
import types
from fractions import Fraction

from hypothesis import strategies as st

from ..runner import Violation, lib_frame
from ..guards import call_unchanged
from .. import formula_ast as fa
from .. import tables_c05 as tc
from ..atoms import Pool, resolve, atom_key, key_to_atom, spec_class, DT

PROPERTY = "C05"
RULE = ("sweep (exhaustive): for each of the 92 .nff tables every node (both as the decimal keV value and as exactly the "
        "float the library serves in sftable[0]; at the latter, energy= route, scalar and vector, the tabulated f1/f2 "
        "of the row is required to 4 eps whatever the neighbouring rows are), node +-8/+-64 ulp, every interval midpoint, "
        "both range ends (exact, just inside, just outside, far outside) by energy= and by the equivalent wavelength=, "
        "scalar and vector. generated: Hypothesis draws an atom (element, isotope, ion, isotope ion, D/T, D/T ion), "
        "1-6 energies (node +-k ulp, point inside an interval, interval at/next to an absorption edge, range end +-k ulp, "
        "log-uniform in [0.0005, 60] keV), energy= or wavelength=, scalar or vector, for scattering_factors and "
        "Xray.sld; compounds are renderings of generated derivation trees over the atoms with tables, with density, "
        "1-4 energies relative to one constituent's table, a density factor, mirror angles and roughness; f0: all 209 "
        "coefficient sets that name an atom/ion, through element, isotope, D/T routes and the documented symbol "
        "spellings, at Q=0, 1e-9 .. 24pi, 24pi +- ulps, beyond. unusual inputs: the same compounds with all counts times one factor 10^x, x in [-14, 12] "
        "with a third of the draws in the outer 4 decades (dict {atom: n*k}, k*formula(...), and the string '(...)k' with k "
        "spelled as a decimal), densities 10^[-12, 2], energy/wavelength given as int, numpy int64/float64/float32 scalars, "
        "0-d arrays, int lists/tuples/int64 arrays, float tuples, length-1 vectors, float32 arrays, compound positional or "
        "by keyword, through xray_sld, scattering_factors, Xray.sld, index_of_refraction and mirror_reflectivity (the last "
        "against a plain-Python Fresnel formula); the SLD must not change when all counts are scaled. routes: isotope-labelled compounds (9 in 10) through each "
        "entry (xray_sld, index_of_refraction, mirror_reflectivity, Formula.xray_sld; string or Formula object) and each "
        "way of giving the density (density=, natural_density=, '@d', '@di', '@dn', Formula.density, Formula.natural_density); "
        "for the natural routes the actual density is natural density * isotope formula mass / natural formula mass from "
        "the table masses; each entry judged absolutely (SLD, refraction equation, Fresnel reflectivity), plus energy vs "
        "wavelength, scalar vs vector, twice the density, and equality with the de-isotoped compound. scans: one vector "
        "object changed in place between 2-3 calls, each call judged for the current values. "
        "Oracle = interpolation of the independently read table "
        "(NaN outside the range / where f1 is -9999), SLD = r_e N_A rho/m sum(n f) 1e-8, n = 1 - lambda^2/2pi (rho + i "
        "irho) 1e-6, Cromer-Mann sum; metamorphic: scalar vs vector, energy vs wavelength, density*k, isotopes replaced "
        "by elements at equal natural_density, reflectivity in [0,1]. non-trivial = an energy within 2 nodes of an "
        "absorption edge (|f1 step| > 0.5) or outside the tabulated range, or a compound containing an isotope or ion, "
        "or (f0) an ion or a Q within 1e-9 of / beyond 24pi or Q = 0; distinct by (atom or string, call form, energies).")
ASSUMPTIONS = [
    "atom.mass, element.density (C06) and the parsed composition (C01) are taken as given; a string whose parsed "
    "composition differs from its derivation tree is counted inconclusive, not judged here",
    "a node energy in keV is the file's eV value / 1000 up to rounding: for energies that are not taken from "
    "sftable[0] and for the wavelength= route the reference accepts the interpolant over E(1 +- 8 eps), so errors "
    "below |slope| * 8 ulp(E) + 32 eps * |f| are not seen there; exactly at E_min/E_max (as the nearest double of the "
    "decimal keV value, energy= route) a value (not NaN) is required",
    "exact-node cases take only the x-coordinates from el.xray.sftable[0] (checked to be within 4 eps of eV/1000 of the "
    "independent reader, same row count); the required values come from the reader, matched by row index",
    "si.nff has one non-increasing row pair (1839.0, 1838.90 eV): energies in [1838.80, 1860] eV are not judged for "
    "Si and compounds containing Si (numpy.interp is undefined there)",
    "constants r_e, N_A, h, c are the CODATA 2006 values quoted in constants.py",
    "a 'vector' argument is a plain list or a numpy array: lists are always used for scattering_factors/sld/"
    "xray_sld/f0 (as the repository's tests do) and in a quarter of the index_of_refraction/mirror_reflectivity calls",
    "where rho is NaN (f1 not available) the complex index of refraction may be NaN in both parts",
    "a float32 energy is judged at the float32 value; a float32 wavelength is converted to energy in float32 arithmetic "
    "by numpy's promotion rules, so it is judged with a window of 2^-21 relative and index_of_refraction/"
    "mirror_reflectivity are not judged for float32 arguments",
    "Xray.sld of an ion is not judged (the documented N = rho/m N_A does not say whether m is the ion mass)",
    "f0 -> Z - charge as Q -> 0 is judged at Q = 0 and 1e-9 with |diff| <= 0.05 electrons (largest over the file: 0.038)",
]
EXHAUSTIVE = True
EXHAUSTIVE_NOTE = ("every node, interval midpoint and range end of all 92 .nff tables (scattering_factors, energy= and "
                   "wavelength=); every one of the 209 f0 coefficient sets that name an atom or ion at the fixed Q list. "
                   "Compounds, off-node energies and Q values are sampled.")

R_E = 2.8179402894e-15          # m
N_A = 6.02214179e23             # 1/mol
HC = float(Fraction("4.13566733e-15") * 299792458 * 10 ** 7)   # keV * Angstrom
EPS = tc.EPS
Q_LIMIT = 24 * math.pi

_STATE = {}


def env():
    if not _STATE:
        import numpy
        import periodictable
        from periodictable import xsf, cromermann
        syms = tc.nff_symbols()
        _STATE.update(np=numpy, pt=periodictable, xsf=xsf, cm=cromermann,
                      table=periodictable.elements, symbols=syms,
                      pool=Pool(periodictable.elements, symbols=set(syms)),
                      nff={}, f0=tc.read_f0())
        _STATE["f0_syms"] = sorted(k for k, v in _STATE["f0"].items() if v["element"] is not None)
    return _STATE


def nff(sym):
    E = env()
    sym = "H" if sym in DT else sym
    if sym not in E["nff"]:
        E["nff"][sym] = tc.Nff(sym)
    return E["nff"][sym]


def grid(sym):
    """Node energies (keV) exactly as the library serves them (el.xray.sftable[0]); only these
    x-coordinates are taken from the library, the values come from the independent reader by row."""
    E = env()
    sym = "H" if sym in DT else sym
    g = E.setdefault("grid", {})
    if sym not in g:
        g[sym] = [float(x) for x in E["table"].symbol(sym).xray.sftable[0]]
    return g[sym]


def exact_row(tab, spec, mode):
    """Row index if *spec* asks for exactly a served node energy through energy=, else None."""
    if mode != "E":
        return None
    if spec[0] == "exact":
        return spec[1] % len(tab.Ek)
    if spec[0] == "exact1":
        return min(max(tab.first_f1 + spec[1], 0), len(tab.Ek) - 1)
    if spec[0] == "negx":
        return neg_row(tab, spec[1], spec[2])
    return None


def neg_row(tab, j, d):
    """Row of the j-th node whose tabulated f1 is <= 0, shifted by d rows (any row if the table has none)."""
    n = len(tab.Ek)
    i = tab.nonpos[j % len(tab.nonpos)] if tab.nonpos else max(tab.first_f1, j % n)
    return min(max(i + d, 0), n - 1)


def isnan(x):
    return x != x


def is_dt_ion(spec):
    """An ion of deuterium or tritium, however it is spelled (D{+}, H[2]{+})."""
    return bool(spec[2]) and (spec[0] in DT or (spec[0] == "H" and spec[1] in (2, 3)))


# ----------------------------------------------------------------------
# energies
ULPS = [0, 0, 0, 1, -1, 8, -8, 64, -64]
END_ULPS = [0, 0, 1, -1, 8, -8, 64, -64, 10 ** 6, -10 ** 6, 10 ** 10, -10 ** 10]


def energy_spec():
    return st.one_of(
        st.tuples(st.just("node"), st.integers(0, 800), st.sampled_from(ULPS)).map(list),
        st.tuples(st.just("mid"), st.integers(0, 800), st.floats(0.001, 0.999)).map(list),
        st.tuples(st.just("edge"), st.integers(0, 40), st.sampled_from([-2, -1, 0, 0, 1, 2]),
                  st.floats(0.0, 1.0)).map(list),
        st.tuples(st.just("end"), st.integers(0, 1), st.sampled_from(END_ULPS)).map(list),
        st.tuples(st.just("log"), st.floats(0.0, 1.0)).map(list),
        st.tuples(st.just("in"), st.floats(0.0, 1.0)).map(list),
        st.tuples(st.just("exact"), st.integers(0, 800)).map(list),
        st.tuples(st.just("exact1"), st.sampled_from([-1, 0, 0, 0, 1])).map(list),
        neg_spec(),
        neg_spec(),
    )


def neg_spec():
    """Energies where the tabulated f1 is zero or negative, and their neighbours."""
    return st.one_of(
        st.tuples(st.just("negx"), st.integers(0, 60), st.sampled_from([-1, 0, 0, 0, 1])).map(list),
        st.tuples(st.just("negm"), st.integers(0, 60), st.sampled_from([-1, 0, 0]), st.floats(0.0, 1.0)).map(list),
    )


def energy_spec_compound():
    """Mostly energies at which every constituent has a value."""
    return st.one_of(
        st.tuples(st.just("in"), st.floats(0.0, 1.0)).map(list),
        st.tuples(st.just("in"), st.floats(0.0, 1.0)).map(list),
        st.tuples(st.just("edge"), st.integers(0, 40), st.sampled_from([-2, -1, 0, 0, 1, 2]),
                  st.floats(0.0, 1.0)).map(list),
        st.tuples(st.just("mid"), st.integers(70, 800), st.floats(0.001, 0.999)).map(list),
        st.tuples(st.just("node"), st.integers(70, 800), st.sampled_from(ULPS)).map(list),
        st.tuples(st.just("exact"), st.integers(60, 800)).map(list),
        st.tuples(st.just("exact1"), st.sampled_from([0, 0, 1])).map(list),
        neg_spec(),
        neg_spec(),
        energy_spec(),
    )


def step(x, k):
    return math.nextafter(x, math.inf if k > 0 else -math.inf, steps=abs(k)) if k else x


def to_energy(tab, spec):
    kind = spec[0]
    n = len(tab.Ek)
    if kind == "node":
        return step(tab.Ek[spec[1] % n], spec[2])
    if kind == "mid":
        i = spec[1] % (n - 1)
        return tab.Ek[i] + spec[2] * (tab.Ek[i + 1] - tab.Ek[i])
    if kind == "edge":
        if not tab.edges:
            i = spec[1] % (n - 1)
        else:
            i = min(max(tab.edges[spec[1] % len(tab.edges)] + spec[2], 0), n - 2)
        return tab.Ek[i] + spec[3] * (tab.Ek[i + 1] - tab.Ek[i])
    if kind == "end":
        return step(tab.Ek[-1] if spec[1] else tab.Ek[0], spec[2])
    if kind == "log":
        return 0.0005 * 120000.0 ** spec[1]
    if kind == "in":
        return 0.03 * 1000.0 ** spec[1]
    if kind == "abs":
        return float(spec[1])
    if kind == "negm":
        i = min(neg_row(tab, spec[1], spec[2]), n - 2)
        return tab.Ek[i] + spec[3] * (tab.Ek[i + 1] - tab.Ek[i])
    if kind in ("exact", "exact1", "negx"):
        g = grid(tab.symbol)
        if len(g) != n:
            raise Violation("c05:sftable:grid", "%s.xray.sftable has %d rows, %s.nff has %d" % (tab.symbol, len(g), tab.symbol.lower(), n),
                            {"kind": "grid", "symbol": tab.symbol})
        return g[exact_row(tab, spec, "E")]
    raise ValueError(spec)


def energy_classes(tab, E, spec):
    out = ["energy:" + spec[0]]
    if E < tab.emin or E > tab.emax:
        out.append("energy:outside-range")
    elif tab.near_edge(E):
        out.append("energy:near-edge")
    if tab.emin <= E < tab.Ek[tab.first_f1]:
        out.append("energy:f1-not-available")
    if f1_nonpositive(tab, E):
        out.append("energy:f1-nonpositive")
    return out


def f1_nonpositive(tab, E):
    """True if the tabulated f1 around E (keV) is zero or negative."""
    if not tab.nonpos or E < tab.emin or E > tab.emax:
        return False
    j = bisect.bisect_right(tab.Ek, E) - 1
    return any(0 <= i < len(tab.Ek) and tab.f1[i] is not None and tab.f1[i] <= 0 for i in (j, j + 1))


def interesting(tab, E):
    return E < tab.emin or E > tab.emax or tab.near_edge(E)


# ----------------------------------------------------------------------
# judging one number against the reference set
def judge(got, acc, bucket, what, case, tab=None, E=None, extra_tol=0.0, factor=1.0):
    """acc = (lo, hi, nan_ok, scale) in units of f; got = factor * f."""
    lo, hi, nan_ok, scale = acc
    if got is None:
        raise Violation(bucket + ":none", "%s is None" % what, case)
    got = float(got)
    if isnan(got):
        if nan_ok:
            return
        raise Violation(bucket + ":nan-in-range", "%s is NaN, expected %r" % (what, factor * lo), case)
    if lo is None:
        why = "nan-expected"
        if tab is not None and E is not None:
            why = "not-nan-outside-range" if (E < tab.emin or E > tab.emax) else "not-nan-where-table-has-none"
        raise Violation(bucket + ":" + why, "%s is %r, expected NaN" % (what, got), case)
    a, b = sorted((factor * lo, factor * hi))
    tol = 32 * EPS * scale * abs(factor) + extra_tol
    if not (a - tol <= got <= b + tol):
        raise Violation(bucket + ":value", "%s is %r, expected %r (tolerance %.3g)" % (what, got, 0.5 * (a + b), tol), case)


def same(x, y, rel):
    x, y = float(x), float(y)
    if isnan(x) or isnan(y):
        return isnan(x) and isnan(y)
    return x == y or abs(x - y) <= rel * max(abs(x), abs(y))


def is_vector(np, x, n):
    return isinstance(x, np.ndarray) and x.shape == (n,)


def is_scalar(np, x):
    return np.isscalar(x) or (isinstance(x, np.ndarray) and x.shape == ())


def lib_call(case, label, fn, dt_ion=False):
    """Run a library call; an exception is a violation of the property (the
    inputs are in the documented domain)."""
    try:
        return call_unchanged("c05", case, fn)
    except Violation:
        raise
    except Exception as e:  # noqa
        fr = lib_frame(e.__traceback__)
        if fr is None:
            raise
        if dt_ion and isinstance(e, (ValueError, KeyError)):
            raise Violation("c05:dt-ion:no-table", "%s raised %s: %s" % (label, type(e).__name__, str(e)[:200]), case)
        raise Violation("c05:raised:%s:%s:%s" % (label, type(e).__name__, fr),
                        "%s raised %s: %s" % (label, type(e).__name__, str(e)[:200]), case)


# ----------------------------------------------------------------------
# scattering_factors of one atom
def check_factors(ctx, value, strict_ends=False):
    spec, mode, especs, scalar = value
    E = env()
    np = E["np"]
    case = {"kind": "factors", "value": value, "strict_ends": strict_ends}
    tab = nff(spec[0])
    atom = resolve(E["table"], spec)
    es = [to_energy(tab, s) for s in especs]
    scalar = bool(scalar) and len(es) == 1
    cls = ["factors", "atom:" + spec_class(spec), "route:" + mode, "call:" + ("scalar" if scalar else "vector")]
    for e, s in zip(es, especs):
        cls += energy_classes(tab, e, s)
    ctx.case(("factors", tuple(spec), mode, scalar, tuple(es)), nontrivial=any(interesting(tab, e) for e in es),
             sample={"atom": spec, "route": mode, "energies_keV": es[:4], "scalar": scalar}, cls=sorted(set(cls)))
    arg = es if mode == "E" else [HC / e for e in es]
    kw = {"energy" if mode == "E" else "wavelength": (arg[0] if scalar else list(arg))}
    dt_ion = is_dt_ion(spec)
    f1, f2 = lib_call(case, "scattering_factors", lambda: atom.xray.scattering_factors(**kw), dt_ion)
    if f1 is None or f2 is None:
        if dt_ion:
            raise Violation("c05:dt-ion:no-table", "%r.xray.scattering_factors -> (None, None): no table is found for "
                            "an ion of D/T although hydrogen has one" % (spec,), case)
        raise Violation("c05:factors:none", "%r.xray.scattering_factors -> None although %s.nff exists" % (spec, tab.symbol), case)
    route = "energy" if mode == "E" else "wavelength"
    if scalar:
        if not (is_scalar(np, f1) and is_scalar(np, f2)):
            raise Violation("c05:factors:shape", "scalar call returned %r" % (type(f1),), case)
        f1, f2 = [f1], [f2]
    elif not (is_vector(np, f1, len(es)) and is_vector(np, f2, len(es))):
        raise Violation("c05:factors:shape", "vector call of length %d returned shapes %r %r"
                        % (len(es), getattr(f1, "shape", None), getattr(f2, "shape", None)), case)
    for i, e in enumerate(es):
        for col, got in ((1, f1[i]), (2, f2[i])):
            acc = tab.accept(col, e, exact_row=exact_row(tab, especs[i], mode))
            if acc is None:
                ctx.count("excluded:nonmonotonic-interval")
                continue
            if strict_ends and mode == "E" and ((e in (tab.emin, tab.emax) and col == 2) or (e == tab.emax and col == 1)):
                acc = (acc[0], acc[1], False, acc[3])
            judge(got, acc, "c05:factors:%s:f%d" % (route, col), "%s f%d(%s=%r)" % (tab.symbol, col, route, arg[i]),
                  case, tab, e)
    # scalar call agrees with the vector call
    if not scalar:
        for i in range(min(len(es), 3)):
            if tab.in_bad(es[i]):
                continue
            g1, g2 = lib_call(case, "scattering_factors", lambda: atom.xray.scattering_factors(**{list(kw)[0]: arg[i]}))
            if not (is_scalar(np, g1) and same(g1, f1[i], 1e-14) and same(g2, f2[i], 1e-14)):
                raise Violation("c05:factors:scalar-vs-vector", "%s at %s=%r: scalar (%r, %r) vector (%r, %r)"
                                % (tab.symbol, route, arg[i], g1, g2, f1[i], f2[i]), case)


# ----------------------------------------------------------------------
# Xray.sld of an element / isotope
def check_element_sld(ctx, value):
    spec, mode, especs, scalar = value
    E = env()
    np = E["np"]
    case = {"kind": "element-sld", "value": value}
    tab = nff(spec[0])
    atom = resolve(E["table"], spec)
    base = E["table"].symbol("H" if spec[0] in DT else spec[0])
    es = [to_energy(tab, s) for s in especs]
    scalar = bool(scalar) and len(es) == 1
    cls = ["element-sld", "atom:" + spec_class(spec), "route:" + mode, "call:" + ("scalar" if scalar else "vector")]
    for e, s in zip(es, especs):
        cls += energy_classes(tab, e, s)
    if base.density is None:
        cls.append("density:unknown")
    ctx.case(("element-sld", tuple(spec), mode, scalar, tuple(es)), nontrivial=any(interesting(tab, e) for e in es),
             sample={"atom": spec, "route": mode, "energies_keV": es[:4], "call": "Xray.sld"}, cls=sorted(set(cls)))
    arg = es if mode == "E" else [HC / e for e in es]
    kw = {"energy" if mode == "E" else "wavelength": (arg[0] if scalar else list(arg))}
    rho, irho = lib_call(case, "Xray.sld", lambda: atom.xray.sld(**kw))
    if base.density is None:
        if rho is not None or irho is not None:
            raise Violation("c05:element-sld:unknown-density", "%r.xray.sld -> %r for an element of unknown density"
                            % (spec, rho), case)
        return
    if rho is None or irho is None:
        raise Violation("c05:element-sld:none", "%r.xray.sld -> None" % (spec,), case)
    # number density of the natural element (isotopes: same spacing)
    K = R_E * N_A * base.density / base.mass * 1e-8
    if scalar:
        if not (is_scalar(np, rho) and is_scalar(np, irho)):
            raise Violation("c05:element-sld:shape", "scalar call returned %r" % (type(rho),), case)
        rho, irho = [rho], [irho]
    elif not (is_vector(np, rho, len(es)) and is_vector(np, irho, len(es))):
        raise Violation("c05:element-sld:shape", "vector call returned %r" % (getattr(rho, "shape", None),), case)
    route = "energy" if mode == "E" else "wavelength"
    for i, e in enumerate(es):
        for col, got in ((1, rho[i]), (2, irho[i])):
            acc = tab.accept(col, e, exact_row=exact_row(tab, especs[i], mode))
            if acc is None:
                ctx.count("excluded:nonmonotonic-interval")
                continue
            lo, hi, nan_ok, scale = acc
            judge(got, acc, "c05:element-sld:%s:%s" % (route, "rho" if col == 1 else "irho"),
                  "%r.xray.sld(%s=%r)[%d]" % (spec, route, arg[i], col - 1), case, tab, e,
                  extra_tol=1e-12 * K * scale, factor=K)


# ----------------------------------------------------------------------
# compounds
def deiso(tree):
    def atom(a):
        sym, iso, ch = a[1]
        return ["a", ["H" if sym in DT else sym, 0, ch], a[2], a[3]]

    def group(g):
        if g[0] == "i":
            return ["i", g[1], [atom(a) for a in g[2]]]
        return ["e", [group(x) for x in g[1]], g[2], g[3], g[4]]
    return {"g": [group(g) for g in tree["g"]], "s": tree["s"], "d": tree["d"]}


def compound_ref(comp_f, masses, density, e, exact=None, w=tc.WINDOW):
    """Reference for (rho, irho) at energy e: per column (lo, hi, nan_ok, certain_nan, tol) already in SLD
    units, or None if e touches a non-monotonic stretch of a constituent table.  *exact* = (symbol, row):
    e is exactly that served node of that table, whose tabulated value is then required."""
    m = sum(n * masses[k] for k, n in comp_f.items())
    K = R_E * N_A * density / m * 1e-8
    out = []
    for col in (1, 2):
        lo = hi = scale = 0.0
        nan_ok = certain = False
        for k, n in comp_f.items():
            t = nff(env()["table"][k[0]].symbol)
            acc = t.accept(col, e, w=w, exact_row=(exact[1] if exact is not None and exact[0] == t.symbol else None))
            if acc is None:
                return None
            a, b, nk, s = acc
            nan_ok = nan_ok or nk
            if a is None:
                certain = True
                continue
            lo += n * a
            hi += n * b
            scale += n * s
        out.append((K * lo, K * hi, nan_ok, certain, K * scale * 1e-12))
    return out


def judge_sld(got, ref, bucket, what, case, factor=1.0, floor=0.0):
    lo, hi, nan_ok, certain, tol = ref
    got = float(got)
    if isnan(got):
        if nan_ok:
            return
        raise Violation(bucket + ":nan-in-range", "%s is NaN, expected %r" % (what, factor * lo), case)
    if certain:
        raise Violation(bucket + ":nan-expected", "%s is %r, expected NaN (a constituent has no value there)" % (what, got), case)
    a, b = sorted((factor * lo, factor * hi))
    t = tol * abs(factor) + floor
    if not (a - t <= got <= b + t):
        raise Violation(bucket + ":value", "%s is %r, expected %r (tolerance %.3g)" % (what, got, 0.5 * (a + b), t), case)


def check_compound(ctx, value):
    tree, density, ref_idx, especs, mode, k, angles, rough, vec = value
    E = env()
    np, pt, xsf, table, pool = E["np"], E["pt"], E["xsf"], E["table"], E["pool"]
    case = {"kind": "compound", "value": value}
    s = fa.render(tree)
    comp = fa.composition(pool, tree)
    keys = sorted(comp)
    comp_f = dict((kk, float(v)) for kk, v in comp.items())
    specs = [a[1] for a, _ in fa.atoms_of(tree["g"])]
    has_dt_ion = any(is_dt_ion(sp) for sp in specs)
    has_iso = any(kk[1] for kk in keys)
    has_ion = any(kk[2] for kk in keys)
    tab = nff(table[keys[ref_idx % len(keys)][0]].symbol)
    es = [to_energy(tab, sp) for sp in especs]
    tabs = [nff(table[kk[0]].symbol) for kk in keys]
    vec = int(vec)                      # 0 scalar if one energy, 1 numpy arrays, 2 plain lists
    scalar = (vec == 0) and len(es) == 1
    cls = ["compound", "route:" + mode, "call:" + ("scalar" if scalar else "vector" if vec < 2 else "vector-as-list"),
           "depth:%d" % min(fa.tree_depth(tree), 4), "atoms:%d" % min(len(keys), 6)]
    cls += sorted(set("atom:" + spec_class(sp) for sp in specs))
    hot = False
    for e, sp in zip(es, especs):
        cls.append("energy:" + sp[0])
        if any(e < t.emin or e > t.emax for t in tabs):
            cls.append("energy:outside-range")
            hot = True
        elif any(t.near_edge(e) for t in tabs):
            cls.append("energy:near-edge")
            hot = True
        if any(t.emin <= e < t.Ek[t.first_f1] for t in tabs):
            cls.append("energy:f1-not-available")
    ctx.case(("compound", s, mode, scalar, density, tuple(es)), nontrivial=(has_iso or has_ion or hot),
             sample={"compound": s, "density": density, "route": mode, "energies_keV": es}, cls=sorted(set(cls)))

    # the parsed composition is C01's business
    try:
        f = pt.formula(s)
        got_comp = dict((atom_key(a), float(n)) for a, n in f.atoms.items())
    except Exception:  # noqa
        ctx.inconclusive += 1
        ctx.count("inconclusive:formula-rejected")
        return
    if set(got_comp) != set(comp_f) or any(not same(got_comp[kk], comp_f[kk], 1e-12) for kk in comp_f):
        ctx.inconclusive += 1
        ctx.count("inconclusive:composition-differs")
        return
    masses = dict((kk, key_to_atom(table, kk).mass) for kk in keys)

    refs = [compound_ref(comp_f, masses, density, e) for e in es]
    # energies that are exactly a served node of the reference table: the energy= route must give the tabulated value
    rows = [exact_row(tab, sp, "E") for sp in especs]
    refs_x = [r if row is None else compound_ref(comp_f, masses, density, e, exact=(tab.symbol, row))
              for r, row, e in zip(refs, rows, es)]
    if any(r is None for r in refs + refs_x):
        ctx.count("excluded:nonmonotonic-interval")
        keep = [i for i in range(len(es)) if refs[i] is not None and refs_x[i] is not None]
        es, refs, refs_x = [es[i] for i in keep], [refs[i] for i in keep], [refs_x[i] for i in keep]
        if not es:
            return
        scalar = scalar and len(es) == 1
    lam = [HC / e for e in es]
    route = "energy" if mode == "E" else "wavelength"
    arg = es if mode == "E" else lam
    key = "energy" if mode == "E" else "wavelength"
    val = arg[0] if scalar else list(arg)

    def unpack(r, what, n=len(es), sc=scalar):
        rho, irho = r
        if sc:
            if not (is_scalar(np, rho) and is_scalar(np, irho)):
                raise Violation("c05:sld:shape", "%s: scalar call returned %r" % (what, type(rho)), case)
            return [rho], [irho]
        if not (is_vector(np, rho, n) and is_vector(np, irho, n)):
            raise Violation("c05:sld:shape", "%s: vector call of length %d returned %r / %r"
                            % (what, n, getattr(rho, "shape", type(rho)), getattr(irho, "shape", type(irho))), case)
        return rho, irho

    # 1. absolute: string, density=, chosen route
    what = "xray_sld(%r, density=%r, %s=%r)" % (s, density, key, val)
    rho, irho = unpack(lib_call(case, "xray_sld", lambda: xsf.xray_sld(s, density=density, **{key: val}), has_dt_ion), what)
    for i in range(len(es)):
        ref = refs_x[i] if mode == "E" else refs[i]
        judge_sld(rho[i], ref[0], "c05:sld:%s:rho" % route, what + " rho[%d]" % i, case)
        judge_sld(irho[i], ref[1], "c05:sld:%s:irho" % route, what + " irho[%d]" % i, case)

    # 2. the other route agrees (both are judged against the same reference)
    okey, oval = ("wavelength", lam) if mode == "E" else ("energy", es)
    oval = oval[0] if scalar else list(oval)
    rho2, irho2 = unpack(lib_call(case, "xray_sld", lambda: xsf.xray_sld(f, density=density, **{okey: oval})), "other route")
    for i in range(len(es)):
        ref = refs[i] if mode == "E" else refs_x[i]
        judge_sld(rho2[i], ref[0], "c05:sld:energy-vs-wavelength:rho", "xray_sld(%r, density=%r, %s=%r) rho[%d]"
                  % (s, density, okey, oval, i), case)
        judge_sld(irho2[i], ref[1], "c05:sld:energy-vs-wavelength:irho", "xray_sld(%r, density=%r, %s=%r) irho[%d]"
                  % (s, density, okey, oval, i), case)

    # 3. vector element equals scalar call
    if not scalar:
        for i in range(min(len(es), 2)):
            r1, i1 = lib_call(case, "xray_sld", lambda: xsf.xray_sld(f, density=density, **{key: arg[i]}))
            if not (is_scalar(np, r1) and same(r1, rho[i], 1e-14) and same(i1, irho[i], 1e-14)):
                raise Violation("c05:sld:scalar-vs-vector", "%r at %s=%r: scalar (%r, %r), element %d of vector (%r, %r)"
                                % (s, key, arg[i], r1, i1, i, rho[i], irho[i]), case)

    # 4. linear in density
    rk, ik = unpack(lib_call(case, "xray_sld", lambda: xsf.xray_sld(f, density=density * k, **{key: val})), "density*k")
    for i in range(len(es)):
        if not (same(rk[i], k * float(rho[i]), 1e-12) and same(ik[i], k * float(irho[i]), 1e-12)):
            raise Violation("c05:sld:density-linear", "%r %s=%r: density %r -> (%r, %r); density*%r -> (%r, %r)"
                            % (s, key, arg[i], density, rho[i], irho[i], k, rk[i], ik[i]), case)

    # 5. Formula.xray_sld method
    fd = pt.formula(f, density=density)
    rm, im = unpack(lib_call(case, "Formula.xray_sld", lambda: fd.xray_sld(**{key: val})), "Formula.xray_sld")
    # judged against the reference like route 1 (the object may list its atoms in another order than the string, so the
    # two library results differ by summation order: a bare relative comparison of the two was a false alarm at seed 3,
    # where the real part cancels to 1e-4 of its terms)
    for i in range(len(es)):
        ref = refs_x[i] if mode == "E" else refs[i]
        whatm = "formula(%r, density=%r).xray_sld(%s=%r)" % (s, density, key, arg[i])
        judge_sld(rm[i], ref[0], "c05:sld:formula-method", whatm + " rho", case)
        judge_sld(im[i], ref[1], "c05:sld:formula-method", whatm + " irho", case)

    # 6. isotopes replaced by the natural elements at equal natural density
    if has_iso:
        tree2 = deiso(tree)
        s2 = fa.render(tree2)
        comp2 = dict((kk, float(v)) for kk, v in fa.composition(pool, tree2).items())
        masses2 = dict((kk, key_to_atom(table, kk).mass) for kk in comp2)
        ra, ia = unpack(lib_call(case, "xray_sld", lambda: xsf.xray_sld(s, natural_density=density, **{key: val})), "natural")
        rb, ib = unpack(lib_call(case, "xray_sld", lambda: xsf.xray_sld(s2, natural_density=density, **{key: val})), "natural")
        for i, e in enumerate(es):
            ref2 = compound_ref(comp2, masses2, density, e)
            if ref2 is None:
                continue
            for col, ga, gb, nm in ((0, ra[i], rb[i], "rho"), (1, ia[i], ib[i], "irho")):
                judge_sld(gb, ref2[col], "c05:sld:natural-density:" + nm,
                          "xray_sld(%r, natural_density=%r, %s=%r) %s" % (s2, density, key, arg[i], nm), case)
                if not (same(ga, gb, 1e-12) or abs(float(ga) - float(gb)) <= ref2[col][4]):
                    raise Violation("c05:sld:isotope-independence:" + nm,
                                    "natural_density=%r %s=%r: %r -> %r but %r -> %r"
                                    % (density, key, arg[i], s, float(ga), s2, float(gb)), case)

    # 7. index of refraction
    nval = arg[0] if scalar else (list(arg) if vec == 2 else np.array(arg))
    form = "[list-%s]" % key if (vec == 2 and not scalar) else ""
    n = lib_call(case, "index_of_refraction" + form, lambda: xsf.index_of_refraction(f, density=density, **{key: nval}))
    if scalar:
        if not is_scalar(np, n):
            raise Violation("c05:refraction:shape", "scalar call returned %r" % (type(n),), case)
        n = [n]
    elif not is_vector(np, n, len(es)):
        raise Violation("c05:refraction:shape", "vector call returned %r" % (getattr(n, "shape", type(n)),), case)
    for i in range(len(es)):
        c = lam[i] ** 2 / (2 * math.pi) * 1e-6
        z = complex(n[i])
        what = "index_of_refraction(%r, density=%r, %s=%r)" % (s, density, key, arg[i])
        # a complex number with one NaN part is "not available" as a whole
        # (real * complex arithmetic spreads the NaN of rho to the imaginary part)
        anynan = refs[i][0][2] or refs[i][1][2]
        r_re = refs[i][0][:2] + (anynan,) + refs[i][0][3:]
        r_im = refs[i][1][:2] + (anynan, False) + refs[i][1][4:]
        judge_sld(1.0 - z.real, r_re, "c05:refraction:%s:real" % route, "1 - Re " + what, case, factor=c, floor=4 * EPS)
        judge_sld(-z.imag, r_im, "c05:refraction:%s:imag" % route, "-Im " + what, case, factor=c, floor=1e-300)

    # 8. thick-mirror reflectivity
    ang = angles[0] if (len(angles) == 1 and scalar) else (list(angles) if vec == 2 else np.array(angles))
    def mirror():
        with np.errstate(all="ignore"):      # NaN factors below 29 eV make numpy warn
            return xsf.mirror_reflectivity(f, density=density, angle=ang, roughness=rough, **{key: nval})
    R = lib_call(case, "mirror_reflectivity" + form, mirror)
    if not (isinstance(R, np.ndarray) and R.shape == (len(angles), len(es))):
        raise Violation("c05:reflectivity:shape", "angles %d, energies %d -> %r"
                        % (len(angles), len(es), getattr(R, "shape", type(R))), case)
    for j in range(len(es)):
        if refs[j][0][2] or refs[j][1][2]:
            ctx.count("reflectivity:nan-allowed")
            continue
        for i in range(len(angles)):
            r = float(R[i, j])
            if not (0.0 <= r <= 1.0 + 1e-12):
                raise Violation("c05:reflectivity:" + ("nan" if isnan(r) else "outside-0-1"),
                                "mirror_reflectivity(%r, density=%r, %s=%r, angle=%r, roughness=%r) = %r"
                                % (s, density, key, arg[j], angles[i], rough, r), case)
        ctx.count("reflectivity:judged", len(angles))


# ----------------------------------------------------------------------
# energy scans: ONE vector object, changed in place between calls
def _container(np, kind, values):
    return np.array(values, dtype=float) if kind == "ndarray" else list(values)


def _assign(A, values):
    """Overwrite the caller's vector in place (same object, same shape)."""
    if isinstance(A, list):
        A[:] = list(values)
    else:
        A[...] = values


def check_scan_atom(ctx, value):
    """scattering_factors / Xray.sld called repeatedly with the same vector object whose
    contents are changed in place between the calls; every result is judged for the
    values the vector holds at the time of the call."""
    spec, mode, steps, kind, route = value
    E = env()
    np = E["np"]
    case = {"kind": "scan-atom", "value": value}
    tab = nff(spec[0])
    atom = resolve(E["table"], spec)
    base = E["table"].symbol("H" if spec[0] in DT else spec[0])
    n = min(len(st_) for st_ in steps)
    steps = [st_[:n] for st_ in steps]
    es_all = [[to_energy(tab, sp) for sp in st_] for st_ in steps]
    key = "energy" if mode == "E" else "wavelength"
    if route == "sld" and (base.density is None or spec[2]):
        route = "factors"
    cls = ["scan", "scan:" + route, "scan-vector:" + kind, "atom:" + spec_class(spec), "route:" + mode,
           "scan-steps:%d" % len(steps)]
    ctx.case(("scan-atom", tuple(spec), mode, kind, route, tuple(tuple(e) for e in es_all)),
             nontrivial=any(interesting(tab, e) for es in es_all[1:] for e in es),
             sample={"atom": spec, "scan": route, key + "_steps_keV": [es[:3] for es in es_all], "vector": kind}, cls=cls)
    K = R_E * N_A * base.density / base.mass * 1e-8 if route == "sld" else 1.0
    # an unrelated fresh vector first, so that the outcome of the scan does not depend on what
    # earlier cases left behind in the process (the saved case replays on its own)
    F = _container(np, kind, [HC / 8.0 if mode == "W" else 8.0] * (n + 1))
    lib_call(case, "scattering_factors", lambda: atom.xray.scattering_factors(**{key: F}), is_dt_ion(spec))
    A = None
    for k, (specs_k, es) in enumerate(zip(steps, es_all)):
        vals = es if mode == "E" else [HC / e for e in es]
        if A is None:
            A = _container(np, kind, vals)
        else:
            _assign(A, vals)
        if route == "sld":
            r1, r2 = lib_call(case, "Xray.sld", lambda: atom.xray.sld(**{key: A}), is_dt_ion(spec))
        else:
            r1, r2 = lib_call(case, "scattering_factors", lambda: atom.xray.scattering_factors(**{key: A}), is_dt_ion(spec))
        if not (is_vector(np, r1, n) and is_vector(np, r2, n)):
            raise Violation("c05:scan:shape", "step %d: vector of length %d returned %r" % (k, n, getattr(r1, "shape", type(r1))), case)
        for i, e in enumerate(es):
            for col, got in ((1, r1[i]), (2, r2[i])):
                acc = tab.accept(col, e, exact_row=exact_row(tab, specs_k[i], mode))
                if acc is None:
                    ctx.count("excluded:nonmonotonic-interval")
                    continue
                judge(got, acc, "c05:scan:%s:%s:step%s" % (route, "f%d" % col if route == "factors" else ("rho", "irho")[col - 1],
                                                           "0" if k == 0 else "N"),
                      "step %d of a scan reusing one %s (now %s=%r): %r %s[%d]" % (k, kind, key, list(vals), spec, route, i),
                      case, tab, e, extra_tol=(1e-12 * K * acc[3] if route == "sld" else 0.0), factor=K)


SCAN_ROUTES = ["xray_sld-string", "xray_sld-formula", "Formula.xray_sld", "index_of_refraction", "mirror_reflectivity"]


def check_scan_compound(ctx, value):
    """The compound calculators called repeatedly with the same vector object, changed in
    place between the calls (an energy scan), optionally with the same compound at another
    density in between; every result is judged against the tables for the current values."""
    tree, density, density2, ref_idx, steps, mode, kind, routes, interleave = value
    E = env()
    np, pt, xsf, table, pool = E["np"], E["pt"], E["xsf"], E["table"], E["pool"]
    case = {"kind": "scan-compound", "value": value}
    s = fa.render(tree)
    comp = fa.composition(pool, tree)
    keys = sorted(comp)
    comp_f = dict((kk, float(v)) for kk, v in comp.items())
    specs = [a[1] for a, _ in fa.atoms_of(tree["g"])]
    has_dt_ion = any(is_dt_ion(sp) for sp in specs)
    tab = nff(table[keys[ref_idx % len(keys)][0]].symbol)
    tabs = [nff(table[kk[0]].symbol) for kk in keys]
    n = min(len(st_) for st_ in steps)
    steps = [st_[:n] for st_ in steps]
    es_all = [[to_energy(tab, sp) for sp in st_] for st_ in steps]
    routes = [r for r in SCAN_ROUTES if r in routes] or ["xray_sld-formula"]
    key = "energy" if mode == "E" else "wavelength"
    hot = any(e < t.emin or e > t.emax or t.near_edge(e) for es in es_all[1:] for e in es for t in tabs)
    cls = ["scan", "scan-vector:" + kind, "route:" + mode, "scan-steps:%d" % len(steps), "atoms:%d" % min(len(keys), 6)]
    cls += ["scan:" + r for r in routes] + (["scan:interleaved-density"] if interleave else [])
    ctx.case(("scan-compound", s, mode, kind, tuple(routes), bool(interleave), density, tuple(tuple(e) for e in es_all)),
             nontrivial=(hot or any(kk[1] or kk[2] for kk in keys)),
             sample={"compound": s, "density": density, "scan": routes, key + "_steps_keV": [es[:3] for es in es_all],
                     "vector": kind}, cls=cls)
    try:
        f = pt.formula(s)
        got_comp = dict((atom_key(a), float(c)) for a, c in f.atoms.items())
    except Exception:  # noqa
        ctx.inconclusive += 1
        ctx.count("inconclusive:formula-rejected")
        return
    if set(got_comp) != set(comp_f) or any(not same(got_comp[kk], comp_f[kk], 1e-12) for kk in comp_f):
        ctx.inconclusive += 1
        ctx.count("inconclusive:composition-differs")
        return
    masses = dict((kk, key_to_atom(table, kk).mass) for kk in keys)
    fd = pt.formula(f, density=density)
    # an unrelated fresh vector first, so that the outcome of the scan does not depend on what
    # earlier cases left behind in the process (the saved case replays on its own)
    F = _container(np, kind, [HC / 8.0 if mode == "W" else 8.0] * (n + 1))
    lib_call(case, "xray_sld-formula", lambda: xsf.xray_sld(f, density=density, **{key: F}), has_dt_ion)
    A = None
    for k, (specs_k, es) in enumerate(zip(steps, es_all)):
        refs, refs2 = [], []
        for sp, e in zip(specs_k, es):
            row = exact_row(tab, sp, mode)
            ex = None if row is None else (tab.symbol, row)
            refs.append((compound_ref(comp_f, masses, density, e), compound_ref(comp_f, masses, density, e, exact=ex)))
            refs2.append(compound_ref(comp_f, masses, density2, e, exact=ex))
        if any(r[0] is None or r[1] is None for r in refs) or any(r is None for r in refs2):
            ctx.count("excluded:nonmonotonic-interval")
            return
        lam = [HC / e for e in es]
        vals = es if mode == "E" else lam
        if A is None:
            A = _container(np, kind, vals)
        else:
            _assign(A, vals)
        tag = "0" if k == 0 else "N"
        where = "step %d of a scan reusing one %s (now %s=%r): " % (k, kind, key, list(vals))
        for r in routes:
            if r in ("xray_sld-string", "xray_sld-formula", "Formula.xray_sld"):
                if r == "xray_sld-string":
                    call = lambda: xsf.xray_sld(s, density=density, **{key: A})
                elif r == "xray_sld-formula":
                    call = lambda: xsf.xray_sld(f, density=density, **{key: A})
                else:
                    call = lambda: fd.xray_sld(**{key: A})
                rho, irho = lib_call(case, r, call, has_dt_ion)
                if not (is_vector(np, rho, n) and is_vector(np, irho, n)):
                    raise Violation("c05:scan:shape", "%s%s returned %r" % (where, r, getattr(rho, "shape", type(rho))), case)
                for i in range(n):
                    ref = refs[i][1]           # exact node on the energy= route, window otherwise
                    judge_sld(rho[i], ref[0], "c05:scan:%s:rho:step%s" % (r, tag), "%s%s(%r, density=%r) rho[%d]" % (where, r, s, density, i), case)
                    judge_sld(irho[i], ref[1], "c05:scan:%s:irho:step%s" % (r, tag), "%s%s(%r, density=%r) irho[%d]" % (where, r, s, density, i), case)
            elif r == "index_of_refraction":
                nn = lib_call(case, r, lambda: xsf.index_of_refraction(f, density=density, **{key: A}), has_dt_ion)
                if not is_vector(np, nn, n):
                    raise Violation("c05:scan:shape", "%s%s returned %r" % (where, r, getattr(nn, "shape", type(nn))), case)
                for i in range(n):
                    c = lam[i] ** 2 / (2 * math.pi) * 1e-6
                    ref = refs[i][0]
                    anynan = ref[0][2] or ref[1][2]
                    z = complex(nn[i])
                    judge_sld(1.0 - z.real, ref[0][:2] + (anynan,) + ref[0][3:], "c05:scan:refraction:real:step%s" % tag,
                              "%s1 - Re index_of_refraction(%r, density=%r)[%d]" % (where, s, density, i), case, factor=c, floor=4 * EPS)
                    judge_sld(-z.imag, ref[1][:2] + (anynan, False) + ref[1][4:], "c05:scan:refraction:imag:step%s" % tag,
                              "%s-Im index_of_refraction(%r, density=%r)[%d]" % (where, s, density, i), case, factor=c, floor=1e-300)
            else:
                def mirror():
                    with np.errstate(all="ignore"):
                        return xsf.mirror_reflectivity(f, density=density, angle=2.0, roughness=3.0, **{key: A})
                R = lib_call(case, r, mirror, has_dt_ion)
                if not (isinstance(R, np.ndarray) and R.shape == (1, n)):
                    raise Violation("c05:scan:shape", "%s%s returned %r" % (where, r, getattr(R, "shape", type(R))), case)
                # reference: Fresnel reflectivity of a thick mirror from the oracle's own index of refraction
                for i in range(n):
                    ref = refs[i][0]
                    if ref[0][2] or ref[1][2] or ref[0][3] or ref[1][3]:
                        continue
                    got = float(R[0, i])
                    if not (0.0 <= got <= 1.0 + 1e-12):
                        raise Violation("c05:scan:reflectivity:outside-0-1", "%smirror_reflectivity(%r)[0,%d] = %r" % (where, s, i, got), case)
                    c = lam[i] ** 2 / (2 * math.pi) * 1e-6
                    want = []
                    for rr in (ref[0][0], ref[0][1]):
                        for ii in (ref[1][0], ref[1][1]):
                            want.append(_fresnel(complex(1 - c * rr, -c * ii), lam[i], 2.0, 3.0))
                    lo, hi = min(want), max(want)
                    if not (lo * (1 - 1e-6) - 1e-15 <= got <= hi * (1 + 1e-6) + 1e-15):
                        raise Violation("c05:scan:reflectivity:step%s" % tag, "%smirror_reflectivity(%r, density=%r, angle=2, roughness=3)[0,%d] "
                                        "= %r, the index of refraction of the current energies gives %r" % (where, s, density, i, got, 0.5 * (lo + hi)), case)
        if interleave:
            rho, irho = lib_call(case, "xray_sld-formula", lambda: xsf.xray_sld(f, density=density2, **{key: A}), has_dt_ion)
            for i in range(n):
                judge_sld(rho[i], refs2[i][0], "c05:scan:other-density:rho:step%s" % tag,
                          "%sxray_sld(%r, density=%r) rho[%d]" % (where, s, density2, i), case)
                judge_sld(irho[i], refs2[i][1], "c05:scan:other-density:irho:step%s" % tag,
                          "%sxray_sld(%r, density=%r) irho[%d]" % (where, s, density2, i), case)


def _fresnel(n, lam, angle_deg, rough):
    """|r|^2 of a thick mirror (xdb.lbl.gov section 4.2) in plain Python complex arithmetic."""
    import cmath
    th = math.radians(angle_deg)
    k = 2 * math.pi / lam
    ki = k * math.sin(th)
    kf = k * cmath.sqrt(n * n - math.cos(th) ** 2)
    r = (ki - kf) / (ki + kf) * cmath.exp(-2 * ki * kf * rough ** 2)
    return abs(r) ** 2


# ----------------------------------------------------------------------
# unusual but legitimate inputs: all counts scaled by one factor, tiny densities, argument types
SCALAR_TYPES = ["int", "np.int64", "np.float64", "np.float32", "0d-array", "0d-int-array"]
VECTOR_TYPES = ["int-list", "int-tuple", "int-ndarray", "float-tuple", "len1-list", "len1-tuple", "len1-ndarray",
                "float32-ndarray"]
COUNT_ROUTES = ["plain", "dict", "dict", "formula-mul", "formula-mul", "string-group"]


def spell_scale(x):
    """(decimal spelling in the formula grammar, exact value) of about 10**x with 3 significant digits."""
    from decimal import Decimal
    e = math.floor(x)
    mant = int(round(10 ** (x - e) * 100))
    from ..dec import HI
    d = HI.multiply(Decimal(mant), HI.power(Decimal(10), e - 2))
    text = format(d, "f")
    if "." in text:
        text = text.rstrip("0")
    if text.startswith("0."):
        text = text[1:]
    return text, Fraction(mant) * Fraction(10) ** (e - 2)


def make_arg(np, etype, vals):
    """The energy/wavelength argument of type *etype* for the float/int values *vals*;
    returns (argument, values as the library must understand them, vector?)."""
    if etype in SCALAR_TYPES:
        v = vals[0]
        arg = {"int": lambda: int(v), "np.int64": lambda: np.int64(v), "np.float64": lambda: np.float64(v),
               "np.float32": lambda: np.float32(v), "0d-array": lambda: np.array(float(v)),
               "0d-int-array": lambda: np.array(int(v))}[etype]()
        return arg, [float(arg)], False
    if etype.startswith("len1"):
        vals = vals[:1]
    arg = {"int-list": lambda: [int(v) for v in vals], "int-tuple": lambda: tuple(int(v) for v in vals),
           "int-ndarray": lambda: np.array([int(v) for v in vals], dtype=np.int64),
           "float-tuple": lambda: tuple(float(v) for v in vals),
           "len1-list": lambda: [float(vals[0])], "len1-tuple": lambda: (float(vals[0]),),
           "len1-ndarray": lambda: np.array([float(vals[0])]),
           "float32-ndarray": lambda: np.array(vals, dtype=np.float32)}[etype]()
    return arg, [float(v) for v in arg], True


def check_unusual(ctx, value):
    tree, dens_exp, scale_exp, croute, ref_idx, especs, ints, mode, etype, positional, k2_exp = value
    E = env()
    np, pt, xsf, table, pool = E["np"], E["pt"], E["xsf"], E["table"], E["pool"]
    case = {"kind": "unusual", "value": value}
    s = fa.render(tree)
    comp = fa.composition(pool, tree)
    keys = sorted(comp)
    specs = [a[1] for a, _ in fa.atoms_of(tree["g"])]
    has_dt_ion = any(is_dt_ion(sp) for sp in specs)
    tab = nff(table[keys[ref_idx % len(keys)][0]].symbol)
    density = 10.0 ** dens_exp
    key = "energy" if mode == "E" else "wavelength"
    integer = "int" in etype
    f32 = "float32" in etype
    # values of the argument
    if integer:
        raw = [1 + i % (30 if mode == "E" else 400) for i in ints]
    else:
        es0 = [to_energy(tab, sp) for sp in especs]
        raw = es0 if mode == "E" else [HC / e for e in es0]
    arg, vals, vector = make_arg(np, etype, raw)
    es = vals if mode == "E" else [HC / v for v in vals]
    n = len(es)
    # a float32 wavelength is turned into an energy in float32 arithmetic
    w = 2.0 ** -21 if (f32 and mode == "W") else tc.WINDOW
    # count scale
    if croute == "plain":
        scale_exp = 0.0
    k = 10.0 ** scale_exp
    text = None
    if croute == "string-group":
        text, kf = spell_scale(scale_exp)
        k = float(kf)
    cls = ["unusual", "counts:" + croute, "scale:1e%+03d" % (3 * math.floor(scale_exp / 3)),
           "density:1e%+03d" % (3 * math.floor(dens_exp / 3)), "argtype:" + etype, "route:" + mode,
           "compound:" + ("positional" if positional else "keyword")]
    ctx.case(("unusual", s, croute, scale_exp, dens_exp, mode, etype, bool(positional), tuple(vals)),
             nontrivial=(abs(scale_exp) >= 6 or dens_exp <= -6 or etype not in ("np.float64", "len1-list")),
             sample={"compound": s, "count_scale": k, "counts_via": croute, "density": density, key: repr(arg)}, cls=cls)
    try:
        f = pt.formula(s)
        got_comp = dict((atom_key(a), float(c)) for a, c in f.atoms.items())
    except Exception:  # noqa
        ctx.inconclusive += 1
        ctx.count("inconclusive:formula-rejected")
        return
    comp_f = dict((kk, float(v)) for kk, v in comp.items())
    if set(got_comp) != set(comp_f) or any(not same(got_comp[kk], comp_f[kk], 1e-12) for kk in comp_f):
        ctx.inconclusive += 1
        ctx.count("inconclusive:composition-differs")
        return
    if croute == "plain":
        cobj, shown = f, repr(s)
    elif croute == "dict":
        cobj = dict((a, c * k) for a, c in f.atoms.items())
        shown = "{%s}" % ", ".join("%s: %r" % (a, c) for a, c in cobj.items())
    elif croute == "formula-mul":
        cobj = lib_call(case, "n*formula", lambda: k * f)
        shown = "%r*formula(%r)" % (k, s)
    else:
        cobj = "(%s)%s" % (s, text)
        shown = repr(cobj)
        try:
            g = pt.formula(cobj)
            gc = dict((atom_key(a), float(c)) for a, c in g.atoms.items())
        except Exception:  # noqa
            ctx.inconclusive += 1
            ctx.count("inconclusive:formula-rejected")
            return
        if set(gc) != set(comp_f) or any(not same(gc[kk], comp_f[kk] * k, 1e-12) for kk in comp_f):
            ctx.inconclusive += 1
            ctx.count("inconclusive:composition-differs")
            return
    comp_k = dict((kk, v * k) for kk, v in comp_f.items())
    masses = dict((kk, key_to_atom(table, kk).mass) for kk in keys)
    refs = [compound_ref(comp_k, masses, density, e, w=w) for e in es]
    if any(r is None for r in refs):
        ctx.count("excluded:nonmonotonic-interval")
        return

    def unpack(r, what):
        a, b = r
        if vector:
            if not (is_vector(np, a, n) and is_vector(np, b, n)):
                raise Violation("c05:unusual:shape", "%s: %s of length %d returned %r" % (what, etype, n, getattr(a, "shape", type(a))), case)
            return a, b
        if not (is_scalar(np, a) and is_scalar(np, b)):
            raise Violation("c05:unusual:shape", "%s: scalar-like %s returned %r" % (what, etype, getattr(a, "shape", type(a))), case)
        return [a], [b]

    # 1. xray_sld, counts scaled: same SLD as the unscaled compound
    what = "xray_sld(%s, density=%r, %s=%r)" % (shown, density, key, arg)
    if positional:
        r = lib_call(case, "xray_sld", lambda: xsf.xray_sld(cobj, density=density, **{key: arg}), has_dt_ion)
    else:
        r = lib_call(case, "xray_sld", lambda: xsf.xray_sld(compound=cobj, density=density, **{key: arg}), has_dt_ion)
    rho, irho = unpack(r, what)
    tag = "scaled-counts" if croute != "plain" else "argtype"
    for i in range(n):
        judge_sld(rho[i], refs[i][0], "c05:unusual:%s:rho" % tag, what + " rho[%d]" % i, case)
        judge_sld(irho[i], refs[i][1], "c05:unusual:%s:irho" % tag, what + " irho[%d]" % i, case)
    # 2. linear in density, down to very small densities
    k2 = 10.0 ** k2_exp
    rk, ik = unpack(lib_call(case, "xray_sld", lambda: xsf.xray_sld(cobj, density=density * k2, **{key: arg}), has_dt_ion), "density*k")
    for i in range(n):
        if not (same(rk[i], k2 * float(rho[i]), 1e-12) and same(ik[i], k2 * float(irho[i]), 1e-12)):
            raise Violation("c05:unusual:density-linear", "%s -> (%r, %r); density*%r -> (%r, %r)"
                            % (what, rho[i], irho[i], k2, rk[i], ik[i]), case)
    # 3. the reference atom on its own: scattering_factors and Xray.sld with the same argument
    el = table.symbol(tab.symbol)
    f1, f2 = unpack(lib_call(case, "scattering_factors", lambda: el.xray.scattering_factors(**{key: arg})), "scattering_factors")
    for i, e in enumerate(es):
        for col, got in ((1, f1[i]), (2, f2[i])):
            acc = tab.accept(col, e, w=w)
            if acc is not None:
                judge(got, acc, "c05:unusual:factors:f%d" % col, "%s.xray.scattering_factors(%s=%r) f%d[%d]" % (el.symbol, key, arg, col, i),
                      case, tab, e)
    if el.density is not None:
        K = R_E * N_A * el.density / el.mass * 1e-8
        r1, r2 = unpack(lib_call(case, "Xray.sld", lambda: el.xray.sld(**{key: arg})), "Xray.sld")
        for i, e in enumerate(es):
            for col, got in ((1, r1[i]), (2, r2[i])):
                acc = tab.accept(col, e, w=w)
                if acc is not None:
                    judge(got, acc, "c05:unusual:element-sld:%s" % ("rho", "irho")[col - 1],
                          "%s.xray.sld(%s=%r)[%d][%d]" % (el.symbol, key, arg, col - 1, i), case, tab, e,
                          extra_tol=1e-12 * K * acc[3], factor=K)
    if f32:
        return          # lambda**2 in float32 limits n and R to ~1e-7: not judged
    # 4. index of refraction and mirror reflectivity of the scaled compound
    lam = [HC / e for e in es]
    nn = lib_call(case, "index_of_refraction", lambda: xsf.index_of_refraction(cobj, density=density, **{key: arg}), has_dt_ion)
    if vector and not is_vector(np, nn, n) or (not vector and not is_scalar(np, nn)):
        raise Violation("c05:unusual:shape", "index_of_refraction with %s returned %r" % (etype, getattr(nn, "shape", type(nn))), case)
    nn = nn if vector else [nn]
    for i in range(n):
        c = lam[i] ** 2 / (2 * math.pi) * 1e-6
        ref = refs[i]
        anynan = ref[0][2] or ref[1][2]
        z = complex(nn[i])
        whatn = "index_of_refraction(%s, density=%r, %s=%r)[%d]" % (shown, density, key, arg, i)
        judge_sld(1.0 - z.real, ref[0][:2] + (anynan,) + ref[0][3:], "c05:unusual:refraction:real", "1 - Re " + whatn, case, factor=c, floor=4 * EPS)
        judge_sld(-z.imag, ref[1][:2] + (anynan, False) + ref[1][4:], "c05:unusual:refraction:imag", "-Im " + whatn, case, factor=c, floor=1e-300)

    def mirror():
        with np.errstate(all="ignore"):
            return xsf.mirror_reflectivity(cobj, density=density, angle=2.0, roughness=3.0, **{key: arg})
    R = lib_call(case, "mirror_reflectivity", mirror, has_dt_ion)
    if not (isinstance(R, np.ndarray) and R.shape == (1, n)):
        raise Violation("c05:unusual:shape", "mirror_reflectivity with %s returned %r" % (etype, getattr(R, "shape", type(R))), case)
    for i in range(n):
        ref = refs[i]
        if ref[0][2] or ref[1][2] or ref[0][3] or ref[1][3]:
            continue
        got = float(R[0, i])
        c = lam[i] ** 2 / (2 * math.pi) * 1e-6
        want = [_fresnel(complex(1 - c * rr, -c * ii), lam[i], 2.0, 3.0) for rr in ref[0][:2] for ii in ref[1][:2]]
        lo, hi = min(want), max(want)
        if not (0.0 <= got <= 1.0 + 1e-12) or not (lo * (1 - 1e-6) - 1e-15 <= got <= hi * (1 + 1e-6) + 1e-15):
            raise Violation("c05:unusual:reflectivity", "mirror_reflectivity(%s, density=%r, %s=%r, angle=2, roughness=3)[0,%d] = %r, "
                            "the tables give %r" % (shown, density, key, arg, i, got, 0.5 * (lo + hi)), case)


# ----------------------------------------------------------------------
# every compound-level oracle through every public entry and every way of giving the density
ENTRIES = ["xray_sld", "index_of_refraction", "mirror_reflectivity", "Formula.xray_sld"]
DENSITY_ROUTES = ["density", "natural_density", "natural_density", "@d", "@di", "@dn", "Formula.density",
                  "Formula.natural_density"]
NATURAL = ("natural_density", "@dn", "Formula.natural_density")


def density_text(milli):
    """Grammar spelling and value of a density of *milli*/1000 g/cm^3."""
    text = "%d.%03d" % (milli // 1000, milli % 1000)
    return text, float(text)


def natural_mass(table, comp_f):
    """Formula mass with every isotope replaced by the natural element (ion charges kept)."""
    return sum(n * key_to_atom(table, (kk[0], 0, kk[2])).mass for kk, n in comp_f.items())


def check_routes(ctx, value):
    tree, milli, droute, as_formula, focus, ref_idx, especs, mode, vec, angle, rough = value
    E = env()
    np, pt, xsf, table, pool = E["np"], E["pt"], E["xsf"], E["table"], E["pool"]
    case = {"kind": "routes", "value": value}
    s = fa.render(tree)
    comp = fa.composition(pool, tree)
    keys = sorted(comp)
    comp_f = dict((kk, float(v)) for kk, v in comp.items())
    specs = [a[1] for a, _ in fa.atoms_of(tree["g"])]
    has_dt_ion = any(is_dt_ion(sp) for sp in specs)
    has_iso = any(kk[1] for kk in keys)
    tab = nff(table[keys[ref_idx % len(keys)][0]].symbol)
    tabs = [nff(table[kk[0]].symbol) for kk in keys]
    es = [to_energy(tab, sp) for sp in especs]
    if not vec:
        es, especs = es[:1], especs[:1]
    n = len(es)
    natural = droute in NATURAL
    cls = ["routes", "density-route:" + droute, "focus:" + focus, "route:" + mode, "call:" + ("vector" if vec else "scalar"),
           "compound-as:" + ("Formula" if (as_formula or droute.startswith("Formula")) else "string"),
           "isotopes:" + ("yes" if has_iso else "no")]
    ctx.case(("routes", s, milli, droute, bool(as_formula), focus, mode, bool(vec), tuple(es)),
             nontrivial=(has_iso or any(kk[2] for kk in keys) or any(t.near_edge(e) for t in tabs for e in es)),
             sample={"compound": s, "density_route": droute, "density": milli / 1000.0, "focus": focus,
                     "energies_keV": es}, cls=cls)
    try:
        f = pt.formula(s)
        got_comp = dict((atom_key(a), float(c)) for a, c in f.atoms.items())
    except Exception:  # noqa
        ctx.inconclusive += 1
        ctx.count("inconclusive:formula-rejected")
        return
    if set(got_comp) != set(comp_f) or any(not same(got_comp[kk], comp_f[kk], 1e-12) for kk in comp_f):
        ctx.inconclusive += 1
        ctx.count("inconclusive:composition-differs")
        return
    masses = dict((kk, key_to_atom(table, kk).mass) for kk in keys)
    m_iso = sum(nn * masses[kk] for kk, nn in comp_f.items())
    ratio = m_iso / natural_mass(table, comp_f) if natural else 1.0

    def build(tree_s, form_obj, mil):
        """(compound argument, density keywords, text shown) for the density route."""
        text, d = density_text(mil)
        base = form_obj if as_formula else tree_s
        if droute == "density":
            return base, {"density": d}, "%r, density=%r" % (tree_s, d)
        if droute == "natural_density":
            return base, {"natural_density": d}, "%r, natural_density=%r" % (tree_s, d)
        if droute in ("@d", "@di", "@dn"):
            tagged = tree_s + "@" + text + droute[2:]
            return (pt.formula(tagged) if as_formula else tagged), {}, repr(tagged)
        F = pt.formula(tree_s)
        if droute == "Formula.density":
            F.density = d
            return F, {}, "F=formula(%r); F.density=%r" % (tree_s, d)
        F.natural_density = d
        return F, {}, "F=formula(%r); F.natural_density=%r" % (tree_s, d)

    key = "energy" if mode == "E" else "wavelength"
    okey = "wavelength" if mode == "E" else "energy"
    lam = [HC / e for e in es]

    def argval(k, idx=None):
        v = es if k == "energy" else lam
        if idx is not None:
            return v[idx]
        return np.array(v) if vec else v[0]

    def call(entry, cobj, dkw, k, val):
        if entry == "xray_sld":
            return xsf.xray_sld(cobj, **dict(dkw, **{k: val}))
        if entry == "index_of_refraction":
            return xsf.index_of_refraction(cobj, **dict(dkw, **{k: val}))
        if entry == "mirror_reflectivity":
            with np.errstate(all="ignore"):
                return xsf.mirror_reflectivity(cobj, angle=angle, roughness=rough, **dict(dkw, **{k: val}))
        F = pt.formula(cobj, **dkw)
        return F.xray_sld(**{k: val})

    def norm(entry, r, scalar, what):
        """Result as a list of per-energy items: (rho, irho) pairs, complex n, or R."""
        m = 1 if scalar else n
        if entry in ("xray_sld", "Formula.xray_sld"):
            a, b = r
            ok = (is_scalar(np, a) and is_scalar(np, b)) if scalar else (is_vector(np, a, m) and is_vector(np, b, m))
            items = None if not ok else ([(a, b)] if scalar else list(zip(a, b)))
        elif entry == "index_of_refraction":
            ok = is_scalar(np, r) if scalar else is_vector(np, r, m)
            items = None if not ok else ([r] if scalar else list(r))
        else:
            ok = isinstance(r, np.ndarray) and r.shape == (1, m)
            items = None if not ok else list(r[0])
        if not ok:
            raise Violation("c05:routes:%s:shape" % entry, "%s returned %r" % (what, getattr(r, "shape", type(r))), case)
        return items

    def judge_item(entry, item, ref, i, bucket, what):
        if entry in ("xray_sld", "Formula.xray_sld"):
            judge_sld(item[0], ref[0], bucket + ":rho", what + " rho[%d]" % i, case)
            judge_sld(item[1], ref[1], bucket + ":irho", what + " irho[%d]" % i, case)
            return
        c = lam[i] ** 2 / (2 * math.pi) * 1e-6
        anynan = ref[0][2] or ref[1][2]
        if entry == "index_of_refraction":
            z = complex(item)
            judge_sld(1.0 - z.real, ref[0][:2] + (anynan,) + ref[0][3:], bucket + ":real", "1 - Re " + what + "[%d]" % i, case,
                      factor=c, floor=4 * EPS)
            judge_sld(-z.imag, ref[1][:2] + (anynan, False) + ref[1][4:], bucket + ":imag", "-Im " + what + "[%d]" % i, case,
                      factor=c, floor=1e-300)
            return
        if anynan or ref[0][3] or ref[1][3]:
            return
        got = float(item)
        want = [_fresnel(complex(1 - c * rr, -c * ii), lam[i], angle, rough) for rr in ref[0][:2] for ii in ref[1][:2]]
        lo, hi = min(want), max(want)
        if not (0.0 <= got <= 1.0 + 1e-12):
            raise Violation(bucket + ":outside-0-1", "%s[0,%d] = %r" % (what, i, got), case)
        if not (lo * (1 - 1e-6) - 1e-15 <= got <= hi * (1 + 1e-6) + 1e-15):
            raise Violation(bucket + ":value", "%s[0,%d] = %r, the tables and the density route give %r"
                            % (what, i, got, 0.5 * (lo + hi)), case)

    def equal_items(entry, x, y):
        if entry in ("xray_sld", "Formula.xray_sld"):
            return same(x[0], y[0], 1e-12) and same(x[1], y[1], 1e-12)
        if entry == "index_of_refraction":
            x, y = complex(x), complex(y)
            if isnan(x.real) or isnan(y.real):
                return isnan(x.real) and isnan(y.real)
            return (abs((1 - x.real) - (1 - y.real)) <= 8 * EPS + 1e-12 * abs(1 - x.real)
                    and abs(x.imag - y.imag) <= 1e-12 * abs(x.imag) + 1e-300)
        x, y = float(x), float(y)
        if isnan(x) or isnan(y):
            return isnan(x) and isnan(y)
        return abs(x - y) <= 1e-9 * max(abs(x), abs(y)) + 1e-15

    cobj, dkw, shown = build(s, f, milli)
    d_actual = density_text(milli)[1] * ratio
    refs = [compound_ref(comp_f, masses, d_actual, e) for e in es]
    if any(r is None for r in refs):
        ctx.count("excluded:nonmonotonic-interval")
        return

    # 1. absolute, every entry, chosen density route
    results = {}
    for entry in ENTRIES:
        what = "%s(%s, %s=%r)" % (entry, shown, key, argval(key))
        r = lib_call(case, entry, lambda: call(entry, cobj, dkw, key, argval(key)), has_dt_ion)
        items = norm(entry, r, not vec, what)
        results[entry] = items
        for i in range(n):
            judge_item(entry, items[i], refs[i], i, "c05:routes:%s:%s" % (entry, droute), what)
    entry = focus
    items = results[entry]
    # 2. the other of energy= / wavelength=
    what = "%s(%s, %s=%r)" % (entry, shown, okey, argval(okey))
    other = norm(entry, lib_call(case, entry, lambda: call(entry, cobj, dkw, okey, argval(okey)), has_dt_ion), not vec, what)
    for i in range(n):
        judge_item(entry, other[i], refs[i], i, "c05:routes:%s:%s:energy-vs-wavelength" % (entry, droute), what)
    # 3. scalar call equals the element of the vector call
    if vec:
        what = "%s(%s, %s=%r)" % (entry, shown, key, argval(key, 0))
        one = norm(entry, lib_call(case, entry, lambda: call(entry, cobj, dkw, key, argval(key, 0)), has_dt_ion), True, what)
        if not equal_items(entry, one[0], items[0]):
            raise Violation("c05:routes:%s:%s:scalar-vs-vector" % (entry, droute), "%s -> %r, element 0 of the vector call -> %r"
                            % (what, one[0], items[0]), case)
    # 4. twice the density: SLD and 1 - n double
    if entry != "mirror_reflectivity":
        cobj2, dkw2, shown2 = build(s, f, 2 * milli)
        what = "%s(%s, %s=%r)" % (entry, shown2, key, argval(key))
        twice = norm(entry, lib_call(case, entry, lambda: call(entry, cobj2, dkw2, key, argval(key)), has_dt_ion), not vec, what)
        for i in range(n):
            if entry == "index_of_refraction":
                a, b = complex(items[i]), complex(twice[i])
                ok = ((isnan(a.real) and isnan(b.real)) or
                      (abs((1 - b.real) - 2 * (1 - a.real)) <= 8 * EPS + 1e-12 * abs(1 - b.real)
                       and abs(b.imag - 2 * a.imag) <= 1e-12 * abs(b.imag) + 1e-300))
            else:
                ok = same(twice[i][0], 2 * float(items[i][0]), 1e-12) and same(twice[i][1], 2 * float(items[i][1]), 1e-12)
            if not ok:
                raise Violation("c05:routes:%s:%s:density-linear" % (entry, droute), "%s -> %r but at half the density %r"
                                % (what, twice[i], items[i]), case)
    # 5. isotopes replaced by the natural elements at equal natural density: nothing changes
    if natural and has_iso:
        tree2 = deiso(tree)
        s2 = fa.render(tree2)
        cobj3, dkw3, shown3 = build(s2, pt.formula(s2), milli)
        for ent in ENTRIES:
            what = "%s(%s, %s=%r)" % (ent, shown3, key, argval(key))
            nat = norm(ent, lib_call(case, ent, lambda: call(ent, cobj3, dkw3, key, argval(key)), has_dt_ion), not vec, what)
            for i in range(n):
                if not equal_items(ent, nat[i], results[ent][i]):
                    raise Violation("c05:routes:%s:%s:isotope-independence" % (ent, droute),
                                    "%s -> %r but the isotope-labelled %s -> %r" % (what, nat[i], shown, results[ent][i]), case)


# ----------------------------------------------------------------------
# the served tables equal the files, whatever public calls were made before
def _atoms_in_use(table, symbols):
    """(label, symbol, atom) for the elements and for every ion object created so far."""
    for sym in symbols:
        el = table.symbol(sym)
        yield sym, sym, el
        for c, ion in sorted(el.ion.ionset.items()):
            yield "%s{%+d}" % (sym, c), sym, ion
        for iso in el:
            for c, ion in sorted(iso.ion.ionset.items()):
                yield "%s[%d]{%+d}" % (sym, iso.isotope, c), sym, ion


def table_diff(np, tab, served):
    """None if the served (3, n) array is the table of the .nff file, else a description."""
    if served is None:
        return "sftable is None"
    served = np.asarray(served)
    n = len(tab.Ek)
    if served.shape != (3, n):
        return "shape %r, the file has %d rows" % (served.shape, n)
    for i in range(n):
        x, a, b = float(served[0, i]), float(served[1, i]), float(served[2, i])
        if abs(x - tab.Ek[i]) > 4 * EPS * tab.Ek[i]:
            return "row %d: energy %r, file %s eV" % (i, x, tab.ev_text[i])
        want = tab.f1[i]
        if (isnan(a) != (want is None)) or (want is not None and a != want):
            return "row %d (%s eV): f1 is %r, file has %r" % (i, tab.ev_text[i], a, want if want is not None else "-9999 (not available)")
        if b != tab.f2[i]:
            return "row %d (%s eV): f2 is %r, file has %r" % (i, tab.ev_text[i], b, tab.f2[i])
    return None


def tables_changed(ctx, symbols=None):
    """None, or (atom label, symbol, description) of the first served table (atom.xray.sftable of an
    element with a file, or of an ion object created so far) that differs from the file."""
    E = env()
    for label, sym, atom in _atoms_in_use(E["table"], symbols or E["symbols"]):
        ctx.count("table-unchanged:compared")
        why = table_diff(E["np"], nff(sym), atom.xray.sftable)
        if why is not None:
            return label, sym, why
    return None


def check_tables_unchanged(ctx, after, symbols=None):
    bad = tables_changed(ctx, symbols)
    if bad is not None:
        ctx.violation("c05:sftable:changed", "after %s: %s.xray.sftable no longer equals %s.nff: %s"
                      % (after, bad[0], bad[1].lower(), bad[2]), {"kind": "tables", "after": after, "symbol": bad[1]})


def with_table_check(name, fn):
    def run(ctx, **kw):
        fn(ctx, **kw)
        check_tables_unchanged(ctx, "task " + name)
    return run


# ----------------------------------------------------------------------
# history: elements are plotted, then everything is evaluated again
class _Anything(types.ModuleType):
    """Stand-in for pylab/matplotlib: every attribute is a function that accepts anything."""
    def __getattr__(self, name):
        if name.startswith("__"):
            raise AttributeError(name)
        return lambda *a, **k: None


def plot_elements(case, symbols):
    E = env()
    names = ["pylab", "matplotlib", "matplotlib.pyplot", "matplotlib.pylab"]
    saved = dict((nm, sys.modules.get(nm)) for nm in names)
    for nm in names:
        sys.modules[nm] = _Anything(nm)
    try:
        for sym in symbols:
            el = E["table"].symbol(sym)
            plot = E["xsf"].plot_xsf
            lib_call(case, "plot_xsf", lambda: plot(el))
    finally:
        for nm in names:
            if saved[nm] is None:
                sys.modules.pop(nm, None)
            else:
                sys.modules[nm] = saved[nm]


def check_plot(ctx, value):
    """plot_xsf(el) for some elements (plotting stubbed out), then the table, the exact nodes, the
    interpolation and the compound calculators of those elements must be what they were."""
    symbols, especs, mode, density, counts, vec = value
    E = env()
    case = {"kind": "plot", "value": value}
    ctx.case(("plot", tuple(symbols), mode, tuple(map(tuple, especs))), nontrivial=any(nff(sy).nonpos for sy in symbols),
             sample={"plotted": symbols, "then": "tables, nodes, interpolation, compounds"},
             cls=["plot", "plotted:%d" % len(symbols)] + ["plot:f1-has-nonpositive-rows" if any(nff(sy).nonpos for sy in symbols)
                                                          else "plot:f1-all-positive"])
    plot_elements(case, symbols)
    try:
        _after_plot(ctx, symbols, especs, mode, density, counts, vec)
    except Violation as v:
        # the sub-oracle's own case would not replay without the plot: report the history
        raise Violation("c05:plot:" + v.bucket.split(":", 1)[1], "after plot_xsf(%s): %s" % (", ".join(symbols), v.message), case)
    bad = tables_changed(ctx, symbols)
    if bad is not None:
        raise Violation("c05:plot:sftable-changed", "after plot_xsf(%s): %s.xray.sftable no longer equals %s.nff: %s"
                        % (", ".join(symbols), bad[0], bad[1].lower(), bad[2]), case)


def _after_plot(ctx, symbols, especs, mode, density, counts, vec):
    E = env()
    done = E.setdefault("plotted", set())
    for sym in symbols:
        tab = nff(sym)
        spec = [sym, 0, 0]
        if sym not in done:
            done.add(sym)
            rows = list(range(len(tab.Ek)))
            for ch in chunks([["exact", i] for i in rows], 64):
                check_factors(ctx, [spec, "E", ch, False])
            for ch in chunks([["mid", i, 0.5] for i in rows[:-1]], 64):
                check_factors(ctx, [spec, "E", ch, False])
        neg = [["negx", j, d] for j in range(min(len(tab.nonpos), 12)) for d in (-1, 0, 1)]
        neg += [["negm", j, d, 0.37] for j in range(min(len(tab.nonpos), 12)) for d in (-1, 0)]
        for ch in chunks(neg, 32):
            check_factors(ctx, [spec, mode, ch, False])
        check_factors(ctx, [spec, mode, especs, False])
        check_element_sld(ctx, [spec, mode, especs, False])
    # a compound of the plotted elements, energies relative to each of them in turn
    atoms = [["a", [sym, 0, 0], False, (None if c == 1 else str(c))] for sym, c in zip(symbols, counts)]
    tree = {"g": [["i", None, atoms]], "s": [], "d": None}
    for ref in range(len(symbols)):
        check_compound(ctx, [tree, density, ref, especs[:3], mode, 2.0, [1.0, 20.0], 3.0, 1 if vec else 0])


# ----------------------------------------------------------------------
# f0
Q_FIXED = [["abs", 0.0], ["small", 9], ["small", 3], ["abs", 0.1], ["abs", 1.0], ["abs", 5.0],
           ["abs", 4 * math.pi], ["abs", 20.0], ["abs", 50.0], ["lim", -10 ** 6], ["lim", -1], ["lim", 0],
           ["lim", 10 ** 7], ["abs", 25 * math.pi], ["abs", 30 * math.pi], ["abs", 100.0]]


def q_spec():
    return st.one_of(st.tuples(st.just("abs"), st.floats(0.0, 30 * math.pi)).map(list),
                     st.tuples(st.just("abs"), st.floats(0.0, 30.0)).map(list),
                     st.tuples(st.just("small"), st.integers(1, 300)).map(list),
                     st.tuples(st.just("lim"), st.sampled_from([0, 0, -1, -8, -64, -10 ** 6, -10 ** 10,
                                                                10 ** 7, 10 ** 10, 10 ** 13])).map(list))


def to_q(spec):
    if spec[0] == "abs":
        return float(spec[1])
    if spec[0] == "small":
        return 10.0 ** -spec[1]
    if spec[0] == "lim":
        return step(Q_LIMIT, spec[1])
    raise ValueError(spec)


F0_ROUTES = ["atom", "isotope", "symbol", "symbol-short", "dt"]


def check_f0(ctx, value):
    sym, route, qspecs, scalar = value
    E = env()
    np, table, cm = E["np"], E["table"], E["cm"]
    entry = E["f0"][sym]
    case = {"kind": "f0", "value": value}
    el = table.symbol(entry["element"])
    ch = entry["charge"]
    if el.number != entry["Z"]:
        raise ValueError("f0 entry %s: Z %d" % (sym, entry["Z"]))
    qs = [to_q(s) for s in qspecs]
    scalar = bool(scalar) and len(qs) == 1
    dt_ion = False
    if route == "isotope" and not el.isotopes:
        route = "atom"
    if route == "dt" and el.symbol != "H":
        route = "atom"
    if route == "symbol-short" and abs(ch) != 1:
        route = "symbol"
    if route == "atom":
        atom = el.ion[ch] if ch else el
        fn = lambda q: atom.xray.f0(q)
    elif route == "isotope":
        iso = el[el.isotopes[len(sym) % len(el.isotopes)]]
        atom = iso.ion[ch] if ch else iso
        dt_ion = bool(ch) and el.symbol == "H" and iso.isotope in (2, 3)
        fn = lambda q: atom.xray.f0(q)
    elif route == "dt":
        iso = table.symbol("DT"[len(qspecs) % 2])
        atom = iso.ion[ch] if ch else iso
        dt_ion = bool(ch)
        fn = lambda q: atom.xray.f0(q)
    elif route == "symbol":
        fn = lambda q: cm.fxrayatq(sym, q)
    else:
        short = entry["element"] + ("+" if ch > 0 else "-")
        fn = lambda q: cm.fxrayatq(short, q)
    hot = bool(ch) or any(q == 0 or q >= Q_LIMIT * (1 - 1e-9) for q in qs)
    cls = ["f0", "f0-route:" + route, "f0:" + ("ion" if ch else "neutral"), "call:" + ("scalar" if scalar else "vector")]
    for q in qs:
        cls.append("Q:zero" if q == 0 else "Q:limit" if q == Q_LIMIT else "Q:beyond" if q > Q_LIMIT else
                   "Q:just-below-limit" if q >= Q_LIMIT * (1 - 1e-9) else "Q:tiny" if q < 1e-6 else "Q:inside")
    ctx.case(("f0", sym, route, scalar, tuple(qs)), nontrivial=hot,
             sample={"f0": sym, "route": route, "Q": qs[:4]}, cls=sorted(set(cls)))
    try:
        got = fn(qs[0] if scalar else list(qs))
    except Exception as e:  # noqa
        fr = lib_frame(e.__traceback__)
        if fr is None:
            raise
        if dt_ion:
            raise Violation("c05:dt-ion:no-f0", "%r.xray.f0 raised %s: %s (hydrogen ion %s has coefficients)"
                            % (atom, type(e).__name__, e, sym), case)
        raise Violation("c05:f0:raised:%s:%s" % (type(e).__name__, fr), "f0 of %s via %s raised %s: %s"
                        % (sym, route, type(e).__name__, e), case)
    if scalar:
        if not is_scalar(np, got):
            raise Violation("c05:f0:shape", "scalar Q returned %r" % (type(got),), case)
        got = [got]
    elif not is_vector(np, got, len(qs)):
        raise Violation("c05:f0:shape", "Q of length %d returned %r" % (len(qs), getattr(got, "shape", type(got))), case)
    electrons = entry["Z"] - ch
    floor = 1e-12 * (sum(abs(a) for a in entry["a"]) + abs(entry["c"]))
    for q, g in zip(qs, got):
        g = float(g)
        if q > Q_LIMIT:
            if q < Q_LIMIT * (1 + 1e-12):
                ctx.count("f0:limit-indeterminate")
                continue
            if not isnan(g):
                raise Violation("c05:f0:not-nan-beyond-range", "f0 of %s (%s) at Q=%r (> 24 pi) is %r, expected NaN"
                                % (sym, route, q, g), case)
            continue
        if isnan(g):
            raise Violation("c05:f0:nan-in-range", "f0 of %s (%s) at Q=%r (<= 24 pi = %r) is NaN" % (sym, route, q, Q_LIMIT), case)
        want = tc.f0_value(entry, q)
        if abs(g - want) > 1e-12 * abs(want) + floor:
            raise Violation("c05:f0:value", "f0 of %s (%s) at Q=%r is %r, expected %r" % (sym, route, q, g, want), case)
        if q <= 1e-9 and abs(g - electrons) > 0.05:
            raise Violation("c05:f0:limit", "f0 of %s (%s) at Q=%r is %r, electron count is %d" % (sym, route, q, g, electrons), case)
    if not scalar:
        g0 = fn(qs[0])
        if not (is_scalar(np, g0) and same(g0, got[0], 1e-14)):
            raise Violation("c05:f0:scalar-vs-vector", "f0 of %s at Q=%r: scalar %r, vector %r" % (sym, qs[0], g0, got[0]), case)


# ----------------------------------------------------------------------
# tasks
def chunks(seq, n):
    for i in range(0, len(seq), n):
        yield seq[i:i + n]


def task_sweep(ctx, shard, nshards):
    E = env()
    syms = [s for i, s in enumerate(E["symbols"]) if i % nshards == shard]
    for sym in syms:
        tab = nff(sym)
        n = len(tab.Ek)
        spec = [sym, 0, 0]
        work = []
        nodes = [["node", i, 0] for i in range(n)]
        for mode in ("E", "W"):
            for ch in chunks(nodes, 32):
                work.append(([spec, mode, ch, False], False))
        for k in (8, -8, 64, -64):
            for ch in chunks([["node", i, k] for i in range(n)], 64):
                work.append(([spec, "E", ch, False], False))
        for ch in chunks([["mid", i, 0.5] for i in range(n - 1)], 32):
            work.append(([spec, "E", ch, False], False))
            work.append(([spec, "W", ch, False], False))
        # exactly the served node energies, energy= route: the tabulated value is required
        g = grid(sym)
        if len(g) != n or any(abs(a - b) > 4 * EPS * b for a, b in zip(g, tab.Ek)):
            ctx.violation("c05:sftable:grid", "%s.xray.sftable[0] is not the energy column of %s.nff / 1000"
                          % (sym, sym.lower()), {"kind": "grid", "symbol": sym})
            continue
        for ch in chunks([["exact", i] for i in range(n)], 32):
            work.append(([spec, "E", ch, False], False))
        for i in range(n):
            work.append(([spec, "E", [["exact", i]], True], True))
        for side in (0, 1):
            for k in END_ULPS:
                for mode in ("E", "W"):
                    work.append(([spec, mode, [["end", side, k]], True], True))
        for u in (0.0, 0.02, 0.97, 1.0):
            work.append(([spec, "E", [["log", u]], True], False))
        # one LONG scan: every node and every midpoint in a single vector (2n-1 points, more than the table has
        # rows), in a stride-permuted, non-monotone order - two detector banks concatenated, a shuffled scan
        long_pts = [["node", i, 0] for i in range(n)] + [["mid", i, 0.5] for i in range(n - 1)]
        stride = 7 if len(long_pts) % 7 else 11
        long_pts = [long_pts[(k * stride) % len(long_pts)] for k in range(len(long_pts))]
        work.append(([spec, "E", long_pts, False], False))
        work.append(([spec, "W", long_pts, False], False))
        for value, strict in work:
            ctx.check(lambda c, v: check_factors(c, v["value"], v["strict_ends"]),
                      {"kind": "factors", "value": value, "strict_ends": strict})
    ctx.extra["tables"] = len(syms)
    ctx.extra["nodes"] = sum(len(nff(s).Ek) for s in syms)


def atom_strategy(pool, ions=True):
    alts = [pool.element(), pool.element(), pool.isotope(), pool.dt()]
    if ions:
        alts += [pool.ion(), pool.isotope_ion(), pool.dt_ion()]
    return st.one_of(*alts)


def task_factors(ctx, n):
    pool = env()["pool"]
    strat = st.tuples(atom_strategy(pool), st.sampled_from(["E", "W"]),
                      st.lists(energy_spec(), min_size=1, max_size=6), st.booleans()).map(list)
    ctx.search("factors", strat, lambda c, v: check_factors(c, v), n)


def task_element_sld(ctx, n):
    pool = env()["pool"]
    strat = st.tuples(atom_strategy(pool, ions=False), st.sampled_from(["E", "W"]),
                      st.lists(energy_spec(), min_size=1, max_size=4), st.booleans()).map(list)
    ctx.search("element-sld", strat, lambda c, v: check_element_sld(c, v), n)


def compound_strategy(pool, depth):
    return st.tuples(fa.compound(pool, depth=depth, max_groups=3, max_atoms=3, density=False),
                     st.floats(1e-3, 50.0), st.integers(0, 50),
                     st.lists(energy_spec_compound(), min_size=1, max_size=4), st.sampled_from(["E", "W"]),
                     st.floats(1e-3, 1e3), st.lists(st.floats(1e-4, 90.0), min_size=1, max_size=3),
                     st.floats(0.0, 50.0), st.sampled_from([0, 1, 1, 2])).map(list)


def task_compounds(ctx, n, depth):
    pool = env()["pool"]
    ctx.search("compounds", compound_strategy(pool, depth), lambda c, v: check_compound(c, v), n)


def task_scans(ctx, n_atom, n_compound):
    pool = env()["pool"]
    def steps(spec_strategy):
        return st.integers(1, 4).flatmap(lambda m: st.lists(st.lists(spec_strategy, min_size=m, max_size=m),
                                                            min_size=2, max_size=3))
    sa = st.tuples(atom_strategy(pool), st.sampled_from(["E", "E", "W"]), steps(energy_spec()),
                   st.sampled_from(["ndarray", "ndarray", "list"]), st.sampled_from(["factors", "sld"])).map(list)
    if n_atom:
        ctx.search("scan-atom", sa, lambda c, v: check_scan_atom(c, v), n_atom)
    sc = st.tuples(fa.compound(pool, depth=1, max_groups=2, max_atoms=3, density=False),
                   st.floats(1e-3, 50.0), st.floats(1e-3, 50.0), st.integers(0, 50), steps(energy_spec_compound()),
                   st.sampled_from(["E", "E", "W"]), st.sampled_from(["ndarray", "ndarray", "list"]),
                   st.lists(st.sampled_from(SCAN_ROUTES), min_size=1, max_size=3, unique=True),
                   st.booleans()).map(list)
    if n_compound:
        ctx.search("scan-compound", sc, lambda c, v: check_scan_compound(c, v), n_compound)


def tails(lo, hi, width):
    """Uniform over [lo, hi] with a third of the draws in the outer *width* at either end."""
    return st.one_of(st.floats(lo, hi), st.floats(lo, hi), st.floats(lo, lo + width), st.floats(hi - width, hi))


def task_unusual(ctx, n):
    pool = env()["pool"]
    # the cheap choices are drawn before the tree so that a long tree cannot starve them
    strat = st.tuples(tails(-12.0, 2.0, 3.0), tails(-14.0, 12.0, 4.0), st.sampled_from(COUNT_ROUTES), st.integers(0, 50),
                      st.lists(energy_spec_compound(), min_size=3, max_size=3), st.lists(st.integers(0, 10 ** 6), min_size=3, max_size=3),
                      st.sampled_from(["E", "E", "W"]), st.sampled_from(SCALAR_TYPES + VECTOR_TYPES), st.booleans(),
                      st.floats(-6.0, 6.0),
                      fa.compound(pool, depth=1, max_groups=2, max_atoms=3, density=False)).map(lambda t: [t[-1]] + list(t[:-1]))
    ctx.search("unusual", strat, lambda c, v: check_unusual(c, v), n)


def task_routes(ctx, n):
    pool = env()["pool"]
    atoms = st.one_of(pool.isotope(), pool.isotope(), pool.dt(), pool.element(), pool.element(), pool.ion(),
                      pool.isotope_ion(), pool.dt_ion())
    strat = st.tuples(st.integers(1, 30000), st.sampled_from(DENSITY_ROUTES), st.booleans(), st.sampled_from(ENTRIES),
                      st.integers(0, 50), st.lists(energy_spec_compound(), min_size=2, max_size=2),
                      st.sampled_from(["E", "W"]), st.booleans(), st.floats(0.05, 90.0), st.floats(0.0, 30.0),
                      fa.compound(pool, depth=1, atoms=atoms, max_groups=2, max_atoms=3, density=False)
                      ).map(lambda t: [t[-1]] + list(t[:-1]))
    ctx.search("routes", strat, lambda c, v: check_routes(c, v), n)


def task_plot(ctx, n):
    E = env()
    with_dips = [sy for sy in E["symbols"] if nff(sy).nonpos]
    syms = st.lists(st.one_of(st.sampled_from(with_dips), st.sampled_from(with_dips), st.sampled_from(E["symbols"])),
                    min_size=1, max_size=3, unique=True)
    strat = st.tuples(syms, st.lists(st.one_of(neg_spec(), neg_spec(), energy_spec_compound()), min_size=2, max_size=4),
                      st.sampled_from(["E", "E", "W"]), st.floats(0.1, 20.0),
                      st.lists(st.integers(1, 5), min_size=3, max_size=3), st.booleans()).map(list)
    ctx.extra["tables_with_nonpositive_f1"] = len(with_dips)
    ctx.search("plot", strat, lambda c, v: check_plot(c, v), n)


def task_scans_and_plot(ctx, n_atom, n_plot):
    task_scans(ctx, n_atom=n_atom, n_compound=0)
    task_plot(ctx, n_plot)


def task_f0(ctx, n, sweep=True):
    E = env()
    syms = E["f0_syms"]
    ctx.extra["coefficient_sets"] = len(E["f0"])
    ctx.extra["sets_naming_an_atom_or_ion"] = len(syms)
    for sym in (syms if sweep else []):
        for route in F0_ROUTES:
            for value in ([sym, route, Q_FIXED, False],
                          [sym, route, [["abs", 0.0]], True], [sym, route, [["lim", 0]], True],
                          [sym, route, [["lim", 10 ** 7]], True]):
                ctx.check(lambda c, v: check_f0(c, v["value"]), {"kind": "f0", "value": value})
    strat = st.tuples(st.sampled_from(syms), st.sampled_from(F0_ROUTES),
                      st.lists(q_spec(), min_size=1, max_size=6), st.booleans()).map(list)
    ctx.search("f0", strat, lambda c, v: check_f0(c, v), n)


# ----------------------------------------------------------------------
# x-ray handles that travel between interpreters (a worker pool under the spawn start method, a saved work list):
# atom.xray and its bound methods are pickled in one fresh interpreter and used in another one, in which nothing, the
# parent elements' tables, or the very same atoms' tables were touched first.  What they answer there is what the atom
# answers when asked directly in this process (which the other tasks judge against the tables), and f0(0) = Z - charge.
XPROC_PRODUCER = r"""
import pickle, sys, json
import periodictable as pt
specs = json.loads(sys.argv[1])
def atom(s):
    el = pt.elements.symbol(s[0])
    a = el[s[1]] if s[1] else el
    return a.ion[s[2]] if s[2] else a
hs = [atom(s).xray for s in specs]
sys.stdout.buffer.write(pickle.dumps({"handles": hs, "f0": [h.f0 for h in hs], "sf": [h.scattering_factors for h in hs]}, %d))
"""
XPROC_CONSUMER = r"""
import pickle, sys, json
import numpy as np
import periodictable as pt
specs, first, blobfile = json.loads(sys.argv[1]), sys.argv[2], sys.argv[3]
def atom(s):
    el = pt.elements.symbol(s[0])
    a = el[s[1]] if s[1] else el
    return a.ion[s[2]] if s[2] else a
if first == "elements":
    for s in specs:
        pt.elements.symbol(s[0]).xray.scattering_factors(energy=8.0)
elif first == "same-atoms":
    for s in specs:
        try:
            atom(s).xray.f0(0.5)
        except KeyError:
            pass            # no coefficient set for this ion
elif first == "compound":
    pt.xray_sld("Fe2O3", density=5.24, energy=8.0)
    pt.xray_sld("CaCl2UO2", density=2.15, energy=8.0)
d = pickle.load(open(blobfile, "rb"))
Q = [0.0, 1e-4, 1.5, 9.0]
def num(x):
    return [None if (v != v) else float(v) for v in np.asarray(x, float).reshape(-1)]
out = []
for h, f0, sf in zip(d["handles"], d["f0"], d["sf"]):
    row = {}
    for k, fn in (("handle.f0", lambda: h.f0(np.array(Q))), ("bound-f0", lambda: f0(np.array(Q))),
                  ("handle.f0-scalar", lambda: [h.f0(q) for q in Q]),
                  ("handle.sf", lambda: h.scattering_factors(energy=np.array([2.0, 8.0]))),
                  ("bound-sf", lambda: sf(energy=np.array([2.0, 8.0])))):
        try:
            row[k] = num(fn())
        except Exception as e:
            row[k] = "raised %s: %s" % (type(e).__name__, str(e)[:80])
    out.append(row)
print(json.dumps(out))
"""


def task_xproc(ctx, protocols=(2, 5)):
    import json
    import os
    import subprocess
    import tempfile
    import numpy as np
    import periodictable as pt
    from ..runner import REPO
    specs = []
    for sym in ("H", "O", "Fe", "Ca", "Cl", "U", "Mn", "Na", "Ce", "Si"):
        el = pt.elements.symbol(sym)
        specs.append([sym, 0, 0])
        specs += [[sym, 0, c] for c in el.ions if abs(c) <= 4]
    specs += [["D", 0, 0], ["D", 0, 1], ["T", 0, 1], ["Fe", 56, 0], ["Fe", 56, 2], ["O", 18, -2], ["H", 1, 1], ["H", 2, -1]]
    env = dict(os.environ, PYTHONPATH=REPO, PYTHONDONTWRITEBYTECODE="1")
    env.pop("PERIODICTABLE_DATA", None)
    Q = [0.0, 1e-4, 1.5, 9.0]

    def atom(s):
        el = pt.elements.symbol(s[0])
        a = el[s[1]] if s[1] else el
        return a.ion[s[2]] if s[2] else a
    tmp = tempfile.mkdtemp(prefix="c05-xproc-")
    try:
        for proto in protocols:
            r = subprocess.run([sys.executable, "-c", XPROC_PRODUCER % proto, json.dumps(specs)], env=env, capture_output=True, cwd=tmp)
            if r.returncode != 0:
                ctx.violation("c05:xproc:pickle-raises", "pickling atom.xray handles (protocol %d) in a fresh interpreter failed: %s"
                              % (proto, r.stderr.decode()[-300:]), {"kind": "xproc", "protocol": proto})
                continue
            blob = os.path.join(tmp, "handles-%d.pickle" % proto)
            with open(blob, "wb") as fh:
                fh.write(r.stdout)
            for first in ("nothing", "elements", "same-atoms", "compound"):
                case = {"kind": "xproc", "protocol": proto, "first": first}
                c = subprocess.run([sys.executable, "-c", XPROC_CONSUMER, json.dumps(specs), first, blob], env=env,
                                   capture_output=True, cwd=tmp)
                if c.returncode != 0:
                    ctx.violation("c05:xproc:unpickle-raises", "using pickled atom.xray handles in another interpreter (%s touched "
                                  "first) failed: %s" % (first, c.stderr.decode()[-300:]), case)
                    continue
                rows = json.loads(c.stdout.decode().strip().splitlines()[-1])
                for s, row in zip(specs, rows):
                    a = atom(s)
                    ctx.case(("xproc", proto, first, tuple(s)), nontrivial=bool(s[2]), sample=dict(case, atom=s),
                             cls=["xproc:first:" + first, "xproc:" + spec_class(s)])
                    calls = {"handle.f0": lambda: a.xray.f0(np.array(Q)), "bound-f0": lambda: a.xray.f0(np.array(Q)),
                             "handle.f0-scalar": lambda: [a.xray.f0(q) for q in Q],
                             "handle.sf": lambda: a.xray.scattering_factors(energy=np.array([2.0, 8.0])),
                             "bound-sf": lambda: a.xray.scattering_factors(energy=np.array([2.0, 8.0]))}
                    want = {}
                    for k, fn in calls.items():
                        try:
                            with np.errstate(all="ignore"):
                                want[k] = fn()
                        except Exception:  # noqa  (no coefficient set for this ion: the direct call raises as well)
                            want[k] = None
                    for k, w in want.items():
                        g = row[k]
                        if w is None:
                            if not isinstance(g, str):
                                ctx.violation("c05:xproc:raises-directly", "%s of %r raises when asked directly but a pickled handle "
                                              "used in another interpreter (%s touched first) answers %r" % (k, s, first, g), dict(case, atom=s))
                                break
                            continue
                        w = [None if (x != x) else float(x) for x in np.asarray(w, float).reshape(-1)]
                        ok = isinstance(g, list) and len(g) == len(w) and all(
                            (x is None and y is None) or (x is not None and y is not None and abs(x - y) <= 1e-12 * max(abs(x), abs(y), 1e-300))
                            for x, y in zip(g, w))
                        if not ok:
                            ctx.violation("c05:xproc:%s:%s" % (k.split(".")[-1].split("-")[0], "ion" if s[2] else "atom"),
                                          "%s of %r pickled (protocol %d) in one interpreter and used in another (%s touched first "
                                          "there) gives %r; asked directly it gives %r" % (k, s, proto, first, g, w), dict(case, atom=s))
                            break
                    # independent of the library: the electron count at Q = 0
                    g0 = row["handle.f0"]
                    if isinstance(g0, list) and g0[0] is not None and abs(g0[0] - (a.number - s[2])) > 0.06:
                        ctx.violation("c05:xproc:f0-at-0", "f0(0) of %r through a pickled handle (%s touched first) is %r, Z - charge = %d"
                                      % (s, first, g0[0], a.number - s[2]), dict(case, atom=s))
    finally:
        import shutil
        shutil.rmtree(tmp, ignore_errors=True)


def tasks(tier):
    from .. import depth
    return _tasks(tier) + [("little-stack", depth.task, dict(prop=PROPERTY))]


def _tasks(tier):
    out = [("sweep-%d" % k, task_sweep, dict(shard=k, nshards=3)) for k in range(3)]
    if tier == "quick":
        out += [("factors-a", task_factors, dict(n=1750)),
                ("factors-b", task_factors, dict(n=1750)),
                ("factors-c", task_factors, dict(n=1750)),
                ("element-sld", task_element_sld, dict(n=2000)),
                ("f0", task_f0, dict(n=1500)),
                ("f0-generated", task_f0, dict(n=1500, sweep=False)),
                ("scan-atoms+plot", task_scans_and_plot, dict(n_atom=600, n_plot=120)),
                ("scan-compounds", task_scans, dict(n_atom=0, n_compound=250)),
                ("unusual", task_unusual, dict(n=400))]
        out += [("compounds-%d" % k, task_compounds, dict(n=334, depth=k % 3)) for k in range(3)]
        out.append(("routes", task_routes, dict(n=300)))
        out.append(("cross-interpreter-pickle", task_xproc, dict(protocols=(2,))))
        return [(nm, with_table_check(nm, fn), kw) for nm, fn, kw in out]
    for k in range(4):
        out.append(("factors-%d" % k, task_factors, dict(n=40000)))
    out.append(("element-sld-0", task_element_sld, dict(n=30000)))
    out.append(("element-sld-1", task_element_sld, dict(n=30000)))
    for k in range(5):
        out.append(("compounds-%d" % k, task_compounds, dict(n=3200, depth=k % 3)))
    out.append(("f0", task_f0, dict(n=50000)))
    out.append(("scans-0", task_scans, dict(n_atom=8000, n_compound=3000)))
    out.append(("scans-1", task_scans, dict(n_atom=8000, n_compound=3000)))
    out.append(("routes-0", task_routes, dict(n=5000)))
    out.append(("routes-1", task_routes, dict(n=5000)))
    out.append(("unusual-0", task_unusual, dict(n=6000)))
    out.append(("unusual-1", task_unusual, dict(n=6000)))
    out.append(("plot-0", task_plot, dict(n=3000)))
    out.append(("plot-1", task_plot, dict(n=3000)))
    out.append(("cross-interpreter-pickle", task_xproc, dict(protocols=(0, 2, 5))))
    return [(nm, with_table_check(nm, fn), kw) for nm, fn, kw in out]


def replay(ctx, case):
    if isinstance(case, dict) and case.get("kind") == "xproc":
        return task_xproc(ctx, protocols=(case.get("protocol", 2),))
    if isinstance(case, dict) and case.get("kind") == "little-stack":
        from .. import depth
        return depth.check(ctx, case)
    kind = case["kind"]
    if kind == "factors":
        check_factors(ctx, case["value"], case.get("strict_ends", False))
    elif kind == "element-sld":
        check_element_sld(ctx, case["value"])
    elif kind == "compound":
        check_compound(ctx, case["value"])
    elif kind == "f0":
        check_f0(ctx, case["value"])
    elif kind == "routes":
        check_routes(ctx, case["value"])
    elif kind == "plot":
        check_plot(ctx, case["value"])
    elif kind == "tables":
        check_tables_unchanged(ctx, "replay", symbols=[case["symbol"]] if case.get("symbol") else None)
    elif kind == "unusual":
        check_unusual(ctx, case["value"])
    elif kind == "scan-atom":
        check_scan_atom(ctx, case["value"])
    elif kind == "scan-compound":
        check_scan_compound(ctx, case["value"])
    elif kind == "grid":
        g, tab = grid(case["symbol"]), nff(case["symbol"])
        if len(g) != len(tab.Ek) or any(abs(a - b) > 4 * EPS * b for a, b in zip(g, tab.Ek)):
            raise Violation("c05:sftable:grid", "%s.xray.sftable[0] is not the energy column of the .nff file / 1000"
                            % case["symbol"], case)
    else:
        raise ValueError("unknown case kind %r" % kind)
