"""
C16 - D2O contrast matching agrees with direct substitution of labile hydrogen.

The generator draws a compound as a list of (atom, count) items (labile H[1],
plain H, D, atoms of every class that has neutron data), a density (absolute or
natural; tag, keyword, or the element's own), a D2O fraction, a volume fraction
and a wavelength/energy.  The oracle never calls Formula.replace: it builds the
substituted {atom: count} dictionary and the density at unchanged cell volume
from atom counts and masses, and asks periodictable.neutron_sld for the SLD of
*that* compound.  The same is done for the H2O/D2O solvent mixture.
"""
from .. import subtable
from fractions import Fraction
import math

from hypothesis import strategies as st

from ..runner import Violation
from ..fasta_guard_c16 import limit_memory, TableGuard, molecule_digest, digest_diff, CODE_TABLE_NAMES

PROPERTY = "C16"
RULE = ("compounds: Hypothesis draws a flat or one-level grouped item list over {H[1] (0..2 places), H, D, 0..5 other atoms "
        "with neutron data: elements, isotopes, ions, isotope ions, energy-dependent isotopes, T, H/D ions}, counts (integer "
        "or decimal), density (absolute / natural; '@' tag, keyword, Formula attribute, or the element's own), route (string, "
        "Formula object, dict), D2O fraction d and volume fraction v in [0,1] (0 and 1 included), wavelength/energy (default, "
        "scalar, vector). Oracle: generator substitutes H[1] -> (1-d) H + d D in the count dictionary, scales the density by the "
        "mass ratio (cell volume unchanged) and calls neutron_sld on formula(dict, density); solvent = {H:2(1-d), D:2d, O:1} at "
        "0.9982*M/M(H2O); D2O_sld(c,1,d) = direct, D2O_sld(c,0,d) = solvent, D2O_sld(c,v,d) = v*direct+(1-v)*solvent (real and "
        "imaginary); D2O_match(c) = (f, s): on the oracle's lines solute(f) = solvent(f) = s, f equals the oracle's intersection, "
        "and D2O_sld(c, v, f) real is s for v in 0, 0.3, 1. molecules: every entry of the fasta tables (99) on a 4x4 (v,d) grid, "
        "plus generated Molecule(formula, cell_volume | natural density | tag) and Sequence objects: .sld/.Dsld = direct real SLD "
        "of the H/D form at the cell volume, .D2Omatch = 100*f (oracle and nsf.D2O_match), .D2Osld = oracle mixture and "
        "nsf.D2O_sld real part, .mass/.Dmass; generated Molecules carry in 2 of 5 draws a heavy atom taken from every element "
        "or isotope whose neutron data has an energy-dependent table (selected by neutron.nsf_table, not by the flag); a Sequence is also handed to nsf.D2O_sld as '<type>:codes'. Private table: the same compound oracles with table=T, T a "
        "private PeriodicTable customised as in the guide (masses rescaled to H[1]=1, densities accordingly, nsf.init), compounds as "
        "strings, as Formula objects parsed with table=T and as dicts of T's atoms, reference values from T's own masses and "
        "neutron data, in drawn order with the same case on the public table; fixed public-table probes are compared exactly "
        "before the private table exists, every 20 cases and at the end. Histories: inside the "
        "molecules task (one process) a guard snapshots every fasta table molecule (object identities, formula structures, "
        "densities, cell_volume, charge, mass, Dmass, sld, Dsld, D2Omatch) and compares after every generated case, the table "
        "sweep runs at the start and at the end of the task, every generated object is built before and after its checks and "
        "must report identical values, and every third case is asked again 7 cases later. Non-trivial: >= 1 labile hydrogen and 0 < d < 1, or a compound containing D. "
        "Distinct by (rendered compound, density, route, d, v, wavelength).")
ASSUMPTIONS = [
    "atom masses, neutron scattering data and element densities served by the table are the specification (C06/C07); "
    "neutron_sld of a formula built from a dict with an explicit density is trusted (C03) - it is applied to the oracle's own "
    "substituted composition and density, never to a result of Formula.replace",
    "labile hydrogen is the neutral isotope written H[1]; ions of H[1] are not generated (the property does not say whether they are labile)",
    "compounds whose atoms all have neutron data and whose density is positive; empty compounds only through the fasta gap codes",
    "tolerance: rel 1e-10 plus 1e-12 * S, S = 10*sum(n_k*|b_k|)/V being the scale of the terms that cancel in the real SLD; "
    "match fraction f additionally (1+|f|)*S/|denominator| (conditioning of the linear equation); cases with "
    "|denominator| < 1e-7*S (solute line parallel to the solvent line, e.g. labile water at water density) are counted as "
    "inconclusive for the match clause only",
    "D2O_match with a vector wavelength is compared element-wise",
    "private table: the table= keyword is passed to D2O_sld/D2O_match for every form of compound (it also selects H[1], H, D and "
    "the solvent); the fasta classes are not run on it (they do not take a table)",
    "after a modification of a table entry is reported the guard puts the snapshot back, so that the following cases of the "
    "task are judged on intact tables; at most 2 modified entries are reported per task (bucket per table and key)",
]

_STATE = {}


def has_table(atom):
    """The atom's scattering length is interpolated from an energy-dependent table (whatever its flag says)."""
    n = atom.neutron
    return getattr(n, "nsf_table", None) is not None or bool(getattr(n, "is_energy_dependent", False))


def env():
    if not _STATE:
        import numpy as np
        import periodictable as pt
        from periodictable import nsf, fasta
        E = _STATE
        E["np"] = np
        E["pt"] = pt
        E["nsf"] = nsf
        E["fasta"] = fasta
        E["T"] = pt.elements
        E["NA"] = pt.constants.avogadro_number
        E["me"] = pt.constants.electron_mass
        T = pt.elements
        els, isos, ions, isoions, edep = [], [], [], [], []
        for el in T:
            if el.number <= 1 or not el.neutron.has_sld():
                pass
            else:
                els.append([el.symbol, 0, 0])
                for c in el.ions:
                    ions.append([el.symbol, 0, c])
            if el.number <= 1:
                continue
            for a in el.isotopes:
                if el[a].neutron.has_sld():
                    isos.append([el.symbol, a, 0])
                    if has_table(el[a]):
                        edep.append([el.symbol, a, 0])
                    if el.ions and len(isoions) < 400:
                        isoions.append([el.symbol, a, el.ions[(a + len(isoions)) % len(el.ions)]])
            if el.neutron.has_sld() and has_table(el):
                edep.append([el.symbol, 0, 0])
        E["els"], E["isos"], E["ions"], E["isoions"], E["edep"] = els, isos, ions, isoions, edep
        # hydrogen that is not labile by the property's wording
        E["hother"] = [["T", 0, 0], ["H", 3, 0], ["H", 0, 1], ["H", 0, -1], ["D", 0, 1], ["H", 2, 1]]
        E["dens_els"] = [s for s in els if T.symbol(s[0]).density is not None]
    return _STATE


def private_env():
    """A second environment on a private table customised as in doc/sphinx/guide/customizing.rst
    (masses rescaled to H[1] = 1, densities accordingly), so that any value taken from the wrong
    table shows in the numbers.  Everything the oracle needs is read from this table."""
    E = env()
    if "private" not in E:
        from periodictable import core, mass, density, nsf
        T = subtable.new("c16-H=1")
        mass.init(T)
        density.init(T)
        scale = E["T"].H[1].mass
        for el in T:
            el._mass /= scale
            if getattr(el, "_density", None) is not None:
                el._density /= scale
            for iso in el:
                iso._mass /= scale
        nsf.init(T)
        P = dict(E)
        P["T"] = T
        P["table_kw"] = {"table": T}
        P["which"] = "private"
        E["private"] = P
    return E["private"]


def env_of(case):
    return private_env() if case.get("table") == "private" else env()


# ----------------------------------------------------------------------
# specs: "L" labile H[1], otherwise [sym, iso, charge] with sym possibly D/T
def atom_of(E, spec):
    T = E["T"]
    if spec == "L":
        return T.H[1]
    s, a, c = spec
    atom = T.symbol(s)
    if a:
        atom = atom[a]
    if c:
        atom = atom.ion[c]
    return atom


def atom_text(spec, alt=False):
    if spec == "L":
        return "H[1]"
    s, a, c = spec
    if alt and s == "D" and not a:
        s, a = "H", 2
    t = s + ("[%d]" % a if a else "")
    if c:
        t += "{%s%s}" % ("" if abs(c) == 1 else abs(c), "+" if c > 0 else "-")
    return t


def render(items, group, alt=False):
    """items: [[spec, count_str|None], ...]; group: None | [start, length, mult_str]."""
    parts = []
    for k, (spec, cnt) in enumerate(items):
        t = atom_text(spec, alt) + (cnt if cnt is not None else "")
        if group and k == group[0]:
            t = "(" + t
        if group and k == group[0] + group[1] - 1:
            t = t + ")" + group[2]
        parts.append(t)
    return "".join(parts)


def composition(items, group):
    """[(spec, Fraction)] merged by spec, in first-occurrence order."""
    out, order = {}, []
    for k, (spec, cnt) in enumerate(items):
        n = Fraction(cnt) if cnt is not None else Fraction(1)
        if group and group[0] <= k < group[0] + group[1]:
            n *= Fraction(group[2])
        key = "L" if spec == "L" else tuple(canon(spec))
        if key not in out:
            out[key] = Fraction(0)
            order.append(key)
        out[key] += n
    return [(k, out[k]) for k in order]


def canon(spec):
    s, a, c = spec
    if s == "D" and not a:
        return ["H", 2, c]
    if s == "T" and not a:
        return ["H", 3, c]
    return [s, a, c]


def comp_atoms(E, comp):
    """[(atom object, float count)] for a merged composition."""
    return [(atom_of(E, k if k == "L" else list(k)), float(n)) for k, n in comp]


# ----------------------------------------------------------------------
# the oracle
def mass_of(pairs):
    return math.fsum(n * a.mass for a, n in pairs)


def natural_mass_of(E, pairs):
    T = E["T"]
    return math.fsum(n * (T[a.number].mass - a.charge * E["me"]) for a, n in pairs)


def substituted(E, pairs, d):
    """Count dictionary with H[1] -> (1-d) H + d D; returns (dict, mass)."""
    T = E["T"]
    L, H, D = T.H[1], T.H, T.D
    out = {}
    n1 = 0.0
    for a, n in pairs:
        if a is L:
            n1 += n
        else:
            out[a] = out.get(a, 0.0) + n
    if n1:
        if d != 1:
            out[H] = out.get(H, 0.0) + (1 - d) * n1
        if d != 0:
            out[D] = out.get(D, 0.0) + d * n1
    return out, math.fsum(n * a.mass for a, n in out.items())


def direct_sld(E, pairs, rho, d, kw):
    """(re, im) of the compound with a fraction d of H[1] replaced by D, the rest by H,
    at the cell volume that *pairs* has at density *rho*."""
    np = E["np"]
    m0 = mass_of(pairs)
    sub, m1 = substituted(E, pairs, d)
    if not sub or m0 == 0:
        return np.float64(0.0), np.float64(0.0)
    f = E["pt"].formula(sub, density=rho * m1 / m0)
    r = E["pt"].neutron_sld(f, **kw)
    return np.asarray(r[0], float), np.asarray(r[1], float)


def solvent_sld(E, d, kw):
    np = E["np"]
    T = E["T"]
    m_h2o = 2 * T.H.mass + T.O.mass
    comp = {T.O: 1.0}
    if d != 1:
        comp[T.H] = 2 * (1 - d)
    if d != 0:
        comp[T.D] = 2 * d
    m = math.fsum(n * a.mass for a, n in comp.items())
    f = E["pt"].formula(comp, density=0.9982 * m / m_h2o)
    r = E["pt"].neutron_sld(f, **kw)
    return np.asarray(r[0], float), np.asarray(r[1], float)


def scale_of(E, pairs, rho, kw):
    """S = 10 * sum n_k |b_k| / V : magnitude of the terms summed in the SLD (real, imaginary)."""
    np = E["np"]
    wl = wavelength_of(E, kw)
    m0 = mass_of(pairs)
    if m0 == 0 or rho == 0:
        return 0.0, 0.0
    V = m0 / rho / E["NA"] * 1e24
    sr = si = 0.0
    D = E["T"].D
    for a, n in pairs:
        bs = [a.neutron.scattering_by_wavelength(wl)[0]]
        if a is E["T"].H[1]:
            bs = [E["T"].H.neutron.scattering_by_wavelength(wl)[0], D.neutron.scattering_by_wavelength(wl)[0]]
        sr += n * max(float(np.max(np.abs(np.real(b)))) for b in bs)
        si += n * max(float(np.max(np.abs(np.imag(b)))) for b in bs)
    return 10 * sr / V, 10 * si / V


def wavelength_of(E, kw):
    np = E["np"]
    if kw.get("energy") is not None:
        return E["nsf"].neutron_wavelength(np.asarray(kw["energy"], float))
    if kw.get("wavelength") is not None:
        return np.asarray(kw["wavelength"], float)
    return E["nsf"].ABSORPTION_WAVELENGTH


def water_scale(E, kw):
    T = E["T"]
    pairs = [(T.H[1], 2.0), (T.O, 1.0)]
    rho = 0.9982 * mass_of(pairs) / (2 * T.H.mass + T.O.mass)
    return scale_of(E, pairs, rho, kw)


def differs(E, got, want, S, rel=1e-10, cond=1.0):
    """None if got ~ want else a description. Arrays are compared element-wise."""
    np = E["np"]
    try:
        g = np.asarray(got, float)
    except Exception:  # noqa
        return "not numeric: %r" % (got,)
    w = np.asarray(want, float)
    try:
        g, w = np.broadcast_arrays(g, w)
    except ValueError:
        return "shape %r, expected %r" % (g.shape, w.shape)
    tol = rel * np.maximum(np.abs(g), np.abs(w)) + 1e-12 * S * cond
    bad = ~(np.abs(g - w) <= tol)        # NaN counts as different
    if np.any(bad):
        k = int(np.argmax(bad.ravel()))
        return "%r, expected %r (tolerance %.3g)" % (float(g.ravel()[k]), float(w.ravel()[k]),
                                                       float(np.ravel(tol)[k] if np.ndim(tol) else tol))
    return None


# ----------------------------------------------------------------------
# strategies
def count_strategy():
    ints = st.integers(1, 40).map(str)
    decs = st.tuples(st.integers(0, 30), st.integers(1, 9999)).map(
        lambda t: ("%d.%04d" % t).rstrip("0"))
    return st.one_of(st.none(), ints, ints, st.sampled_from(["1", "2", "3", "0.5", "1.5", "0.25", "2.75", "0.3", "12"]), decs)


def other_atom(E):
    alts = [st.sampled_from(E["els"]), st.sampled_from(E["els"]), st.sampled_from(["C", "N", "O", "S", "P", "Na", "Si"]).map(lambda s: [s, 0, 0]),
            st.sampled_from(E["isos"]), st.sampled_from(E["ions"]), st.sampled_from(E["isoions"]),
            st.sampled_from(E["edep"]), st.sampled_from(E["hother"])]
    return st.one_of(*alts)


def density_strategy():
    val = st.one_of(st.sampled_from(["1", "1.29", "0.9982", "2.4", "0.07", "19.3"]),
                    st.tuples(st.integers(0, 22), st.integers(1, 9999)).map(lambda t: ("%d.%04d" % t).rstrip("0")))
    return st.tuples(st.sampled_from(["abs", "abs", "nat", "nat", "i"]), val).map(list)


ROUTES = ["tag", "tag", "kw", "kw", "obj-tag", "obj-kw", "obj-attr", "obj-override", "dict-kw"]


def wl_strategy():
    f = lambda lo, hi: st.floats(lo, hi, allow_nan=False, allow_infinity=False)
    return st.one_of(st.none(), st.none(),
                     f(0.2, 25).map(lambda x: ["wavelength", x]),
                     st.sampled_from([1.798, 4.75, 6.0, 0.5, 12.0]).map(lambda x: ["wavelength", x]),
                     st.lists(f(0.2, 25), min_size=1, max_size=4).map(lambda x: ["wavelength", x]),
                     f(0.1, 900).map(lambda x: ["energy", x]),
                     st.lists(f(0.1, 900), min_size=1, max_size=3).map(lambda x: ["energy", x]))


def fraction_strategy():
    """0 and 1 each ~12 %, the rest strictly inside (0, 1)."""
    mid = st.one_of(st.sampled_from([0.5, 0.7, 0.25, 0.1, 0.9, 0.3]), st.integers(1, 9999).map(lambda k: k / 10000.0),
                    st.floats(1e-6, 1 - 1e-6, allow_nan=False), st.floats(0, 1, allow_nan=False))
    return st.tuples(st.integers(0, 7), mid).map(lambda t: 0.0 if t[0] == 3 else 1.0 if t[0] == 4 else t[1])


def items_strategy(E, max_other=5, allow_t=True, heavy=False):
    cs = count_strategy()
    other = other_atom(E)
    if not allow_t:
        other = other.filter(lambda s: not (s[0] == "T" or (s[0] == "H" and s[1] == 3)))
    lab = st.lists(st.tuples(st.just("L"), cs), min_size=0, max_size=2)
    hh = st.lists(st.tuples(st.just(["H", 0, 0]), cs), min_size=0, max_size=1)
    dd = st.lists(st.tuples(st.just(["D", 0, 0]), cs), min_size=0, max_size=1)
    oo = st.lists(st.tuples(other, cs), min_size=0, max_size=max_other)
    if heavy:
        # a chelated heavy atom (Lu-, Yb-, Er-, Gd-DOTA ...): any atom with an energy-dependent table, in 2 of 5 draws
        hv = st.tuples(st.integers(0, 4), st.sampled_from(E["edep"]), st.sampled_from([None, "1", "2", "0.5"])).map(
            lambda t: [(t[1], t[2])] if t[0] in (1, 3) else [])
        oo = st.tuples(oo, hv).map(lambda t: t[0] + t[1])
    base = st.tuples(lab, hh, dd, oo).map(lambda t: [list(x) for part in t for x in part]).filter(lambda l: len(l) > 0)
    return base.flatmap(lambda l: st.permutations(l))


def group_strategy(n):
    if n < 1:
        return st.none()
    return st.one_of(st.none(), st.none(),
                     st.tuples(st.integers(0, n - 1), st.integers(1, n), st.sampled_from(["2", "3", "0.5", "10", "1", "1.5"])
                               ).map(lambda t: [t[0], min(t[1], n - t[0]), t[2]]))


def compound_strategy(E):
    def build(items):
        return st.tuples(st.just(items), group_strategy(len(items)), density_strategy(), st.sampled_from(ROUTES),
                         st.booleans()).map(
            lambda t: {"items": t[0], "group": t[1], "dens": t[2], "route": t[3], "alt": t[4]})
    multi = items_strategy(E).flatmap(build)
    # a single atom that takes the density of its element
    single = st.one_of(st.sampled_from(E["dens_els"]), st.just("L"), st.just(["D", 0, 0]), st.just(["H", 0, 0]),
                       st.sampled_from([s for s in E["isos"] if E["T"].symbol(s[0]).density is not None])
                       ).flatmap(lambda s: st.tuples(count_strategy(), st.sampled_from(["str", "obj"])).map(
                           lambda t: {"items": [[s, t[0]]], "group": None, "dens": ["element", None], "route": t[1], "alt": False}))
    # an explicit selector keeps the share of the (much simpler) single-atom branch at 10 %
    return st.tuples(st.integers(0, 9), multi, single).map(lambda t: t[2] if t[0] == 4 else t[1])


def case_strategy(E):
    return st.tuples(compound_strategy(E), fraction_strategy(), fraction_strategy(), wl_strategy(),
                     st.sampled_from(["pos", "kw", "omit"])).map(
        lambda t: {"kind": "compound", "c": t[0], "d": t[1], "v": t[2], "wl": t[3], "style": t[4]})


# ----------------------------------------------------------------------
def build_compound(E, c):
    """-> (argument for the library, extra keywords, pairs, actual density rho, rendered text)."""
    pt = E["pt"]
    tk = E.get("table_kw", {})
    items, group = c["items"], c["group"]
    text = render(items, group, c.get("alt", False))
    comp = composition(items, group)
    pairs = comp_atoms(E, comp)
    kind, val = c["dens"]
    m_act = mass_of(pairs)
    if kind == "element":
        (a, n), = pairs
        el = E["T"][a.number]
        rho = el.density * a.mass / el.mass
        arg = text if c["route"] == "str" else pt.formula(text, **tk)
        return arg, {}, pairs, rho, text
    v = float(val)
    natural = kind == "nat"
    rho = v * m_act / natural_mass_of(E, pairs) if natural else v
    R = c.get("long")
    if R:
        # a LONG compound: the same formula unit R times over, as one flat formula of (number of fragments x R)
        # top-level fragments (a polymer or a chain written out residue by residue).  Built as an object, either by
        # repeated += or from the long string; SLDs do not depend on R, the composition is R times the unit's.
        key = "natural_density" if natural else "density"
        unit = pt.formula(text, **tk)
        if c["route"] == "obj-iadd":
            g = pt.formula(text, **tk)
            for _ in range(R - 1):
                g += unit
        else:
            g = pt.formula("+".join([text] * R), **tk)
        return g, {key: v}, [(a, n * R) for a, n in pairs], rho, "%d x (%s)" % (R, text)
    tag = "@" + val + {"abs": "", "nat": "n", "i": "i"}[kind]
    key = "natural_density" if natural else "density"
    route = c["route"]
    if route == "tag":
        return text + tag, {}, pairs, rho, text + tag
    if route == "kw":
        return text, {key: v}, pairs, rho, text
    if route == "obj-tag":
        return pt.formula(text + tag, **tk), {}, pairs, rho, text + tag
    if route == "obj-kw":
        return pt.formula(text, **dict(tk, **{key: v})), {}, pairs, rho, text
    if route == "obj-attr":
        f = pt.formula(text, **tk)
        if natural:
            f.natural_density = v
        else:
            f.density = v
        return f, {}, pairs, rho, text
    if route == "obj-override":
        # the keyword replaces the density the object carries
        return pt.formula(text + "@3.21", **tk), {key: v}, pairs, rho, text
    if route == "dict-kw":
        return dict((a, n) for a, n in pairs), {key: v}, pairs, rho, text
    raise ValueError(route)


def lib_kw(E, wl):
    """keywords for the library: vectors are handed over as numpy arrays"""
    if wl is None:
        return {}
    v = wl[1]
    return {wl[0]: E["np"].asarray(v, float) if isinstance(v, list) else v}


def call_sld(E, arg, v, d, style, kw):
    f = E["nsf"].D2O_sld
    if style == "pos":
        return f(arg, v, d, **kw)
    if style == "omit":
        a = {}
        if v != 1:
            a["volume_fraction"] = v
        if d != 0:
            a["D2O_fraction"] = d
        return f(arg, **dict(a, **kw))
    return f(arg, D2O_fraction=d, volume_fraction=v, **kw)


def check_compound(ctx, case):
    """One compound on the table named by case['table'] (default: the public one)."""
    try:
        _check_compound(ctx, case)
    except Violation as v:
        if case.get("table") == "private":
            raise Violation(v.bucket + ":private-table", v.message, v.case)
        raise


def _check_compound(ctx, case):
    E = env_of(case)
    np = E["np"]
    which = case.get("table", "public")
    c, d, v, wl, style = case["c"], case["d"], case["v"], case["wl"], case["style"]
    arg, dkw, pairs, rho, text = build_compound(E, c)
    kw = dict(dkw, **lib_kw(E, wl))
    kw.update(E.get("table_kw", {}))
    okw = lib_kw(E, wl)
    L = E["T"].H[1]
    n_lab = sum(n for a, n in pairs if a is L)
    has_d = any(a is E["T"].D for a, n in pairs)
    has_h = any(a is E["T"].H for a, n in pairs)
    edep = any(has_table(a) for a, n in pairs)
    cls = ["labile:" + ("0" if not n_lab else "1" if n_lab == 1 else "n"), "route:" + c["route"], "density:" + c["dens"][0],
           "d:" + ("0" if d == 0 else "1" if d == 1 else "mid"), "v:" + ("0" if v == 0 else "1" if v == 1 else "mid"),
           "wl:" + ("default" if wl is None else wl[0] + (":vector" if isinstance(wl[1], list) else ":scalar")), "style:" + style,
           "table:" + which]
    if which == "private":
        cls.append("private:" + ("string" if isinstance(arg, str) else "dict" if isinstance(arg, dict) else "Formula")
                   + (":labile" if n_lab else ""))
    if has_d:
        cls.append("with-D")
    if has_h:
        cls.append("with-H")
    if edep:
        cls.append("energy-dependent" + (":wl" if wl is not None else ""))
    if c["group"]:
        cls.append("grouped")
    if c.get("long"):
        cls.append("long:%s:fragments>=%d" % (c["route"], 1000 * (len(getattr(arg, "structure", ())) // 1000)))
    for spec, _ in c["items"]:
        if spec != "L":
            cls.append("atom:" + ("H-other" if canon(spec)[0] == "H" and (canon(spec)[1] == 3 or spec[2]) else
                                  "isotope-ion" if spec[1] and spec[2] else "isotope" if spec[1] else "ion" if spec[2] else "element"))
    nontrivial = bool((n_lab and 0 < d < 1) or has_d)
    ctx.case((which, text, c["dens"], c["route"], d, v, wl, style), nontrivial=nontrivial,
             sample={"table": which, "compound": text, "density": c["dens"], "route": c["route"], "d": d, "v": v, "wl": wl},
             cls=sorted(set(cls)))

    Sr, Si = scale_of(E, pairs, rho, okw)
    Wr, Wi = water_scale(E, okw)
    direct = direct_sld(E, pairs, rho, d, okw)
    solvent = solvent_sld(E, d, okw)
    where = "%s density=%r route=%s d=%r v=%r %r%s" % (text, c["dens"], c["route"], d, v, wl,
                                                        " table=<private, H[1]=1>" if which == "private" else "")

    # A. volume fraction 1: direct substitution
    got = call_sld(E, arg, 1.0, d, style, kw)
    for k, nm, S in ((0, "real", Sr), (1, "imag", Si)):
        bad = differs(E, got[k], direct[k], S)
        if bad:
            sub = "labile" if n_lab else "no-labile"
            raise Violation("c16:direct:%s:%s" % (nm, sub),
                            "D2O_sld(%s)[%d] at volume fraction 1 is %s" % (where, k, bad), case)
    # B. volume fraction 0: the solvent mixture
    got0 = call_sld(E, arg, 0.0, d, style, kw)
    for k, nm, S in ((0, "real", Wr), (1, "imag", Wi)):
        bad = differs(E, got0[k], solvent[k], S)
        if bad:
            raise Violation("c16:solvent:%s" % nm,
                            "D2O_sld(%s)[%d] at volume fraction 0 is %s" % (where, k, bad), case)
    # C. in between: linear in the volume fraction
    if 0 < v < 1:
        gotv = call_sld(E, arg, v, d, style, kw)
        for k, nm, S in ((0, "real", Sr + Wr), (1, "imag", Si + Wi)):
            want = v * direct[k] + (1 - v) * solvent[k]
            bad = differs(E, gotv[k], want, S)
            if bad:
                raise Violation("c16:mixing:%s" % nm, "D2O_sld(%s)[%d] is %s" % (where, k, bad), case)
            # three-point form on the library's own values
            want3 = v * np.asarray(got[k], float) + (1 - v) * np.asarray(got0[k], float)
            bad = differs(E, gotv[k], want3, S)
            if bad:
                raise Violation("c16:mixing:%s" % nm, "D2O_sld(%s)[%d] is not linear in volume fraction: %s" % (where, k, bad), case)
    check_match(ctx, case, E, arg, kw, okw, pairs, rho, where, Sr + Wr)

    # The caller's Formula object is extended in place (formula += other; its density attribute keeps its value)
    # and asked again: the answer is that of the NEW composition at that density.
    if not isinstance(arg, (str, dict)) and not dkw and c["dens"][0] != "element" and not c.get("long") \
            and getattr(arg, "density", None) is not None:
        T = E["T"]
        extra = E["pt"].formula("H[1]2OC", **E.get("table_kw", {}))
        rho_obj = arg.density
        arg += extra
        if arg.density != rho_obj:
            arg.density = rho_obj
        merged = dict((id(a), [a, n]) for a, n in pairs)
        for a, n in ((T.H[1], 2), (T.O, 1), (T.C, 1)):
            if id(a) in merged:
                merged[id(a)][1] += n
            else:
                merged[id(a)] = [a, n]
        pairs2 = [(a, n) for a, n in merged.values()]
        direct2 = direct_sld(E, pairs2, rho_obj, d, okw)
        Sr2, Si2 = scale_of(E, pairs2, rho_obj, okw)
        got2 = call_sld(E, arg, 1.0, d, style, kw)
        ctx.count("object-extended-in-place")
        for k, nm, S in ((0, "real", Sr2), (1, "imag", Si2)):
            bad = differs(E, got2[k], direct2[k], S)
            if bad:
                raise Violation("c16:direct:%s:after-iadd" % nm,
                                "D2O_sld(%s)[%d] at volume fraction 1, asked again after the Formula object was extended in "
                                "place by H[1]2OC (density attribute still %r), is %s" % (where, k, rho_obj, bad), case)
        check_match(ctx, case, E, arg, kw, okw, pairs2, rho_obj, where + " += H[1]2OC", Sr2 + Wr)


def oracle_lines(E, pairs, rho, okw):
    Hs = direct_sld(E, pairs, rho, 0.0, okw)[0]
    Ds = direct_sld(E, pairs, rho, 1.0, okw)[0]
    W0 = solvent_sld(E, 0.0, okw)[0]
    W1 = solvent_sld(E, 1.0, okw)[0]
    return Hs, Ds, W0, W1


def check_match(ctx, case, E, arg, kw, okw, pairs, rho, where, S):
    np = E["np"]
    Hs, Ds, W0, W1 = oracle_lines(E, pairs, rho, okw)
    den = Ds - Hs + W0 - W1
    if np.any(np.abs(den) < 1e-7 * S):
        ctx.inconclusive += 1
        ctx.count("match:degenerate")
        return
    f_or = (W0 - Hs) / den
    ret = E["nsf"].D2O_match(arg, **kw)
    try:
        f, s = ret
        f = np.asarray(f, float)
        s = np.asarray(s, float)
    except Exception:  # noqa
        raise Violation("c16:match:shape", "D2O_match(%s) returned %r" % (where, ret), case)
    fmax = float(np.max(np.abs(f_or)))
    ctx.count("match:" + ("inside" if np.all((f_or >= 0) & (f_or <= 1)) else "outside"))
    cond = float(np.max((1 + np.abs(f_or)) * (1 + S / np.abs(den))))
    bad = differs(E, f, f_or, 1.0, cond=float(np.max((1 + np.abs(f_or)) * S / np.abs(den))))
    if bad:
        raise Violation("c16:match:fraction", "D2O_match(%s) fraction is %s" % (where, bad), case)
    # the definition, on the oracle's own lines, with the returned fraction
    if not np.all(np.isfinite(f)):
        raise Violation("c16:match:fraction", "D2O_match(%s) fraction is %r" % (where, f), case)
    solute = Hs + f * (Ds - Hs)
    solv = W0 + f * (W1 - W0)
    for nm, want in (("solute", solute), ("solvent", solv)):
        bad = differs(E, s, want, S, cond=cond)
        if bad:
            raise Violation("c16:match:sld", "D2O_match(%s) SLD vs the %s line at the returned fraction %r: %s"
                            % (where, nm, f.tolist(), bad), case)
    # the definition through the API: same real SLD at every volume fraction
    if fmax < 1e6:
        for v in (0.0, 0.3, 1.0):
            g = E["nsf"].D2O_sld(arg, v, f if f.ndim else float(f), **kw)[0]
            bad = differs(E, g, s, S, cond=cond)
            if bad:
                raise Violation("c16:match:definition", "D2O_sld(%s, volume_fraction=%r, D2O_fraction=match)[0] is %s"
                                % (where, v, bad), case)


# ----------------------------------------------------------------------
# biomolecule classes
GRID_V = [0.0, 0.3, 0.65, 1.0]
GRID_D = [0.0, 0.25, 0.7, 1.0]


def table_molecules(E):
    fa = E["fasta"]
    out = []
    for tname in ("AMINO_ACID_CODES", "NUCLEIC_ACID_COMPONENTS", "CARBOHYDRATE_RESIDUES", "LIPIDS",
                  "RNA_BASES", "DNA_BASES", "RNA_CODES", "DNA_CODES"):
        tab = getattr(fa, tname)
        for k in sorted(tab):
            out.append((tname, k, tab[k]))
    return out


def molecule_checks(ctx, E, m, pairs, V, label, case, grid, extra_cls=()):
    """*pairs*: labile composition, *V*: cell volume; everything else is derived here."""
    np = E["np"]
    L = E["T"].H[1]
    n_lab = sum(n for a, n in pairs if a is L)
    has_d = any(a is E["T"].D for a, n in pairs)
    m_lab = mass_of(pairs)
    rho = 1e24 * m_lab / E["NA"] / V if V > 0 else 0.0
    Hs = direct_sld(E, pairs, rho, 0.0, {})[0]
    Ds = direct_sld(E, pairs, rho, 1.0, {})[0]
    W0 = solvent_sld(E, 0.0, {})[0]
    W1 = solvent_sld(E, 1.0, {})[0]
    Sm = scale_of(E, pairs, rho, {})[0]
    Sw = water_scale(E, {})[0]
    S = Sm + Sw
    for nm, got, want in (("sld", m.sld, Hs), ("Dsld", m.Dsld, Ds)):
        bad = differs(E, got, want, Sm)
        if bad:
            raise Violation("c16:molecule:%s" % nm, "%s.%s is %s" % (label, nm, bad), case)
    subH, mH = substituted(E, pairs, 0.0)
    subD, mD = substituted(E, pairs, 1.0)
    for nm, got, want in (("mass", m.mass, mH), ("Dmass", m.Dmass, mD)):
        bad = differs(E, got, want, 0.0)
        if bad:
            raise Violation("c16:molecule:%s" % nm, "%s.%s is %s" % (label, nm, bad), case)
    den = Ds - Hs + W0 - W1
    degenerate = abs(den) < 1e-7 * S
    if degenerate:
        ctx.inconclusive += 1
        ctx.count("match:degenerate")
    else:
        f_or = (W0 - Hs) / den
        cond = float((1 + abs(f_or)) * (1 + S / abs(den)))
        cond_f = float((1 + abs(f_or)) * S / abs(den))
        bad = differs(E, m.D2Omatch, 100 * f_or, 100.0, cond=cond_f)
        if bad:
            raise Violation("c16:molecule:D2Omatch", "%s.D2Omatch is %s" % (label, bad), case)
        f_nsf = E["nsf"].D2O_match(m.labile_formula)
        bad = differs(E, m.D2Omatch, 100 * f_nsf[0], 100.0, cond=cond_f)
        if bad:
            raise Violation("c16:molecule:D2Omatch-vs-nsf", "%s.D2Omatch is %s (100*nsf.D2O_match(labile_formula)[0])" % (label, bad), case)
        # the match point through the molecule's own method
        f = m.D2Omatch / 100.0
        vals = [m.D2Osld(v, f) for v in (0.0, 0.3, 1.0)]
        for v, g in zip((0.0, 0.3, 1.0), vals):
            bad = differs(E, g, f_nsf[1], S, cond=cond)
            if bad:
                raise Violation("c16:molecule:match-definition", "%s.D2Osld(%r, D2Omatch/100) is %s (SLD at the match point)"
                                % (label, v, bad), case)
    for v, d in grid:
        nontrivial = bool((n_lab and 0 < d < 1) or has_d)
        ctx.case((label, v, d), nontrivial=nontrivial, sample={"molecule": label, "v": v, "d": d},
                 cls=list(extra_cls) + ["labile:" + ("0" if not n_lab else "n"), "d:" + ("0" if d == 0 else "1" if d == 1 else "mid"),
                                        "v:" + ("0" if v == 0 else "1" if v == 1 else "mid")] + (["with-D"] if has_d else []))
        dr = direct_sld(E, pairs, rho, d, {})[0]
        sv = solvent_sld(E, d, {})[0]
        want = v * dr + (1 - v) * sv
        for style, got in (("pos", m.D2Osld(v, d)), ("kw", m.D2Osld(D2O_fraction=d, volume_fraction=v))):
            bad = differs(E, got, want, S)
            if bad:
                raise Violation("c16:molecule:D2Osld", "%s.D2Osld(volume_fraction=%r, D2O_fraction=%r) is %s" % (label, v, d, bad), case)
        g2 = E["nsf"].D2O_sld(m.labile_formula, v, d)[0]
        bad = differs(E, m.D2Osld(v, d), g2, S)
        if bad:
            raise Violation("c16:molecule:D2Osld-vs-nsf", "%s.D2Osld(%r, %r) is %s (nsf.D2O_sld of labile_formula)" % (label, v, d, bad), case)
    if V > 0:
        dflt = m.D2Osld()
        bad = differs(E, dflt, Hs, S)
        if bad:
            raise Violation("c16:molecule:D2Osld-defaults", "%s.D2Osld() is %s (H form, no solvent)" % (label, bad), case)


def check_table_molecule(ctx, case):
    E = env()
    fa = E["fasta"]
    m = getattr(fa, case["table"])[case["key"]]
    pairs = [(a, float(n)) for a, n in m.labile_formula.atoms.items()]
    grid = [(v, d) for v in GRID_V for d in GRID_D]
    if "grid" in case:
        grid = [tuple(x) for x in case["grid"]]
    molecule_checks(ctx, E, m, pairs, float(m.cell_volume), "fasta.%s[%r]" % (case["table"], case["key"]), case, grid,
                    ["table:" + case["table"]])


def task_tables(ctx):
    limit_memory()
    E = env()
    guard = TableGuard(E["fasta"], "c16")
    n = sweep_tables(ctx, E)
    guard.verify(ctx, [{"kind": "table-sweep"}], "during the sweep of the fasta tables")
    ctx.extra["table_molecules"] = n


def molecule_strategy(E):
    vol = st.one_of(st.sampled_from(["91.5", "66.4", "1089", "27"]),
                    st.tuples(st.integers(5, 3000), st.integers(0, 99)).map(lambda t: "%d.%02d" % t))
    dens = st.tuples(st.integers(0, 5), st.integers(1, 9999)).map(lambda t: ("%d.%04d" % t).rstrip("0"))
    how = st.one_of(vol.map(lambda x: ["cell_volume", x]), dens.map(lambda x: ["density", x]),
                    dens.map(lambda x: ["tag", x]), dens.map(lambda x: ["tagn", x]))
    mol = st.tuples(items_strategy(E, max_other=4, allow_t=False, heavy=True), how, st.sampled_from(["str", "dict", "formula"]),
                    st.integers(-3, 3), st.booleans()).flatmap(
        lambda t: group_strategy(len(t[0])).map(
            lambda g: {"kind": "molecule", "items": t[0], "group": g, "how": t[1], "form": t[2], "charge": t[3], "alt": t[4]}))
    seq = st.sampled_from(["aa", "dna", "rna"]).flatmap(
        lambda t: st.text(alphabet=SEQ_ALPHABET[t], min_size=0, max_size=60).map(
            lambda s: {"kind": "sequence", "type": t, "seq": s}))
    fr = fraction_strategy()
    return st.tuples(st.one_of(mol, mol, seq), st.lists(st.tuples(fr, fr).map(list), min_size=1, max_size=3)).map(
        lambda t: dict(t[0], grid=t[1]))


SEQ_ALPHABET = {"aa": "ACDEFGHIKLMNPQRSTVWYBJZX-", "dna": "ACGTURYKMSWBDHVNX-", "rna": "ACGTURYKMSWBDHVNX-"}


def construct(E, case):
    """Build the Molecule/Sequence of a generated case -> (object, pairs or None, V or None, label, classes)."""
    fa, pt = E["fasta"], E["pt"]
    if case["kind"] == "sequence":
        m = fa.Sequence("generated", case["seq"], type=case["type"])
        return m, None, None, "Sequence(%r, type=%r)" % (case["seq"], case["type"]), ["class:Sequence:" + case["type"]]
    items, group = case["items"], case["group"]
    text = render(items, group, case.get("alt", False))
    comp = composition(items, group)
    pairs = comp_atoms(E, comp)
    m_lab = mass_of(pairs)
    how, val = case["how"]
    x = float(val)
    kw = {}
    arg_text = text
    if how == "cell_volume":
        V = x
        kw["cell_volume"] = x
    elif how == "density":           # documented as the natural density
        V = 1e24 * natural_mass_of(E, pairs) / E["NA"] / x
        kw["density"] = x
    elif how == "tag":
        V = 1e24 * m_lab / E["NA"] / x
        arg_text = text + "@" + val
    else:
        V = 1e24 * natural_mass_of(E, pairs) / E["NA"] / x
        arg_text = text + "@" + val + "n"
    form = case["form"]
    if how in ("tag", "tagn") and form == "dict":
        form = "str"
    if form == "str":
        arg = arg_text
    elif form == "formula":
        arg = pt.formula(arg_text)
    else:
        arg = dict((a, n) for a, n in pairs)
    label = "Molecule(%r as %s, %s=%s, charge=%d)" % (arg_text, form, how, val, case["charge"])
    m = fa.Molecule("generated", arg, charge=case["charge"], **kw)
    cls = ["class:Molecule:" + how, "form:" + form]
    tabled = [a for a, n in pairs if has_table(a)]
    if tabled:
        cls.append("molecule:energy-table:" + how)
        if any(not a.neutron.is_energy_dependent for a in tabled):
            cls.append("molecule:energy-table:not-flagged:" + how)
    return m, pairs, V, label, cls


def check_generated_molecule(ctx, case):
    E = env()
    grid = [tuple(x) for x in case["grid"]]
    m, pairs, V, label, cls = construct(E, case)
    if case["kind"] == "sequence":
        pairs = [(a, float(n)) for a, n in m.labile_formula.atoms.items()]
        V = float(m.cell_volume)
        molecule_checks(ctx, E, m, pairs, V, label, case, grid, cls)
        # the same chain written as a formula prefix, handed to nsf as a compound
        text = "%s:%s" % (case["type"], case["seq"])
        rho = 1e24 * mass_of(pairs) / E["NA"] / V if V > 0 else 0.0
        S = scale_of(E, pairs, rho, {})[0] + water_scale(E, {})[0]
        for v, d in grid:
            got = E["nsf"].D2O_sld(text, v, d)[0]
            bad = differs(E, got, m.D2Osld(v, d), S)
            if bad:
                raise Violation("c16:prefix:D2O_sld", "nsf.D2O_sld(%r, %r, %r)[0] is %s (D2Osld of the Sequence)" % (text, v, d, bad), case)
        tab = getattr(E["fasta"], CODE_TABLE_NAMES[case["type"]])
        for k in sorted(tab):
            for f in ("labile_formula", "natural_formula"):
                if getattr(m, f) is getattr(tab[k], f):
                    raise Violation("c16:shares-table-formula", "%s.%s is the %s object of the table entry %r"
                                    % (label, f, f, k), case)
        return
    bad = differs(E, m.cell_volume, V, 0.0)
    if bad:
        raise Violation("c16:molecule:cell_volume", "%s.cell_volume is %s" % (label, bad), case)
    if m.charge != case["charge"]:
        raise Violation("c16:molecule:charge", "%s.charge is %r" % (label, m.charge), case)
    molecule_checks(ctx, E, m, pairs, V, label, case, grid, cls)


# ----------------------------------------------------------------------
# sequences of calls in one process: the shared tables stay as they are, the same question gets the same answer
SWEEP_GRID = [[1.0, 0.7], [0.3, 0.25]]
REPEAT_AFTER = 7          # a remembered case is asked again this many cases later


class Session(object):
    def __init__(self, E):
        self.E = E
        self.guard = TableGuard(E["fasta"], "c16")
        self.recent = []          # the last cases, oldest first
        self.remembered = []      # [age, case, digest, cases since]
        self.n = 0


def label_of(case):
    if case.get("kind") == "sequence":
        return "Sequence(%r, type=%r)" % (case["seq"], case["type"])
    return "generated %s" % case.get("kind")


def shrink_sequence(S, case, fails):
    """Greedy deletion of codes from a sequence case while *fails(case)* stays true (tables are put back before each try)."""
    if case.get("kind") != "sequence":
        return case
    best = dict(case, grid=[[1.0, 0.5]])
    S.guard.restore()
    if not fails(best):
        return case
    progress = True
    while progress and len(best["seq"]) > 1:
        progress = False
        for k in range(len(best["seq"])):
            trial = dict(best, seq=best["seq"][:k] + best["seq"][k + 1:])
            S.guard.restore()
            try:
                ok = fails(trial)
            except Exception:  # noqa
                ok = False
            if ok:
                best, progress = trial, True
                break
    S.guard.restore()
    return best


def repeat_fails(E):
    return lambda c: bool(digest_diff(molecule_digest(construct(E, c)[0]), molecule_digest(construct(E, c)[0])))


def modifies_tables(E, S):
    def f(c):
        construct(E, c)
        return bool(S.guard.diff())
    return f


def verify_tables(ctx, S, case):
    """Guard check after a generated case; a sequence that modified a table entry is reduced before it is saved."""
    E = S.E
    changes = S.guard.diff()
    if changes and case.get("kind") == "sequence":
        if any("c16:table-modified:%s:%s" % (t, k) not in ctx.found for t, k, _, _, _ in changes):
            small = shrink_sequence(S, case, modifies_tables(E, S))
            construct(E, small)
            if S.guard.diff():
                case = small
            else:
                S.guard.restore()
                construct(E, case)
    S.guard.verify(ctx, [case], "while %s was built and evaluated" % label_of(case))


def run_call(ctx, S, case):
    """One generated case inside a session (the function Hypothesis drives)."""
    E = S.E
    kind = case.get("kind")
    if kind == "table-sweep":
        try:
            sweep_tables(ctx, E, case.get("grid"))
        finally:
            S.guard.verify(ctx, [case], "during the sweep of the fasta tables")
        return
    if kind == "table-molecule":
        try:
            check_table_molecule(ctx, case)
        finally:
            S.guard.verify(ctx, [case], "while the table molecule was evaluated")
        return
    if kind == "compound":
        try:
            check_compound(ctx, case)
        finally:
            S.guard.verify(ctx, [case], "while the compound was evaluated")
        return
    S.n += 1
    S.recent = (S.recent + [case])[-8:]
    for r in S.remembered:
        r[3].append(case)
    try:
        first = molecule_digest(construct(E, case)[0])
        check_generated_molecule(ctx, case)
        again = molecule_digest(construct(E, case)[0])
        bad = digest_diff(first, again)
        if bad:
            ctx.count("repeat-differs")
            if not ctx.skip_bucket("c16:repeat-differs"):
                verify_tables(ctx, S, case)
                small = shrink_sequence(S, case, repeat_fails(E))
                bad = digest_diff(molecule_digest(construct(E, small)[0]), molecule_digest(construct(E, small)[0])) or bad
                ctx.violation("c16:repeat-differs", "%s built twice in a row in one process reports different values: %s"
                              % (label_of(small), bad), {"kind": "history", "calls": [small]})
        # the same question some cases later
        for r in list(S.remembered):
            r[0] += 1
            if r[0] >= REPEAT_AFTER:
                S.remembered.remove(r)
                later = molecule_digest(construct(E, r[1])[0])
                ctx.count("repeated-later")
                bad = digest_diff(r[2], later)
                if bad:
                    ctx.count("repeat-differs")
                    ctx.violation("c16:repeat-differs", "%s reports different values %d cases later in the same process: %s"
                                  % (label_of(r[1]), r[0], bad), {"kind": "history", "calls": [r[1]] + r[3][:-1]})
        if S.n % 3 == 0 and len(S.remembered) < 4:
            S.remembered.append([0, case, first, []])
    finally:
        verify_tables(ctx, S, case)


def check_history(ctx, case):
    """Replay of a saved sequence of calls on a fresh process; the first call is asked again at the end."""
    E = env()
    S = Session(E)
    calls = case["calls"]
    first = None
    if calls and calls[0].get("kind") in ("sequence", "molecule"):
        first = molecule_digest(construct(E, calls[0])[0])
        S.guard.verify(ctx, calls[:1], "while %s was built" % label_of(calls[0]))
    for c in calls:
        run_call(ctx, S, c)
    if first is not None:
        bad = digest_diff(first, molecule_digest(construct(E, calls[0])[0]))
        if bad:
            ctx.violation("c16:repeat-differs", "%s reports different values after %d further calls: %s"
                          % (label_of(calls[0]), len(calls), bad), case)
        S.guard.verify(ctx, calls, "by the end of the history")


def sweep_tables(ctx, E, grid=None):
    n = 0
    for tname, key, m in table_molecules(E):
        n += 1
        c = {"kind": "table-molecule", "table": tname, "key": key}
        if grid:
            c["grid"] = grid
        ctx.check(check_table_molecule, c)
    return n


def long_strategy(E):
    def lengthen(t):
        case, total, route = t
        c = dict(case["c"])
        if c["dens"][0] == "element":
            return case
        nfrag = max(1, len(c["items"]) if not c["group"] else 1)
        c["long"] = max(2, total // nfrag + 1)
        c["route"] = route
        return dict(case, c=c, wl=None if isinstance(case["wl"], (list, tuple)) and isinstance(case["wl"][1], list) else case["wl"])
    return st.tuples(case_strategy(E), st.sampled_from([1000, 1024, 1100, 1500, 2100, 4100]),
                     st.sampled_from(["obj-iadd", "obj-iadd", "obj-str"])).map(lengthen)


def task_long(ctx, n):
    limit_memory()
    E = env()
    ctx.search("long-compounds", long_strategy(E), check_compound, n)


def task_compounds(ctx, n):
    limit_memory()
    E = env()
    ctx.search("compounds", case_strategy(E), check_compound, n)


# ----------------------------------------------------------------------
# the documented table= keyword: the same oracles on a private, customised table, and the public table afterwards
PUBLIC_PROBES = [["C3H4H[1]NO@1.29n", 0.4, 0.7, 2.5], ["D2O@1.1", 0.5, 0.3, 1.798], ["Gd2H[1]3@5", 1.0, 0.6, 0.7],
                 ["H[1]", 0.2, 0.9, 4.75]]
ORDERS = [["private", "public"], ["public", "private"], ["private"], ["private", "private"]]


def public_digest(E):
    """Results of fixed public-table calls and a few table values (compared exactly)."""
    nsf, np = E["nsf"], E["np"]
    out = []
    for text, v, d, wl in PUBLIC_PROBES:
        r = nsf.D2O_sld(text, v, d, wavelength=wl)
        m = nsf.D2O_match(text, wavelength=wl)
        out.append([float(x) for x in np.ravel(r[0]).tolist() + np.ravel(r[1]).tolist() + [m[0], m[1]]])
    T = E["T"]
    out.append([T.H[1].mass, T.H.mass, T.D.mass, T.O.mass, T.C.density, T.H[1].neutron.b_c, T.Gd.neutron.b_c])
    return out


def check_tables_case(ctx, case):
    for which in case["tables"]:
        check_compound(ctx, dict(case, kind="compound", table=which))


def check_private_history(ctx, case):
    """Replay: public probes, then the calls (private and public table), then the public probes again."""
    E = env()
    before = public_digest(E)
    for c in case["calls"]:
        check_tables_case(ctx, c)
    after = public_digest(E)
    if after != before:
        raise Violation("c16:public-changed-after-private", "public-table results changed after %d calls with table=<private>: %r -> %r"
                        % (len(case["calls"]), before, after), case)


def task_private(ctx, n):
    limit_memory()
    E = env()
    before = public_digest(E)          # before the private table exists
    state = {"calls": [], "n": 0, "reported": False}

    def fn(c, v):
        state["n"] += 1
        state["calls"] = (state["calls"] + [v])[-20:]
        try:
            check_tables_case(c, v)
        finally:
            if state["n"] % 20 == 0 and not state["reported"]:
                after = public_digest(E)
                if after != before:
                    state["reported"] = True
                    c.violation("c16:public-changed-after-private",
                                "public-table results changed after calls with table=<private>: %r -> %r" % (before, after),
                                {"kind": "private-history", "calls": list(state["calls"])})
    strat = st.tuples(case_strategy(E), st.sampled_from(ORDERS)).map(lambda t: dict(t[0], kind="tables", tables=t[1]))
    ctx.search("private", strat, fn, n)
    after = public_digest(E)
    if after != before and not state["reported"]:
        ctx.violation("c16:public-changed-after-private",
                      "public-table results changed by the end of the task: %r -> %r" % (before, after),
                      {"kind": "private-history", "calls": list(state["calls"])})


def task_molecules(ctx, n):
    limit_memory()
    E = env()
    S = Session(E)
    # the table molecules at the start, after every generated case (guard), and again at the end
    sweep_tables(ctx, E, SWEEP_GRID)
    S.guard.verify(ctx, [{"kind": "table-sweep", "grid": SWEEP_GRID}], "during the sweep of the fasta tables")
    ctx.search("molecules", molecule_strategy(E), lambda c, v: run_call(c, S, v), n)
    S.guard.verify(ctx, S.recent, "by the end of the task")
    sweep_tables(ctx, E, SWEEP_GRID)
    ctx.extra["table_guard_checks"] = S.guard.checks


def tasks(tier):
    from .. import depth
    return _tasks(tier) + [("little-stack", depth.task, dict(prop=PROPERTY))]


def _tasks(tier):
    if tier == "quick":
        return [("tables", task_tables, {}),
                ("long", task_long, dict(n=60)),
                ("compounds-a", task_compounds, dict(n=270)),
                ("compounds-b", task_compounds, dict(n=270)),
                ("compounds-c", task_compounds, dict(n=270)),
                ("compounds-d", task_compounds, dict(n=270)),
                ("private-a", task_private, dict(n=200)),
                ("private-b", task_private, dict(n=200)),
                ("private-c", task_private, dict(n=200)),
                ("molecules-a", task_molecules, dict(n=200)),
                ("molecules-b", task_molecules, dict(n=200))]
    out = [("tables", task_tables, {}), ("long-0", task_long, dict(n=600)), ("long-1", task_long, dict(n=600))]
    for k in range(9):
        out.append(("compounds-%d" % k, task_compounds, dict(n=10000)))
    for k in range(3):
        out.append(("private-%d" % k, task_private, dict(n=6000)))
    for k in range(3):
        out.append(("molecules-%d" % k, task_molecules, dict(n=10000)))
    return out


def replay(ctx, case):
    if isinstance(case, dict) and case.get("kind") == "little-stack":
        from .. import depth
        return depth.check(ctx, case)
    k = case["kind"]
    if k == "compound":
        check_compound(ctx, case)
    elif k == "tables":
        check_tables_case(ctx, case)
    elif k == "private-history":
        check_private_history(ctx, case)
    elif k == "table-molecule":
        check_table_molecule(ctx, case)
    elif k == "history":
        check_history(ctx, case)
    elif k == "table-sweep":
        check_history(ctx, {"kind": "history", "calls": [case]})
    else:
        check_generated_molecule(ctx, case)
