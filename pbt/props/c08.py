"""
C08 - atoms are unique per table and every lookup route returns the same object.

Three parts:

* sweep-*    exhaustive: every element, isotope, element ion and isotope ion of
             the public table and of two private tables, through every lookup
             route, pickle (all protocols), copy, deepcopy, containers,
             change_table to another table and back; iteration order.
* invalid-*  exhaustive: every invalid neighbour of the valid keys must raise
             and must leave the valid lookups untouched.
* machine-*  Hypothesis lists of operations (lookups by every route, pickling,
             copying, add_isotope of existing numbers, change_table, lazy
             loading / private-table initialisation, invalid lookups), each
             list executed in a process forked from a pristine interpreter so
             that every identity cache starts empty; a registry (the model)
             remembers the first object seen for every (table, Z, A, charge)
             and every later sighting must be that object.

The Z <-> symbol mapping used as key comes from the list below, not from the
table under test.
"""
from .. import subtable
import copy
import json
import os
import pickle
import traceback

from hypothesis import strategies as st

from ..runner import Violation, lib_frame

PROPERTY = "C08"
RULE = ("sweep: every element (119), isotope, element ion and isotope ion of the public table (before and after all "
        "lazy groups are loaded), of a private table with mass+density and of a private table with every loader run, "
        "plus a bare private table (only D and T); for each object every route of the statement (table[Z], symbol(), "
        "name(), isotope(), getattr(table, sym), module attribute, element[A], isotope('A-Sym'), add_isotope(A), "
        "position in iteration, .ion[c] twice, pickle protocols 0-5, copy, deepcopy, dict/list containers, "
        "change_table to a second table and back) must return the one object, whose number/symbol/name/isotope/charge "
        "match the key (Z->symbol from an independent list). invalid: every 1-2 letter string that is not a symbol, "
        "table attribute names, case/blank variants of every name, 'A-Sym' for every A not in el.isotopes within "
        "[min-3, max+3] plus far values, malformed 'Sym-A'/'A-Sym-x'/'4-D' strings, el[A] for A not defined, every "
        "charge in [-10, 10] not in el.ions (elements and all isotopes) must raise; cross-route: every symbol, name (+ capitalised / upper case), "
        "'A-Sym' string (all 2940), 'A-D'/'A-T', atomic number, digit string and ion-looking string is offered to EVERY "
        "route (symbol(), name(), isotope(), table[.], getattr(table, .), module attribute) and must raise or return an "
        "atom carrying that key in the attribute the route is about; numeric keys of table[Z], el[A] and "
        ".ion[c] that are no valid key (negatives of valid keys incl. -1..-120, out of range, 1.5, '1', None, tuples, slices, "
        "charge 0) must raise or return an atom whose number/isotope/charge equals the key (1.0, True); afterwards the valid lookups still "
        "return the same objects. growth: four private-table histories (all lists read first / isotope('2-H') first / iteration first / "
        "nothing first), then mass.init, the other loaders, and add_isotope of unused mass numbers for every element "
        "with listings in between; after every step el.isotopes == iteration == the A for which el[A] and "
        "isotope('A-Sym') give the one object. define_elements: public / private-a / private-b (all 6 orders, repeats, a bare table) "
        "exported one after the other into one dict that starts empty, with unrelated entries, or as the result of "
        "'from periodictable import *'; after each export every symbol and name (incl. n, D, T, deuterium, tritium) is "
        "the atom of the table exported last, the returned list names exactly those keys, other entries are untouched "
        "(non-trivial from the second export on). dropped table: a helper builds a private table and returns only atoms (all 17765 of "
        "them / one atom of each class per table / a Formula holding them); after gc.collect() every pickle protocol, "
        "copy, deepcopy and container round trip must return the kept atom itself; a second table of the freed name is "
        "refused, or else leaves those round trips intact. machine: Hypothesis draws 1-3 atoms (all classes incl. D/T) and 2-30 operations on "
        "public/T1/T2, run in a forked pristine interpreter against a registry model; non-trivial = some (table, atom) "
        "is reached by >= 2 different operation kinds; distinct by the operation list. Every swept object and every "
        "invalid key is non-trivial (finite domain, swept completely).")
ASSUMPTIONS = [
    "Z <-> symbol taken from the IUPAC list embedded in this file; names are taken from the object served for Z",
    "an invalid key is 'rejected' if any exception is raised; the exception class is not judged",
    "spellings that int() accepts for the mass number (' 56-Fe', '+56-Fe', '056-Fe'), keys that differ from a valid key "
    "only by surrounding white space, str keys for el[A], historical symbols (Uuo) and 'A-<name>' are neither generated "
    "nor judged; "
    "'0-Sym' (mass number 0, which is in no isotope list) IS judged, in its own bucket",
    "numeric keys that are no valid key (el.ion[0], 1.5, 1.0, True, None, slices) may raise or return an atom that carries "
    "the key; float keys equal to a valid charge are not asked of .ion (the new Ion would store the float); "
    "table.isotope(<element name>) is not judged (the class "
    "docstring of PeriodicTable mentions it, the code rejects it)",
    "os.fork of a process that imported periodictable but touched nothing is a faithful pristine interpreter",
]
EXHAUSTIVE = True
EXHAUSTIVE_NOTE = ("sweep-* and invalid-* tasks enumerate all 119 elements, all isotopes, all element ions and all "
                   "isotope ions of each table configuration, and all invalid neighbours listed in the rule; the "
                   "machine-* tasks are generated")

SYMBOLS = ("n H He Li Be B C N O F Ne Na Mg Al Si P S Cl Ar K Ca Sc Ti V Cr Mn Fe Co Ni Cu Zn Ga Ge As Se Br Kr "
           "Rb Sr Y Zr Nb Mo Tc Ru Rh Pd Ag Cd In Sn Sb Te I Xe Cs Ba La Ce Pr Nd Pm Sm Eu Gd Tb Dy Ho Er Tm Yb Lu "
           "Hf Ta W Re Os Ir Pt Au Hg Tl Pb Bi Po At Rn Fr Ra Ac Th Pa U Np Pu Am Cm Bk Cf Es Fm Md No Lr Rf Db Sg "
           "Bh Hs Mt Ds Rg Cn Nh Fl Mc Lv Ts Og").split()
assert len(SYMBOLS) == 119
ZOF = dict((s, z) for z, s in enumerate(SYMBOLS))
DTSYM = {2: ("D", "deuterium"), 3: ("T", "tritium")}
LAZY = ["neutron", "xray", "covalent_radius", "crystal_structure", "K_alpha", "magnetic_ff", "neutron_activation"]
INITS = ["nsf.init", "xsf.init", "xsf.init_spectral_lines", "covalent_radius.init", "crystal_structure.init",
         "magnetic_ff.init", "activation.init"]

_ENV = {}


# ----------------------------------------------------------------------
# tables
def _touch_public(groups=LAZY):
    import periodictable
    T = periodictable.elements
    for g in groups:
        for atom in (T.Fe, T.Co[59]):
            try:
                getattr(atom, g, None)
            except Exception:  # noqa  (what a loader does is C09's business)
                pass


def _init(T, entry):
    import importlib
    mod, fn = entry.split(".")
    m = importlib.import_module("periodictable." + mod)
    getattr(m, fn)(T)


def table(cfg):
    """Table of a configuration name (created once per process)."""
    if cfg in _ENV:
        return _ENV[cfg]
    import periodictable
    from periodictable import core, mass, density
    if cfg == "public":
        T = periodictable.elements
    elif cfg == "public-loaded":
        _touch_public()
        T = periodictable.elements
    elif cfg == "bare":
        T = subtable.new("c08-bare")
    else:
        T = subtable.new("c08-" + cfg)
        mass.init(T)
        density.init(T)
        if cfg == "private-b":
            _touch_public()         # public first: what happens otherwise is C10's business
            for e in INITS:
                try:
                    _init(T, e)
                except Exception:  # noqa
                    pass
    _ENV[cfg] = T
    return T


OTHER = {"public": "private-a", "public-loaded": "private-a", "private-a": "public", "private-b": "private-a",
         "bare": "private-a", "T1": "T2", "T2": "public"}


def keys_of(T):
    """All (Z, A, c) of a table, enumerated from the table."""
    out = []
    for el in T:
        Z = el.number
        out.append((Z, 0, 0))
        for c in el.ions:
            out.append((Z, 0, c))
        for A in el.isotopes:
            out.append((Z, A, 0))
            for c in el.ions:
                out.append((Z, A, c))
    return out


def key_class(key):
    Z, A, c = key
    base = "isotope-ion" if (A and c) else "isotope" if A else "ion" if c else "element"
    if Z == 1 and A in DTSYM:
        return "DT-ion" if c else "DT"
    if Z == 0:
        return "neutron" if not A else "neutron-isotope"
    return base


def canonical(T, key):
    Z, A, c = key
    x = T[Z]
    if A:
        x = x[A]
    if c:
        x = x.ion[c]
    return x


# ----------------------------------------------------------------------
# routes
def routes(T, key, is_public):
    """[(route name, thunk)] : every documented way to reach the atom *key* in T."""
    import periodictable
    Z, A, c = key
    sym = SYMBOLS[Z]
    out = []
    if c:
        parent = (lambda: T[Z][A]) if A else (lambda: T[Z])
        out.append(("ion", lambda: parent().ion[c]))
        out.append(("ion-again", lambda: parent().ion[c]))
        out.append(("ion-via-symbol", lambda: (T.symbol(sym)[A] if A else T.symbol(sym)).ion[c]))
        if A:
            out.append(("ion-via-isostr", lambda: T.isotope("%d-%s" % (A, sym)).ion[c]))
        if Z == 1 and A in DTSYM:
            out.append(("ion-via-DT", lambda: getattr(T, DTSYM[A][0]).ion[c]))
        return out
    if A:
        out.append(("getitem", lambda: T[Z][A]))
        out.append(("isostr", lambda: T.isotope("%d-%s" % (A, sym))))
        out.append(("add_isotope", lambda: T[Z].add_isotope(A)))
        out.append(("iter", lambda: [i for i in T[Z] if i.isotope == A][0]))
        out.append(("via-symbol", lambda: T.symbol(sym)[A]))
        if Z == 1 and A in DTSYM:
            s, n = DTSYM[A]
            out.append(("DT-attr", lambda: getattr(T, s)))
            out.append(("DT-symbol", lambda: T.symbol(s)))
            out.append(("DT-isotope", lambda: T.isotope(s)))
            out.append(("DT-name", lambda: T.name(n)))
            if is_public:
                out.append(("DT-module-symbol", lambda: getattr(periodictable, s)))
                out.append(("DT-module-name", lambda: getattr(periodictable, n)))
        return out
    out.append(("number", lambda: T[Z]))
    out.append(("symbol", lambda: T.symbol(sym)))
    out.append(("name", lambda: T.name(T[Z].name)))
    out.append(("isotope-sym", lambda: T.isotope(sym)))
    out.append(("attr", lambda: getattr(T, sym)))
    out.append(("iter", lambda: [e for e in T if e.number == Z][0]))
    if is_public:
        out.append(("module-symbol", lambda: getattr(periodictable, sym)))
        out.append(("module-name", lambda: getattr(periodictable, T[Z].name)))
    return out


def restorers(x):
    """[(name, thunk)] : ways of copying / serialising that must give x back."""
    out = [("pickle%d" % p, (lambda p=p: pickle.loads(pickle.dumps(x, protocol=p))))
           for p in range(pickle.HIGHEST_PROTOCOL + 1)]
    out.append(("copy", lambda: copy.copy(x)))
    out.append(("deepcopy", lambda: copy.deepcopy(x)))
    out.append(("deepcopy-dict-key", lambda: list(copy.deepcopy({x: 2.5}))[0]))
    out.append(("pickle-list-twice", lambda: _same(pickle.loads(pickle.dumps([x, (x, 1)])))))
    return out


def _same(lst):
    a, (b, _) = lst
    if a is not b:
        raise Violation("c08:identity:pickle-list-twice", "one atom pickled twice in a list restored as two objects")
    return a


def expected_attrs(T, key):
    Z, A, c = key
    d = {"number": Z, "charge": c, "isotope": A, "symbol": SYMBOLS[Z], "name": T[Z].name}
    if Z == 1 and A in DTSYM:
        d["symbol"], d["name"] = DTSYM[A]
    return d


def check_atom(T, cfg, key, other=None, other_name=None):
    """All checks for one atom.  Yields (bucket, message)."""
    key = tuple(key)
    cls = key_class(key)
    is_public = cfg.startswith("public")
    try:
        x = canonical(T, key)
    except Exception as e:  # noqa
        yield ("c08:raised:canonical:%s" % cls, "%s%r: %s: %s" % (cfg, key, type(e).__name__, e))
        return
    for name, thunk in routes(T, key, is_public) + restorers(x):
        try:
            y = thunk()
        except Violation as v:
            yield (v.bucket + ":" + cls, "%s%r: %s" % (cfg, key, v.message))
            continue
        except Exception as e:  # noqa
            yield ("c08:raised:%s:%s" % (name, cls), "%s%r route %s raised %s: %s" % (cfg, key, name, type(e).__name__, e))
            continue
        if y is not x:
            yield ("c08:identity:%s:%s" % ("pickle" if name.startswith("pickle") and name[6:].isdigit() else name, cls),
                   "%s%r: route %s returned %r (id %x), canonical object is %r (id %x)"
                   % (cfg, key, name, y, id(y), x, id(x)))
    # the object carries the key
    for attr, want in sorted(expected_attrs(T, key).items()):
        got = getattr(x, attr, 0 if attr == "isotope" else None)
        if got != want or type(got) is not type(want):
            yield ("c08:attrs:%s:%s" % (attr, cls), "%s%r: .%s is %r, key says %r" % (cfg, key, attr, got, want))
    Z, A, c = key
    if c:
        parent = T[Z][A] if A else T[Z]
        if x.element is not parent:
            yield ("c08:attrs:element:%s" % cls, "%s%r: ion.element is not the parent atom" % (cfg, key))
    elif A:
        if x.element is not T[Z]:
            yield ("c08:attrs:element:%s" % cls, "%s%r: isotope.element is not table[Z]" % (cfg, key))
    # tables
    from periodictable import core
    try:
        if core.change_table(x, T) is not x:
            yield ("c08:change_table:same:%s" % cls, "%s%r: change_table(x, own table) is not x" % (cfg, key))
        if other is not None:
            y = core.change_table(x, other)
            try:
                want = canonical(other, key)
            except Exception:  # noqa  the other table does not define it (bare tables)
                want = None
            if want is not None:
                if y is not want:
                    yield ("c08:change_table:other:%s" % cls,
                           "%s%r: change_table(x, %s) gave %r, that table's atom is %r" % (cfg, key, other_name, y, want))
                if y is x:
                    yield ("c08:change_table:shared:%s" % cls, "%s%r: two tables share one atom object" % (cfg, key))
                if core.change_table(y, T) is not x:
                    yield ("c08:change_table:back:%s" % cls, "%s%r: change_table there and back is not x" % (cfg, key))
                z = pickle.loads(pickle.dumps(y))
                if z is not y:
                    yield ("c08:identity:pickle-other-table:%s" % cls,
                           "%s%r: atom of table %s unpickled as %r of another table/object" % (cfg, key, other_name, z))
    except Exception as e:  # noqa
        if lib_frame(e.__traceback__) is None:
            raise
        yield ("c08:raised:change_table:%s" % cls, "%s%r: %s: %s" % (cfg, key, type(e).__name__, e))


def check_iteration(T, cfg):
    """Iteration order of the table and of every element.  Yields (bucket, msg)."""
    for rep in (1, 2):
        els = list(T)
        nums = [e.number for e in els]
        if nums != list(range(119)):
            yield ("c08:iter:table-order", "%s: list(table) numbers are %r..." % (cfg, nums[:12]))
            break
        if any(e is not T[e.number] for e in els):
            yield ("c08:iter:table-identity", "%s: list(table) yields objects other than table[Z]" % cfg)
    for el in list(T):
        a1 = [i.isotope for i in el]
        a2 = [i.isotope for i in el]
        lst = el.isotopes
        if a1 != sorted(set(a1)) or a1 != a2:
            yield ("c08:iter:isotope-order", "%s: list(%s) mass numbers %r are not strictly increasing" % (cfg, el, a1[:8]))
        if list(lst) != a1:
            yield ("c08:iter:isotopes-list", "%s: %s.isotopes %r differs from iteration %r" % (cfg, el, lst[:8], a1[:8]))
        if any(i is not el[i.isotope] for i in el):
            yield ("c08:iter:isotope-identity", "%s: list(%s) yields objects other than el[A]" % (cfg, el))
        if list(el.ions) != sorted(set(el.ions)):
            yield ("c08:iter:ions-order", "%s: %s.ions %r not strictly increasing" % (cfg, el, el.ions))


def check_agreement(T, cfg, Zs=None):
    """Every way of enumerating / addressing the isotopes of an element must agree: el.isotopes, iteration,
    el[A] and table.isotope('A-Sym').  Yields (bucket, message)."""
    for Z in (range(119) if Zs is None else Zs):
        el = T[Z]
        sym = SYMBOLS[Z]
        objs = list(el)
        seen = [i.isotope for i in objs]
        listed = list(el.isotopes)
        if seen != sorted(set(seen)):
            yield ("c08:iter:isotope-order", "%s: list(%s) mass numbers %r not strictly increasing" % (cfg, sym, seen[:8]))
        if listed != seen:
            yield ("c08:agree:isotopes-list", "%s: %s.isotopes lists %d mass numbers, iteration visits %d (only one has %r)"
                   % (cfg, sym, len(listed), len(seen), sorted(set(listed) ^ set(seen))[:6]))
        for i in objs:
            A = i.isotope
            try:
                g = el[A]
            except Exception as e:  # noqa
                g = e
            if g is not i:
                yield ("c08:agree:getitem", "%s: %s[%d] gives %r, iteration visits %r" % (cfg, sym, A, g, i))
            try:
                g = T.isotope("%d-%s" % (A, sym))
            except Exception as e:  # noqa
                yield ("c08:agree:isostr-raises", "%s: table.isotope('%d-%s') raises %s although %s[%d] exists"
                       % (cfg, A, sym, type(e).__name__, sym, A))
                continue
            if g is not i:
                yield ("c08:agree:isostr-identity", "%s: table.isotope('%d-%s') is not %s[%d]" % (cfg, A, sym, sym, A))


GROWTH_VARIANTS = ["list-all-first", "isostr-first", "iterate-first", "no-early-lookup"]


def _unused(el, r=0):
    """A mass number the element does not have (found through iteration, which lists nothing)."""
    have = set(i.isotope for i in el)
    hi = max(have) if have else 0
    lo = min(have) if have else 2
    cands = [n for n in (hi + 1, hi + 2, lo - 1, hi + 7, 400 + r % 50) if n > 0 and n not in have]
    return cands[r % len(cands)]


def growth_history(variant, report, case_fn=None):
    """A private table whose first listings / lookups happen BEFORE the loaders and add_isotope() add isotopes.
    report(bucket, message) is called for every disagreement; case_fn(stage, Z) counts the cases."""
    from periodictable import core, mass, density
    _ENV["growth-n"] = _ENV.get("growth-n", 0) + 1
    name = "c08-growth-%s-%d" % (variant, _ENV["growth-n"])
    T = subtable.new(name)

    def stage(label, Zs=None):
        for Z in (range(119) if Zs is None else Zs):
            if case_fn:
                case_fn(label, Z)
        for b, m in check_agreement(T, "%s@%s" % (variant, label), Zs):
            report(b, m)

    # early use of the still empty table
    if variant == "list-all-first":
        for el in T:
            el.isotopes
    elif variant == "isostr-first":
        T.isotope("2-H"), T.isotope("D"), T.isotope("3-H")
        for Z in range(0, 119, 7):
            try:
                T.isotope("%d-%s" % (2 * Z + 1, SYMBOLS[Z]))
            except ValueError:
                pass
    elif variant == "iterate-first":
        for el in T:
            list(el)
    stage("bare")
    mass.init(T)
    density.init(T)
    stage("mass")
    _touch_public(["neutron", "neutron_activation"])      # public first: the rest is C10's business
    for e in ("nsf.init", "activation.init", "xsf.init"):
        try:
            _init(T, e)
        except Exception:  # noqa
            pass
    stage("loaders")
    # add_isotope of unused mass numbers after the lists were read, twice, with a listing in between
    added = []
    for rnd in (0, 1):
        for Z in range(119):
            el = T[Z]
            if (Z + rnd) % 3 == 0:
                el.isotopes
            n = _unused(el, Z + rnd)
            new = el.add_isotope(n)
            if new is not el[n] or new.isotope != n or new.element is not el:
                report("c08:agree:add_isotope", "%s: %s.add_isotope(%d) returned %r" % (variant, el, n, new))
            added.append((Z, n))
        stage("grown-%d" % rnd)
    # the new isotopes and their ions are atoms like all others
    for Z, n in added[::5]:
        for key in [(Z, n, 0)] + [(Z, n, c) for c in T[Z].ions[:2]]:
            if case_fn:
                case_fn("new-atom", key)
            for b, m in check_atom(T, variant, key):        # no second table has these isotopes
                report(b, m)


# ----------------------------------------------------------------------
# the caller drops its reference to a private table and keeps only atoms of it
DROP_VARIANTS = ["all-atoms", "few-atoms", "formula"]
DROP_FORMULAS = ["H2O", "D2O", "Fe[56]{2+}O{2-}", "D{+}Cl{-}", "T2O[18]", "Na{+}Cl{-}", "U[235]O2", "CaCO3(H2O)6"]


def _fresh_private(name):
    from periodictable import core, mass, density
    T = subtable.new(name)
    mass.init(T)
    density.init(T)
    return T


def _kept_atoms(name, keys):
    """A helper that returns only atoms: its table goes out of scope when it returns."""
    T = _fresh_private(name)
    return [canonical(T, k) for k in keys]


def _kept_formula(name, text):
    import periodictable
    return periodictable.formula(text, table=_fresh_private(name))


def check_dropped(label, key, x):
    """x is an atom of a private table nobody references any more: every copy / pickle must still be x."""
    cls = key_class(tuple(key))
    for name, thunk in restorers(x):
        short = "pickle" if name.startswith("pickle") and name[6:].isdigit() else name
        try:
            y = thunk()
        except Violation as v:
            yield ("c08:dropped-table:" + short + ":" + cls, "%s%r: %s" % (label, tuple(key), v.message))
            continue
        except Exception as e:  # noqa
            yield ("c08:dropped-table:raised:%s:%s" % (short, cls),
                   "%s%r: %s of an atom whose table was dropped raised %s: %s" % (label, tuple(key), name, type(e).__name__, e))
            continue
        if y is not x:
            yield ("c08:dropped-table:identity:%s:%s" % (short, cls),
                   "%s%r: %s returned %r (table %r, id %x), not the atom itself (id %x)"
                   % (label, tuple(key), name, y, getattr(y, "table", "?"), id(y), id(x)))


def dropped_history(variant, report, case_fn=None):
    import gc
    import periodictable
    _ENV["drop-n"] = _ENV.get("drop-n", 0) + 1
    base = "c08-drop-%s-%d" % (variant, _ENV["drop-n"])
    histories = []      # (table name, [(key, atom)])
    if variant == "all-atoms":
        keys = keys_of(periodictable.elements)
        histories.append((base, list(zip(keys, _kept_atoms(base, keys)))))
    elif variant == "few-atoms":
        pub = periodictable.elements
        n = 0
        for Z in (0, 1, 2, 8, 26, 64, 92, 118):
            el = pub[Z]
            ks = [(Z, 0, 0)]
            if el.ions:
                ks.append((Z, 0, el.ions[0]))
            if el.isotopes:
                ks.append((Z, el.isotopes[-1], 0))
                if el.ions:
                    ks.append((Z, el.isotopes[0], el.ions[-1]))
            if Z == 1:
                ks += [(1, 2, 0), (1, 3, 0), (1, 2, 1), (1, 3, -1)]
            for k in ks:            # one table per kept atom: nothing else of that table stays alive
                n += 1
                name = "%s-%d" % (base, n)
                histories.append((name, list(zip([k], _kept_atoms(name, [k])))))
    elif variant == "formula":
        for n, text in enumerate(DROP_FORMULAS):
            name = "%s-%d" % (base, n)
            f = _kept_formula(name, text)
            gc.collect()
            kept = dict((id(a), a) for a in f.atoms)
            if case_fn:
                case_fn("formula", text)
            copies = [("pickle%d" % p, (lambda p=p: pickle.loads(pickle.dumps(f, protocol=p))))
                      for p in range(pickle.HIGHEST_PROTOCOL + 1)]
            copies += [("copy", lambda: copy.copy(f)), ("deepcopy", lambda: copy.deepcopy(f)),
                       ("formula(f)", lambda: periodictable.formula(f))]
            for cname, thunk in copies:
                short = "pickle" if cname.startswith("pickle") else cname
                try:
                    g = thunk()
                except Exception as e:  # noqa
                    if lib_frame(e.__traceback__) is None and "periodic table" not in str(e).lower():
                        raise
                    report("c08:dropped-table:formula:raised:" + short,
                           "%s of formula(%r, table=<dropped>) raised %s: %s" % (cname, text, type(e).__name__, e))
                    continue
                if any(id(a) not in kept for a in g.atoms) or len(g.atoms) != len(kept):
                    report("c08:dropped-table:formula:identity:" + short,
                           "%s of formula(%r, table=<dropped>) holds other atom objects than the formula" % (cname, text))
            histories.append((name, [(_atom_key(a), a) for a in f.atoms]))
    gc.collect()
    for name, kept in histories:
        for key, x in kept:
            if case_fn:
                case_fn("kept", (name if variant != "all-atoms" else "", key))
            for b, m in check_dropped(variant, key, x):
                report(b, m)
    # the freed name: on the unchanged tree a second table of that name is refused; if it is accepted the kept
    # atoms must still be restored as themselves, not as the new table's atoms
    for name, kept in histories[:12]:
        try:
            T2 = _fresh_private(name)
        except Exception:  # noqa
            if case_fn:
                case_fn("same-name:refused", name)
            continue
        if case_fn:
            case_fn("same-name:created", name)
        for key, x in kept[:400]:
            for b, m in check_dropped(variant + "+same-name", key, x):
                report(b.replace("c08:dropped-table:", "c08:dropped-table:same-name:", 1), m)
            try:
                if canonical(T2, tuple(key)) is x:
                    report("c08:dropped-table:same-name:shared", "%s%r: the new table serves the old table's atom" % (variant, key))
            except Exception:  # noqa
                pass


def _atom_key(a):
    return (a.number, getattr(a, "isotope", 0), a.charge)


def task_dropped(ctx, variant):
    case = {"kind": "dropped", "variant": variant}
    dropped_history(variant, lambda b, m: ctx.violation(b, m, case),
                    lambda stage, k: ctx.case((variant, stage, k), True, {"dropped-table": variant, "stage": stage, "what": k},
                                              ["dropped:" + variant, "dropped-stage:" + stage.split(":")[0]]))


# ----------------------------------------------------------------------
# define_elements(table, namespace): "Define external variables for each element in namespace. Elements are
# defined both by name and by symbol."  After the call every symbol/name variable is the atom of THAT table.
def expected_exports(T):
    """{key: atom of T} for all symbols and names incl. n/neutron, D/deuterium, T/tritium."""
    out = {}
    for Z in range(119):
        el = T[Z]
        out[SYMBOLS[Z]] = el
        out[el.name] = el
    out["D"], out["T"] = T[1][2], T[1][3]
    out["deuterium"], out["tritium"] = T[1][2], T[1][3]
    return out


def check_export(T, cfg, ns, returned, label, before):
    want = expected_exports(T)
    for k, x in sorted(want.items()):
        if k not in ns:
            yield ("c08:define_elements:missing", "%s: after define_elements(%s, ns) ns has no %r" % (label, cfg, k))
        elif ns[k] is not x:
            got = ns[k]
            yield ("c08:define_elements:other-object",
                   "%s: after define_elements(%s, ns) ns[%r] is %r of table %r, not the atom of %s"
                   % (label, cfg, k, got, getattr(got, "table", "?"), cfg))
    if sorted(returned) != sorted(want):
        yield ("c08:define_elements:returned-names", "%s: define_elements(%s) returned %d names, %d symbols+names expected"
               % (label, cfg, len(returned), len(want)))
    for k, v in before.items():
        if k not in want and (k not in ns or ns[k] is not v):
            yield ("c08:define_elements:clobbered", "%s: unrelated namespace entry %r changed" % (label, k))


def export_history(order, start, report, case_fn=None):
    """Export the tables of *order* one after the other into one namespace that starts as *start*."""
    import periodictable
    from periodictable import core
    if start == "empty":
        ns = {}
    elif start == "unrelated":
        ns = {"x": 1, "elements": "mine", "Fe2O3": object(), "iron_oxide": None}
    elif start == "package":            # what `from periodictable import *` leaves in a module's globals
        ns = dict((k, getattr(periodictable, k)) for k in periodictable.__all__)
    else:
        raise ValueError(start)
    label = "%s namespace, exports %s" % (start, " then ".join(order))
    for n, cfg in enumerate(order):
        T = table(cfg)
        before = dict(ns)
        returned = core.define_elements(T, ns)
        if case_fn:
            case_fn(n, cfg)
        for b, m in check_export(T, cfg, ns, returned, label + " [after #%d]" % (n + 1), before):
            report(b, m)


EXPORT_ORDERS = [list(p) for p in __import__("itertools").permutations(["public", "private-a", "private-b"])] + \
    [["public"], ["private-a"], ["private-a", "private-a"], ["public", "private-a", "public"], ["bare", "public", "bare"]]


def task_exports(ctx):
    for start in ("empty", "unrelated", "package"):
        for order in EXPORT_ORDERS:
            case = {"kind": "export", "order": order, "start": start}
            export_history(order, start, lambda b, m: ctx.violation(b, m, case),
                           lambda n, cfg: ctx.case((start, tuple(order), n), n > 0 or start == "package",
                                                   {"define_elements": order, "namespace": start, "step": n},
                                                   ["export:" + start, "export-step:%d" % n, "export-table:" + cfg]))
    # the package's own namespace carries the public table
    import periodictable
    for k, x in sorted(expected_exports(periodictable.elements).items()):
        if getattr(periodictable, k, None) is not x:
            ctx.violation("c08:define_elements:package", "periodictable.%s is not the public table's atom" % k,
                          {"kind": "export", "order": [], "start": "package"})


def task_growth(ctx, variant):
    case = {"kind": "growth", "variant": variant}
    growth_history(variant, lambda b, m: ctx.violation(b, m, case),
                   lambda stage, k: ctx.case((variant, stage, k), True, {"growth": variant, "stage": stage, "element": k},
                                             ["growth:" + variant, "stage:" + stage]))


# ----------------------------------------------------------------------
# sweeps
def task_sweep(ctx, cfg, part=0, parts=1):
    T = table(cfg)
    other = table(OTHER[cfg])
    ks = keys_of(T)
    counts = {"elements": sum(1 for k in ks if not k[1] and not k[2]), "isotopes": sum(1 for k in ks if k[1] and not k[2]),
              "ions": sum(1 for k in ks if not k[1] and k[2]), "isotope_ions": sum(1 for k in ks if k[1] and k[2])}
    ctx.extra["counts:" + cfg] = counts
    first = {}
    if part == 0:
        for b, m in check_iteration(T, cfg):
            ctx.violation(b, m, {"kind": "iter", "config": cfg})
        ctx.case(("iter", cfg), True, {"iteration": cfg}, ["iteration", "table:" + cfg])
    for n, key in enumerate(ks):
        if n % parts != part:
            continue
        # alternate which of pickle / lookup creates an ion first is not possible without the object;
        # the machine tasks cover creation order.
        ctx.case((cfg, key), True, {"table": cfg, "key": list(key)}, ["class:" + key_class(key), "table:" + cfg])
        for b, m in check_atom(T, cfg, key, other, OTHER[cfg]):
            ctx.violation(b, m, {"kind": "atom", "config": cfg, "key": list(key)})
        first[key] = canonical(T, key)
    if cfg == "public":
        # load every lazy group, then every object must still be the one served before
        _touch_public()
        for key, x in first.items():
            try:
                y = canonical(T, key)
            except Exception as e:  # noqa
                y = e
            if y is not x:
                ctx.violation("c08:identity:after-lazy-load:" + key_class(key),
                              "public%r: object changed (%r) after the lazy groups were loaded" % (key, y),
                              {"kind": "after-load", "key": list(key)})
        after = keys_of(T)
        if set(after) != set(ks):
            ctx.extra["isotopes-added-by-loaders"] = sorted(set(after) - set(ks))[:20]
        for b, m in check_iteration(T, "public-loaded"):
            ctx.violation(b, m, {"kind": "iter", "config": "public-loaded"})


# ----------------------------------------------------------------------
# invalid neighbours
def _letters():
    up = "ABCDEFGHIJKLMNOPQRSTUVWXYZ"
    lo = up.lower()
    out = list(up) + list(lo)
    for a in up + lo:
        for b in up + lo:
            out.append(a + b)
    return out


class _KeyMatches(Exception):
    """Raised by a 'number key' thunk when the lookup returned an atom that carries the key: acceptable."""


def _match_or_return(fn, key, attr):
    """fn() for a key that is not a documented valid key: either it raises, or it returns an atom whose
    number / isotope / charge equals the key (keys that hash equal to a valid one, e.g. 1.0 or True): then
    _KeyMatches is raised, which the callers count as acceptable.  Anything else is returned (= accepted)."""
    from periodictable import core
    got = fn()
    try:
        if core.isatom(got) and bool(getattr(got, attr, 0 if attr == "isotope" else None) == key):
            raise _KeyMatches()
    except _KeyMatches:
        raise
    except Exception:  # noqa
        pass
    return got


def _carries(route, key, obj):
    """Does the atom *obj* returned by lookup *route* carry *key* in the attribute that route is about?"""
    import re
    from periodictable import core
    if not core.isatom(obj) or core.ision(obj):
        return False
    sym, name = getattr(obj, "symbol", None), getattr(obj, "name", None)
    if route == "symbol":
        return isinstance(key, str) and sym == key
    if route == "name":
        return isinstance(key, str) and name == key
    if route == "number":
        return (not isinstance(key, str)) and obj.number == key and not core.isisotope(obj)
    if route in ("attr", "module"):
        return isinstance(key, str) and key in (sym, name)
    if route == "isotope":
        if not isinstance(key, str):
            return False
        m = re.match(r"^([1-9][0-9]*)-([A-Za-z]{1,2})$", key)
        if m:       # 'A-Sym': that isotope of that element ('2-H' is D, whose own symbol is 'D')
            if m.group(2) in ("D", "T"):    # 'A-D' is rejected today; accepting the own mass number would still match
                return core.isisotope(obj) and obj.number == 1 and obj.isotope == int(m.group(1)) == {"D": 2, "T": 3}[m.group(2)]
            return core.isisotope(obj) and obj.isotope == int(m.group(1)) and obj.number == ZOF.get(m.group(2), -1)
        return key in (sym, name)       # 'Fe', 'D'; a name is left unjudged (class docstring mentions it)
    raise ValueError(route)


def _carry_or_return(fn, route, key):
    """fn() for a key borrowed from ANOTHER route: it raises, or the atom returned carries the key in the
    attribute this route is about (then _KeyMatches); anything else is returned (= wrongly accepted)."""
    got = fn()
    from periodictable import core
    if route in ("attr", "module") and not core.isatom(got):
        raise _KeyMatches()         # methods, lists, modules, functions: not an atom lookup at all
    if _carries(route, key, got):
        raise _KeyMatches()
    return got


def cross_keys(T):
    """[(kind, key)] : every key that is valid for SOME lookup route (plus near variants), to be offered to all routes."""
    out = []
    names = [T[Z].name for Z in range(119)] + ["deuterium", "tritium"]
    for sy in SYMBOLS + ["D", "T"]:
        out.append(("symbol", sy))
    for n in names:
        out += [("name", n), ("name-case", n.capitalize()), ("name-case", n.upper())]
    for Z in range(119):
        for A in T[Z].isotopes:
            out.append(("A-Sym", "%d-%s" % (A, SYMBOLS[Z])))
        out += [("number", Z), ("digits", str(Z)), ("Sym-A", "%s-%d" % (SYMBOLS[Z], Z + 1))]
        for c in T[Z].ions[:1] + T[Z].ions[-1:]:
            sgn = "+" if c > 0 else "-"
            out += [("ion-string", "%s{%d%s}" % (SYMBOLS[Z], abs(c), sgn)), ("ion-string", "%s%d%s" % (SYMBOLS[Z], abs(c), sgn)),
                    ("ion-string", "%s%s" % (SYMBOLS[Z], sgn))]
    for sy in ("D", "T"):
        for A in (1, 2, 3):
            out.append(("A-DT", "%d-%s" % (A, sy)))
    out += [("A-Sym[]", "Fe[56]"), ("A-Sym[]", "H[2]"), ("A-Sym[]", "56Fe"), ("A-Sym[]", "Fe56")]
    return out


def number_keys(valid, lo, hi):
    """[(label, key, sub-kind)] : numeric neighbours of the valid integer keys and non-integer keys.
    Labels are the JSON-able names of the keys (slices, None)."""
    ks = []
    for v in sorted(set([-1, -2, lo - 1, hi + 1, hi + 2, -hi, -hi - 1, -hi - 2, 10**6, -10**6] + [-x for x in valid if x])):
        if v not in valid:
            ks.append((repr(v), v, "negative" if v < 0 else "out-of-range"))
    mid = sorted(valid)[len(valid) // 2] if valid else 1
    ks += [("1.5", 1.5, "non-int"), ("%r" % (mid + 0.5), mid + 0.5, "non-int"), ("'%d'" % mid, str(mid), "non-int"),
           ("None", None, "non-int"), ("slice(1, 3)", slice(1, 3), "slice"), ("slice(None)", slice(None), "slice"),
           ("slice(-2, None)", slice(-2, None), "slice"), ("(%d,)" % mid, (mid,), "non-int"),
           ("%r" % float(mid), float(mid), "equal-hash"), ("True", True, "equal-hash")]
    return ks


def invalid_keys(T, Zs=None):
    """[(kind, description, thunk, case)] for every invalid neighbour; thunk must raise."""
    out = []
    valid_syms = set(SYMBOLS) | {"D", "T"}
    names = dict((T[Z].name, Z) for Z in range(119))
    valid_names = set(names) | {"deuterium", "tritium"}

    def add(kind, how, arg, thunk):
        out.append((kind, "%s(%r)" % (how, arg), thunk, {"kind": "invalid", "bad": kind, "how": how, "arg": arg}))

    if Zs is None:
        cands = _letters() + ["", " ", "properties", "list", "symbol", "name", "isotope", "_element",
                              "__class__", "__dict__", "__init__", "__doc__", "iron", "deuterium", "H1",
                              "2H", "Fe2", "He3"]
        cands += [a for a in dir(T) if a not in valid_syms]
        seen = set()
        for s in cands:
            if s in valid_syms or s in seen:
                continue
            seen.add(s)
            kind = "symbol:attribute" if (hasattr(T, s) if s else False) else "symbol:letters"
            add(kind, "table.symbol", s, lambda s=s: T.symbol(s))
            add(kind.replace("symbol", "isotope-sym"), "table.isotope", s, lambda s=s: T.isotope(s))
            add(kind.replace("symbol", "isotope-Asym"), "table.isotope", "1-" + s, lambda s=s: T.isotope("1-" + s))
        for n in sorted(valid_names):
            vs = [n.capitalize(), n.upper(), n.title(), n[:-1], n + "s", n[0].upper() + n[1:], n.swapcase()]
            for v in vs:
                if v in valid_names or v in seen:
                    continue
                seen.add(v)
                add("name:case" if v.lower() == n else "name:edit", "table.name", v, lambda v=v: T.name(v))
        for s in sorted(valid_syms):
            if s not in valid_names:
                add("name:symbol", "table.name", s, lambda s=s: T.name(s))
        for n in sorted(valid_names):
            add("symbol:name", "table.symbol", n, lambda n=n: T.symbol(n))
        # 'A-D' with A the deuterium mass number itself is left unjudged
        for s, As in (("D", (1, 3, 4, 5)), ("T", (1, 2, 4, 5))):
            for A in As:
                add("isostr:DT-number", "table.isotope", "%d-%s" % (A, s), lambda A=A, s=s: T.isotope("%d-%s" % (A, s)))
        # cross-route: a key that is valid for one route is offered to every other route; the call raises or the
        # object returned carries the key in the attribute that route is about
        import periodictable
        is_public = T is periodictable.elements
        for kkind, k in cross_keys(T):
            rts = [("symbol", "table.symbol", lambda k=k: T.symbol(k)), ("name", "table.name", lambda k=k: T.name(k)),
                   ("isotope", "table.isotope", lambda k=k: T.isotope(k)), ("number", "table.__getitem__", lambda k=k: T[k])]
            if isinstance(k, str):
                rts.append(("attr", "getattr(table, .)", lambda k=k: getattr(T, k)))
                if is_public:
                    rts.append(("module", "getattr(periodictable, .)", lambda k=k: getattr(periodictable, k)))
            for route, how, fn in rts:
                add("cross:%s:%s" % (route, kkind), how, k,
                    lambda fn=fn, route=route, k=k: _carry_or_return(fn, route, k))
        # atomic numbers are keys too: every neighbour of 0..118 on the table[Z] route
        for label, k, sub in number_keys(set(range(119)), 0, 118):
            add("number:" + sub, "table.__getitem__", label, lambda k=k: _match_or_return(lambda: T[k], k, "number"))
        Zs = range(119)
    for Z in Zs:
        el = T[Z]
        sym = SYMBOLS[Z]
        isos = list(el.isotopes)
        lo, hi = (min(isos), max(isos)) if isos else (1, 1)
        bad = [A for A in list(range(lo - 3, hi + 4)) + [hi + 40, 999, -1, -lo] if A not in isos and A != 0]
        for A in sorted(set(bad)):
            add("isostr:undefined-A", "table.isotope", "%d-%s" % (A, sym), lambda A=A, sym=sym: T.isotope("%d-%s" % (A, sym)))
            add("getitem:undefined-A", "table[%d].__getitem__" % Z, A, lambda A=A, el=el: el[A])
        add("isostr:zero", "table.isotope", "0-%s" % sym, lambda sym=sym: T.isotope("0-" + sym))
        add("getitem:zero", "table[%d].__getitem__" % Z, 0, lambda el=el: el[0])
        A0 = isos[len(isos) // 2] if isos else 1
        for s in ("%s-%d" % (sym, A0), "%d-%s-x" % (A0, sym), "%d-%s-" % (A0, sym), "-%d-%s" % (A0, sym),
                  "%d--%s" % (A0, sym), "%d-%s" % (A0, sym.lower() if sym.lower() not in valid_syms else sym + "x"),
                  "%d%s" % (A0, sym), "%s%d" % (sym, A0), "%d-%s%d" % (A0, sym, A0), "x%d-%s" % (A0, sym)):
            add("isostr:malformed", "table.isotope", s, lambda s=s: T.isotope(s))
        for label, k, sub in number_keys(set(isos), lo, hi):
            if sub in ("negative", "out-of-range") and lo - 3 <= k <= hi + 3:
                continue        # covered by getitem:undefined-A
            add("getitem:" + sub, "table[%d].__getitem__" % Z, label,
                lambda k=k, el=el: _match_or_return(lambda: el[k], k, "isotope"))
        for label, k, sub in number_keys(set(el.ions), -10, 10) + [("0", 0, "zero")]:
            if isinstance(k, float) and k == int(k):
                continue        # el.ion[2.0] would be cached as an ion of charge 2.0: not asked
            if sub in ("negative", "out-of-range") and -10 <= k <= 10:
                continue        # covered by charge:element
            add("charge:" + sub, "table[%d].ion.__getitem__" % Z, label,
                lambda k=k, el=el: _match_or_return(lambda: el.ion[k], k, "charge"))
        ions = set(el.ions)
        for c in range(-10, 11):
            if c == 0 or c in ions:
                continue
            add("charge:element", "table[%d].ion.__getitem__" % Z, c, lambda c=c, el=el: el.ion[c])
            for A in isos:
                out.append(("charge:isotope", "table[%d][%d].ion[%d]" % (Z, A, c), (lambda c=c, el=el, A=A: el[A].ion[c]),
                            {"kind": "invalid", "bad": "charge:isotope", "how": "table[%d][%d].ion.__getitem__" % (Z, A),
                             "arg": c}))
    return out


def task_invalid(ctx, cfg):
    T = table(cfg)
    before = dict((k, canonical(T, k)) for k in keys_of(T))
    isos_before = dict((el.number, list(el.isotopes)) for el in T)
    ions_before = dict((el.number, tuple(el.ions)) for el in T)
    for kind, desc, thunk, case in invalid_keys(T):
        case = dict(case, config=cfg)
        ctx.case((cfg, desc), True, {"table": cfg, "lookup": desc}, ["invalid:" + kind, "table:" + cfg])
        try:
            got = thunk()
        except Exception:  # noqa  rejected
            continue
        ctx.violation("c08:invalid-accepted:" + kind, "%s: %s returned %r instead of raising" % (cfg, desc, got), case)
    # the failed lookups left nothing behind
    after = keys_of(T)
    if set(after) != set(before):
        extra = sorted(set(after) - set(before))[:5]
        ctx.violation("c08:invalid-left-state:keys", "%s: failed lookups changed the set of atoms: %r" % (cfg, extra),
                      {"kind": "invalid-state", "config": cfg})
    after_set = set(after)
    for k, x in before.items():
        if k in after_set and canonical(T, k) is not x:
            ctx.violation("c08:invalid-left-state:identity", "%s%r is another object after the failed lookups" % (cfg, k),
                          {"kind": "invalid-state", "config": cfg})
            break
    if isos_before != dict((el.number, list(el.isotopes)) for el in T) or \
            ions_before != dict((el.number, tuple(el.ions)) for el in T):
        ctx.violation("c08:invalid-left-state:lists", "%s: isotopes/ions lists changed by failed lookups" % cfg,
                      {"kind": "invalid-state", "config": cfg})


# ----------------------------------------------------------------------
# machine: operation lists run in a forked pristine interpreter
TBL = ["public", "T1", "T2"]
COPIES = ["copy", "deepcopy", "deepcopy-dict-key", "pickle-list-twice"]
BADS = ["charge", "isotope", "isostr", "symbol-case", "name-case", "attribute", "number"]


def _spec_key(spec):
    s, a, c = spec
    if s in ("D", "T"):
        return (1, {"D": 2, "T": 3}[s], c)
    return (ZOF[s], a, c)


def op_strategy(pool):
    idx = st.integers(0, 2)
    tbl = st.sampled_from(["public", "public", "public", "T1", "T1", "T2", "T3"])
    ops = st.one_of(
        st.tuples(st.just("look"), tbl, st.integers(0, 23), idx),
        st.tuples(st.just("look"), tbl, st.integers(0, 23), idx),
        st.tuples(st.just("pickle"), tbl, st.integers(0, pickle.HIGHEST_PROTOCOL), idx),
        st.tuples(st.just("copy"), tbl, st.sampled_from(COPIES), idx),
        st.tuples(st.just("change"), tbl, tbl, idx),
        st.tuples(st.just("parent"), tbl, idx),
        st.tuples(st.just("load"), st.sampled_from(LAZY)),
        st.tuples(st.just("init"), st.sampled_from(INITS), st.sampled_from(["T1", "T2"])),
        st.tuples(st.just("bad"), tbl, st.sampled_from(BADS), idx, st.integers(0, 10**6)),
        st.tuples(st.just("iter"), tbl, idx),
        st.tuples(st.just("list"), tbl, idx),
        st.tuples(st.just("drop"), st.sampled_from(["T1", "T2", "T3"])),
        st.tuples(st.just("grow"), tbl, st.integers(0, 10**4), idx),
        st.tuples(st.just("grow"), st.sampled_from(["T3", "T3", "T1", "public"]), st.integers(0, 10**4), idx),
        st.tuples(st.just("init"), st.sampled_from(["mass.init", "mass.init", "density.init", "nsf.init", "activation.init"]),
                  st.just("T3")),
    ).map(list)
    return st.tuples(st.lists(pool.atom(), min_size=1, max_size=3), st.lists(ops, min_size=2, max_size=30)).map(list)


def _pick_route(T, key, is_public, r):
    """The r-th applicable route (mod their number) to *key*; 'canonical' is one of them."""
    rs = routes(T, key, is_public) + [("canonical", lambda: canonical(T, key))]
    return rs[r % len(rs)]


class _Machine(object):
    def __init__(self):
        self.tables = {}
        self.dropped = set()
        self.registry = {}
        self.kinds = {}

    def T(self, name):
        if name not in self.tables:
            import periodictable
            from periodictable import core, mass, density
            if name == "public":
                self.tables[name] = periodictable.elements
            elif name == "T3":
                # bare table: isotopes arrive later, through "init" and "grow" operations
                self.tables[name] = subtable.new("c08-" + name)
            else:
                t = subtable.new("c08-" + name)
                mass.init(t)
                density.init(t)
                self.tables[name] = t
        return self.tables[name]

    def agree(self, tname, Zs):
        for b, m in check_agreement(self.T(tname), tname, sorted(set(Zs))):
            raise Violation(b.replace("c08:", "c08:machine:", 1), m)

    def see(self, tname, key, x, how):
        """Model: the first object seen for (table, key) is THE object."""
        cls = key_class(key)
        k = (tname, key)
        self.kinds.setdefault(k, set()).add(how.split(":")[0])
        if k not in self.registry:
            self.registry[k] = x
            for other, y in self.registry.items():
                if other != k and y is x:
                    raise Violation("c08:machine:shared-object:" + cls, "%s%r and %s%r are one object" % (tname, key, other[0], other[1]))
        elif self.registry[k] is not x:
            raise Violation("c08:machine:identity:%s:%s" % (how.split(":")[0] if how.startswith("pickle") else how, cls),
                            "%s%r reached by %s is %r (id %x); first seen as id %x"
                            % (tname, key, how, x, id(x), id(self.registry[k])))
        for attr, want in expected_attrs(self.T(tname), key).items():
            got = getattr(x, attr, 0 if attr == "isotope" else None)
            if got != want:
                raise Violation("c08:machine:attrs:%s:%s" % (attr, cls), "%s%r via %s: .%s is %r" % (tname, key, how, attr, got))

    def run(self, atoms, ops):
        from periodictable import core
        keys = [_spec_key(a) for a in atoms]
        for op in ops:
            kind = op[0]
            if kind == "load":
                _touch_public([op[1]])
                continue
            if kind == "drop":
                # the caller forgets the table; atoms already seen stay alive in the registry
                T = None
                if self.tables.pop(op[1], None) is not None:
                    self.dropped.add(op[1])
                    import gc
                    gc.collect()
                continue
            if (kind == "init" and op[2] in self.dropped) or (kind == "change" and op[2] in self.dropped):
                continue
            if kind != "init" and op[1] in self.dropped:
                k = (op[1], keys[op[-1] % len(keys)])
                if kind in ("pickle", "copy") and k in self.registry:
                    x = self.registry[k]
                    y = (pickle.loads(pickle.dumps(x, protocol=op[2])) if kind == "pickle" else dict(restorers(x))[op[2]]())
                    if y is not x:
                        raise Violation("c08:machine:dropped-table:identity:" + kind,
                                        "%s%r: %s after the table was dropped returned another object" % (k[0], k[1], kind))
                continue
            if kind == "init":
                try:
                    if op[1] in ("nsf.init", "activation.init"):
                        _touch_public(["neutron", "neutron_activation"])
                    _init(self.T(op[2]), op[1])
                except Exception:  # noqa   not C08's business
                    pass
                self.agree(op[2], [k[0] for k in keys])
                continue
            tname = op[1]
            T = self.T(tname)
            key = keys[op[-1] % len(keys)] if kind not in ("bad",) else keys[op[3] % len(keys)]
            if kind == "list":
                T[key[0]].isotopes
                self.agree(tname, [key[0]])
                continue
            if kind == "grow":
                el = T[key[0]]
                if op[2] % 2:
                    el.isotopes
                n = _unused(el, op[2] // 2)
                self.see(tname, (key[0], n, 0), el.add_isotope(n), "grow")
                self.agree(tname, [key[0]])
                continue
            if key[1]:
                try:
                    T[key[0]][key[1]]
                except KeyError:
                    continue        # the bare table does not have this isotope (yet)
            if kind == "look":
                name, thunk = _pick_route(T, key, tname == "public", op[2])
                self.see(tname, key, thunk(), "look:" + name)
            elif kind == "pickle":
                x = canonical(T, key)
                self.see(tname, key, x, "canonical")
                self.see(tname, key, pickle.loads(pickle.dumps(x, protocol=op[2])), "pickle:%d" % op[2])
            elif kind == "copy":
                x = canonical(T, key)
                self.see(tname, key, x, "canonical")
                self.see(tname, key, dict(restorers(x))[op[2]](), "copy:" + op[2])
            elif kind == "change":
                x = canonical(T, key)
                self.see(tname, key, x, "canonical")
                t2 = op[2]
                if key[1]:
                    try:
                        self.T(t2)[key[0]][key[1]]
                    except KeyError:
                        continue    # the target (bare or grown differently) does not have this isotope
                y = core.change_table(x, self.T(t2))
                self.see(t2, key, y, "change_table")
                self.see(tname, key, core.change_table(y, T), "change_table:back")
            elif kind == "parent":
                x = canonical(T, key)
                self.see(tname, key, x, "canonical")
                Z, A, c = key
                if c:
                    self.see(tname, (Z, A, 0), x.element, "parent:ion.element")
                if A:
                    self.see(tname, (Z, 0, 0), (x.element if not c else x.element.element), "parent:isotope.element")
            elif kind == "iter":
                Z, A, c = key
                els = list(T)
                if [e.number for e in els] != list(range(119)):
                    raise Violation("c08:iter:table-order", "%s: iteration order %r" % (tname, [e.number for e in els][:10]))
                self.see(tname, (Z, 0, 0), els[Z], "iter:table")
                isos = list(T[Z])
                if [i.isotope for i in isos] != sorted(set(i.isotope for i in isos)) or \
                        [i.isotope for i in isos] != T[Z].isotopes:
                    raise Violation("c08:iter:isotope-order", "%s: list(%s) = %r" % (tname, T[Z], isos[:8]))
                for i in isos:
                    if i.isotope == A or (tname, (Z, i.isotope, 0)) in self.registry:
                        self.see(tname, (Z, i.isotope, 0), i, "iter:element")
            elif kind == "bad":
                self.bad(tname, T, key, op[2], op[4])
        # closing: everything seen is still what the canonical route serves
        T = None
        for (tname, key), x in list(self.registry.items()):
            if tname in self.dropped:
                if pickle.loads(pickle.dumps(x)) is not x or copy.deepcopy(x) is not x:
                    raise Violation("c08:machine:dropped-table:identity:final",
                                    "%s%r: pickle/deepcopy after the table was dropped returned another object" % (tname, key))
                continue
            self.see(tname, key, canonical(self.T(tname), key), "final")

    def bad(self, tname, T, key, what, r):
        Z, A, c = key
        el = T[Z]
        sym = SYMBOLS[Z]
        isos = el.isotopes
        n_before = len(isos)
        if what == "number":
            ks = number_keys(set(range(119)), 0, 118)
            label, k, _sub = ks[r % len(ks)]
            desc, thunk = "table[%s]" % label, (lambda: _match_or_return(lambda: T[k], k, "number"))
        elif what == "charge":
            cands = [q for q in range(-10, 11) if q and q not in el.ions]
            q = cands[r % len(cands)]
            parent = el[A] if A else el
            desc, thunk = "%r.ion[%d]" % (parent, q), (lambda: parent.ion[q])
        elif what in ("isotope", "isostr"):
            lo, hi = (min(isos), max(isos)) if isos else (1, 1)
            cands = [a for a in list(range(lo - 3, hi + 4)) + [hi + 40, 999] if a not in isos and a != 0]
            a = cands[r % len(cands)]
            if what == "isotope":
                desc, thunk = "%r[%d]" % (el, a), (lambda: el[a])
            else:
                forms = ["%d-%s" % (a, sym), "%s-%d" % (sym, A or lo), "%d-%s-x" % (A or lo, sym), ["1-D", "3-D", "4-D", "1-T", "2-T", "4-T"][r % 6]]
                s = forms[(r // 7) % len(forms)]
                desc, thunk = "table.isotope(%r)" % s, (lambda: T.isotope(s))
        elif what == "symbol-case":
            vs = [v for v in (sym.lower(), sym.upper(), sym.swapcase(), sym[0] + "x", sym + "q") if v not in ZOF and v not in ("D", "T")]
            s = vs[r % len(vs)]
            fn = [T.symbol, T.isotope][(r // 5) % 2]
            desc, thunk = "table.%s(%r)" % (fn.__name__, s), (lambda: fn(s))
        elif what == "name-case":
            n = el.name
            vs = [n.capitalize(), n.upper(), n.swapcase(), n[:-1]]
            s = vs[r % len(vs)]
            desc, thunk = "table.name(%r)" % s, (lambda: T.name(s))
        else:
            attrs = ["properties", "list", "symbol", "name", "isotope", "_element", "__class__", "__dict__"]
            s = attrs[r % len(attrs)]
            fn = [T.symbol, T.isotope][(r // 8) % 2]
            desc, thunk = "table.%s(%r)" % (fn.__name__, s), (lambda: fn(s))
        try:
            got = thunk()
        except Exception:  # noqa
            got = None
            ok = True
        else:
            ok = False
        if not ok:
            raise Violation("c08:machine:invalid-accepted:" + what, "%s: %s returned %r" % (tname, desc, got))
        if len(el.isotopes) != n_before:
            raise Violation("c08:machine:invalid-left-state", "%s: %s added an isotope" % (tname, desc))


def _child(value):
    atoms, ops = value
    m = _Machine()
    try:
        m.run(atoms, ops)
    except Violation as v:
        return {"bucket": v.bucket, "msg": v.message}
    except Exception as e:  # noqa
        fr = lib_frame(e.__traceback__)
        if fr is None:
            return {"error": traceback.format_exc()}
        return {"bucket": "exc:%s:%s" % (type(e).__name__, fr), "msg": "%s: %s" % (type(e).__name__, e)}
    multi = sum(1 for k, v in m.kinds.items() if len(v - {"final", "canonical"}) >= 2)
    return {"ok": True, "multi": multi, "atoms": len(m.registry), "tables": sorted(m.tables)}


def forked(fn, arg):
    """Run fn(arg) in a forked child; returns its JSON-able result."""
    r, w = os.pipe()
    pid = os.fork()
    if pid == 0:
        code = 0
        try:
            os.close(r)
            try:
                out = fn(arg)
            except BaseException:  # noqa
                out = {"error": traceback.format_exc()}
            data = json.dumps(out).encode("utf8")
            while data:
                n = os.write(w, data)
                data = data[n:]
        except BaseException:  # noqa
            code = 3
        finally:
            os._exit(code)
    os.close(w)
    chunks = []
    while True:
        b = os.read(r, 65536)
        if not b:
            break
        chunks.append(b)
    os.close(r)
    os.waitpid(pid, 0)
    if not chunks:
        raise RuntimeError("forked child produced no output")
    return json.loads(b"".join(chunks).decode("utf8"))


def check_machine(ctx, value):
    atoms, ops = value
    res = forked(_child, value)
    if "error" in res:
        raise RuntimeError("machine child failed:\n" + res["error"])
    cls = sorted(set("op:" + o[0] for o in ops))
    keys = [_spec_key(a) for a in atoms]
    cls += sorted(set("look:" + _pick_route(None, keys[o[3] % len(keys)], o[1] == "public", o[2])[0]
                      for o in ops if o[0] == "look") | set("bad:" + o[2] for o in ops if o[0] == "bad")
                  | set("copy:" + o[2] for o in ops if o[0] == "copy"))
    if res.get("ok"):
        cls += ["tables:%d" % len(res["tables"])]
    from ..atoms import spec_class
    cls += sorted(set("atom:" + spec_class(a) for a in atoms))
    ctx.case(json.dumps(value), nontrivial=bool(res.get("multi")) or "bucket" in res,
             sample={"atoms": atoms, "ops": ops}, cls=cls)
    if "bucket" in res:
        raise Violation(res["bucket"], res["msg"], {"kind": "machine", "atoms": atoms, "ops": ops})


def task_machine(ctx, n, preimport=False):
    import numpy  # noqa  (third-party imports done once, before forking)
    import pyparsing  # noqa
    import periodictable
    if preimport:
        # the heavy submodules are imported (not initialised) before forking: faster children, and a second
        # starting state of the interpreter
        from periodictable import nsf, xsf, activation, covalent_radius, crystal_structure, magnetic_ff  # noqa
    from ..atoms import Pool
    pool = Pool(periodictable.elements)     # reads numbers, symbols, isotopes, ions only: creates no atom
    ctx.search("machine", op_strategy(pool), check_machine, n)


# ----------------------------------------------------------------------
# ----------------------------------------------------------------------
# a FLOOD of ions: a service with many fully used private tables.  Ions held from the start stay THE ions of their
# atoms after 20 further tables have had every one of their ~14 700 ions looked up (about 300 000 distinct ions).
def check_flood(ctx, case):
    import copy
    import gc
    import pickle
    import periodictable as pt
    from periodictable import core, mass
    ntables = case["tables"]
    P0 = subtable.new("c08-flood-first")
    mass.init(P0)
    held = []
    for T in (pt.elements, P0):
        for sym in ("H", "Fe", "O", "U", "Cl", "Ce"):
            el = T.symbol(sym)
            for c in el.ions[:3]:
                held.append((T, el, c, el.ion[c]))
            iso = el[el.isotopes[len(el.isotopes) // 2]]
            for c in el.ions[:2]:
                held.append((T, iso, c, iso.ion[c]))
    ctx.case(("flood", ntables), nontrivial=True, sample=case, cls=["ion-flood:%d-tables" % ntables])
    total = 0
    for k in range(ntables):
        T = subtable.new("c08-flood-%d" % k)
        mass.init(T)
        for el in T:
            for c in el.ions:
                el.ion[c]
                total += 1
            for iso in el:
                for c in el.ions:
                    iso.ion[c]
                    total += 1
    ctx.count("ion-flood:distinct-ions-created", total)
    gc.collect()
    for T, atom, c, ion in held:
        where = "%s ion %+d of %r (%s table), held while %d other ions were created on %d further tables" % (
            "isotope" if hasattr(atom, "isotope") else "element", c, atom, "public" if T is pt.elements else "first private", total, ntables)
        if atom.ion[c] is not ion:
            raise Violation("c08:flood:lookup", "%s: atom.ion[c] is now another object" % where, case)
        for how, fn in (("pickle", lambda x: pickle.loads(pickle.dumps(x))), ("deepcopy", copy.deepcopy), ("copy", copy.copy)):
            if fn(ion) is not ion:
                raise Violation("c08:flood:" + how, "%s: %s gives another object" % (where, how), case)
        if ion.charge != c or (ion.element if not hasattr(atom, "isotope") else ion.element) is None:
            raise Violation("c08:flood:attributes", "%s: charge %r" % (where, ion.charge), case)


def task_flood(ctx, tables):
    ctx.check(check_flood, {"kind": "flood", "tables": tables})


def tasks(tier):
    out = [("ion-flood", task_flood, dict(tables=20 if tier == "quick" else 40)),
           ("sweep-public", task_sweep, dict(cfg="public")),
           ("sweep-public-loaded", task_sweep, dict(cfg="public-loaded")),
           ("sweep-private-a", task_sweep, dict(cfg="private-a")),
           ("sweep-private-b", task_sweep, dict(cfg="private-b")),
           ("sweep-bare", task_sweep, dict(cfg="bare")),
           ("invalid-public", task_invalid, dict(cfg="public")),
           ("invalid-private-a", task_invalid, dict(cfg="private-a")),
           ("invalid-private-b", task_invalid, dict(cfg="private-b"))]
    out += [("growth-" + v, task_growth, dict(variant=v)) for v in GROWTH_VARIANTS]
    out += [("dropped-" + v, task_dropped, dict(variant=v)) for v in DROP_VARIANTS]
    out += [("define-elements", task_exports, {})]
    if tier == "quick":
        out += [("machine-%d" % k, task_machine, dict(n=300, preimport=bool(k % 2))) for k in range(4)]
    else:
        out += [("machine-%d" % k, task_machine, dict(n=2500, preimport=bool(k % 2))) for k in range(12)]
    return out


def replay(ctx, case):
    kind = case["kind"]
    if kind == "flood":
        return check_flood(ctx, case)
    if kind == "machine":
        check_machine(ctx, [case["atoms"], case["ops"]])
        return
    if kind == "export":
        export_history(case["order"], case["start"], lambda b, m: ctx.violation(b, m, case))
        return
    if kind == "dropped":
        dropped_history(case["variant"], lambda b, m: ctx.violation(b, m, case))
        return
    if kind == "growth":
        growth_history(case["variant"], lambda b, m: ctx.violation(b, m, case))
        return
    if kind == "after-load":
        T = table("public")
        x = canonical(T, tuple(case["key"]))
        _touch_public()
        if canonical(T, tuple(case["key"])) is not x:
            raise Violation("c08:identity:after-lazy-load:" + key_class(tuple(case["key"])), "object changed", case)
        return
    cfg = case.get("config", "public")
    T = table(cfg)
    if kind == "atom":
        for b, m in check_atom(T, cfg, tuple(case["key"]), table(OTHER[cfg]), OTHER[cfg]):
            ctx.violation(b, m, case)
    elif kind == "iter":
        for b, m in check_iteration(T, cfg):
            ctx.violation(b, m, case)
    elif kind == "invalid":
        for k, desc, thunk, c in invalid_keys(T):
            if c["bad"] == case["bad"] and c["how"] == case["how"] and c["arg"] == case["arg"]:
                try:
                    got = thunk()
                except Exception:  # noqa
                    continue
                ctx.violation("c08:invalid-accepted:" + k, "%s: %s returned %r instead of raising" % (cfg, desc, got), case)
    elif kind == "invalid-state":
        task_invalid(ctx, cfg)
    else:
        raise ValueError("unknown case kind %r" % kind)
