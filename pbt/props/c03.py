"""
C03 - neutron SLD, cross sections and penetration depth follow the documented
equations.

The oracle is pbt/refcalc_neutron.py: the equations of the neutron_scattering
docstring in plain Python complex arithmetic on the served per-atom fields and
on the rows of nsf_tables.ENERGY_DEPENDENT_TABLES (own energy->wavelength
conversion, own interpolation and end clamping).
"""
from hypothesis import strategies as st

from ..runner import Violation
from ..guards import unchanged
from .. import neutron_c03 as ng
from ..refcalc_neutron import OUTPUTS

PROPERTY = "C03"
RULE = ("compounds: Hypothesis draws a flat {atom: count} dict (1-8 distinct atoms, counts 1e-3..1e3) or a derivation "
        "tree rendered to a string, over the 363 atoms with neutron data and their ions (the 15 energy dependent "
        "atoms and their ions are 5/17 of the atom draws), density in (0, 25] as density=, natural_density= or "
        "@ tag (log-uniform down to 1e-12 g/cm^3 with a share of the extreme tail), dict counts optionally times a "
        "common factor 1e-12..1e12, wavelength in [0.05, 50] A (half of them inside the tabulated range, table nodes "
        "included) as Python float/int, np.float32/float64/int64 scalar, 0-d array, list, tuple, 1-D or 2-D float "
        "array, or integer-valued list/tuple/int32/int64 array (whole A or whole meV; judged at the float values), as "
        "wavelength= or the equivalent energy=; oracle = documented "
        "equations evaluated by pbt/refcalc_neutron.py, all seven outputs at rel 1e-10 plus an absolute floor of "
        "1e-13 x operand scale (incoherent terms compared as sigma_i with floor 1e-13 x (sigma_s + 2 sigma_c scale)); "
        "non-trivial = >= 2 distinct atoms and (energy dependent atom with an ordinary one, or an ion/isotope, or a "
        "vector wavelength, or natural_density); distinct by (compound, density, wavelength) arguments. Each compound is "
        "then evaluated again with the same wavelength/energy object at a second density and, for lists/arrays, again "
        "after that object was overwritten in place with other generated wavelengths (every call judged by the "
        "reference; arguments must not be modified by the library; arrays returned by earlier calls must stay as returned "
        "and must not share memory with later results or the caller's arrays). "
        "sweeps: every atom with data x 6 wavelengths through atom.neutron.scattering/.sld and the one-atom "
        "compound; every tabulated atom at every node, every interval midpoint and beyond both ends; "
        "both given: for neutron_scattering and neutron_sld (whose docstrings say 'if energy is specified then wavelength "
        "is ignored') energy= together with an independent, equal, scalar or same-shape vector wavelength= is judged at "
        "the energy's wavelength with the energy's shape. "
        "formula objects: the compound handed over as a Formula object - without density, with a preset density "
        "(density=/natural_density= at construction, '@' tag, attribute assignment), a single-atom formula with the "
        "auto-filled density, a mix_by_weight/mix_by_volume mixture (composition and density as served) - called with "
        "density=, natural_density= or no density keyword; the reference is evaluated at the density that applies, a "
        "missing density must raise AssertionError, and (structure, density, name) of the object must be unchanged. "
        "private table: one private PeriodicTable per process, customised as in guide/customizing.rst (masses and "
        "densities rescaled to H[1] = 1, b_c of 8 atoms x 1.5); compounds of ITS atoms as {atom: n} dict, Formula object "
        "(with or without own density), Formula.neutron_sld(), bare atom, atom.neutron.scattering/.sld - all without "
        "table= - and as string with table=T; reference from that table's masses and neutron records; the public "
        "table's answer for the same compound is identical before and after and follows the public reference. "
        "no-data: a generated compound plus one atom without b_c must give exactly (None, None, None).")
ASSUMPTIONS = [
    "per-atom b_c, absorption, total and mass are the served fields (C06/C07 tie them to the raw tables); ion mass "
    "= atom mass - charge x electron mass",
    "'interpolated' is read as linear between adjacent table nodes in wavelength or in energy (documentation is "
    "silent); the axis is detected once per process on Gd-157 and then required everywhere",
    "natural Lu = (b(Lu-175) x abundance + table(Lu-176) x abundance)/100 with the isotope-table abundances "
    "(the repository test test_energy_dependent pins these numbers)",
    "sigma_i = max(sigma_s - sigma_c, 0): the documented difference, clipped because C04 says it is never negative",
    "Ra and Ra-226 (b_c tabulated, no element density) are neither 'with' nor 'without' neutron data: not generated",
    "a np.float32 wavelength/energy scalar is judged at its float32 value with rel 1e-6 (numpy keeps float32 in the "
    "outputs proportional to it); with an energy dependent atom the library may in addition evaluate the table "
    "anywhere within 5e-7 (relative) of the exact wavelength (float32 conversion), so an output is accepted inside "
    "the range of the reference over that interval widened by 1e-6 x (|value| + operand scale); all other argument "
    "types at rel 1e-10",
    "a private table customised by assigning b_c and b_c_complex of an atom together is a legitimate table",
    "a density= / natural_density= keyword is the mass density of the calculation (parameter list of the "
    "neutron_scattering docstring) and therefore replaces a density stored on a Formula object passed as compound; "
    "with no keyword the object's own density applies; the docstring's ':Raises: AssertionError: density is missing' "
    "covers an object without density",
    "outputs must have the shape of the wavelength/energy argument (docstring: 'vectors if wavelength is a vector')",
]
EXHAUSTIVE = True
EXHAUSTIVE_NOTE = ("the atom-route sweep covers every element/isotope with neutron data; the table sweep covers every "
                   "node and interval of every energy dependent table; compounds are sampled")

SWEEP_WAVELENGTHS = [0.05, 0.5, 1.798, 4.75, 12.0, 50.0]


# ----------------------------------------------------------------------
def check_compound(ctx, v):
    E = ng.env()
    pt = E["pt"]
    obj, comp, specs, route = ng.build_compound(v["comp"])
    obj, dkw, rho = ng.build_density(v["dens"], obj, comp)
    wkw, lams, shape = ng.build_wavelength(v["wl"])
    edep = ng.has_edep(comp)
    nt = len(comp) >= 2 and ((edep and any(not E["ref"].is_tabulated(z, a) for z, a, c in comp))
                             or any(a or c for z, a, c in comp) or shape != ()
                             or v["dens"][0] in ("natural_density", "tag:n"))
    dcls = v["dens"][0] if (route == "string" or not v["dens"][0].startswith("tag")) else "density"
    cls = ng.comp_classes(specs, comp) + ["route:" + route, "density:" + dcls,
                                          "wl:" + v["wl"]["form"], "by:" + v["wl"]["by"]]
    inside = [l for l in lams if 0.33 < l < 9.0]
    cls.append("lambda:in-table-range" if inside else "lambda:clamped-only")
    desc = {"compound": ng.describe(v["comp"]) if route == "dict" else obj, "density": dkw, "wavelength": v["wl"]}
    ctx.case((str(desc),), nontrivial=nt, sample=desc, cls=cls)
    case = dict(v, kind="compound")
    kw = dict(dkw)
    kw.update(wkw)
    with unchanged("c03", case, compound=obj if isinstance(obj, dict) else None, **kw):
        got = ng.flatten(pt.neutron_scattering(obj, **kw))
    for o in OUTPUTS:
        ng.check_shape("c03:compound", o, got[o], shape, case)
    rel = ng.wl_rel(v["wl"]["form"])
    ng.compare_outputs("c03:compound", got, comp, rho, lams, case, "edep" if edep else "ordinary", rel=rel)
    # neutron_sld is the first element of the same calculation
    sld = pt.neutron_sld(obj, **kw)
    for o, s in zip(OUTPUTS[:3], sld):
        ng.check_shape("c03:neutron_sld", o, s, shape, case)
    ng.compare_outputs("c03:neutron_sld", dict(zip(OUTPUTS[:3], sld)), comp, rho, lams, case,
                       "edep" if edep else "ordinary", outputs=OUTPUTS[:3], rel=rel)
    keep = ng.Retained("c03", case, foreign=list(wkw.items()))
    keep.add("neutron_scattering", [(o, got[o]) for o in OUTPUTS])
    keep.add("neutron_sld", list(zip(OUTPUTS[:3], sld)))
    both_given(ctx, v, case, comp, edep)
    repeat_calls(ctx, v, case, comp, shape, wkw, edep, keep)
    keep.verify("at the end of the sequence of calls")


def both_given(ctx, v, case, comp, edep):
    """neutron_scattering and neutron_sld document 'If energy is specified then wavelength is ignored':
    with BOTH energy= and an unrelated (or the equivalent) wavelength= the result is the one of the
    energy's wavelength and has the energy argument's shape.  (Formula.neutron_sld, D2O_sld/D2O_match
    and neutron_composite_sld state no precedence: not generated for them.)"""
    b = v.get("both")
    if not b:
        return
    E = ng.env()
    pt, np, R = E["pt"], E["np"], E["ref"]
    w = v["wl"]
    form = w["form"]
    vals, lams = ng.wl_values(form, "energy", list(w["lams"])[:1] if form in ng.SCALAR_FORMS else list(w["lams"]))
    earg, shape = ng.wl_object(form, vals, w.get("shape"))
    n = len(vals)
    other = [b["lams"][i % len(b["lams"])] for i in range(max(n, 1))]
    if b["wform"] == "equal":
        other = list(lams)
    if b["wform"] == "scalar":
        warg = other[0]
    elif shape == ():
        warg = list(b["lams"]) if b["wform"] == "vector" else other[0]      # vector wavelength, scalar energy
    else:
        warg = np.array(other, dtype=float).reshape(shape)
    obj0 = ng.build_compound(v["comp"])[0]
    rho = v["rho2"]
    tag = "edep" if edep else "ordinary"
    rel = ng.wl_rel(form)
    ctx.count("both-given:" + b["wform"] + (":energy-vector" if shape != () else ":energy-scalar"))
    with unchanged("c03", case, compound=obj0 if isinstance(obj0, dict) else None, energy=earg, wavelength=warg):
        got = ng.flatten(pt.neutron_scattering(obj0, density=rho, energy=earg, wavelength=warg))
    for o in OUTPUTS:
        ng.check_shape("c03:energy-and-wavelength", o, got[o], shape, case)
    ng.compare_outputs("c03:energy-and-wavelength", got, comp, rho, lams, case, tag, rel=rel)
    sld = pt.neutron_sld(obj0, density=rho, wavelength=warg, energy=earg)
    for o, x in zip(OUTPUTS[:3], sld):
        ng.check_shape("c03:energy-and-wavelength:neutron_sld", o, x, shape, case)
    ng.compare_outputs("c03:energy-and-wavelength:neutron_sld", dict(zip(OUTPUTS[:3], sld)), comp, rho, lams, case, tag,
                       outputs=OUTPUTS[:3], rel=rel)


def repeat_calls(ctx, v, case, comp, shape, wkw, edep, keep=None):
    """The result of a call must not depend on the calls before it: the same compound and the SAME
    wavelength/energy object again at another density, then once more after the caller modified
    that list/array in place to other wavelengths.  Every call is judged by the reference."""
    E = ng.env()
    pt, np, R = E["pt"], E["np"], E["ref"]
    if "rho2" not in v:
        return
    tag = "edep" if edep else "ordinary"
    obj0 = ng.build_compound(v["comp"])[0]
    how, arg = list(wkw.items())[0]
    lams_now = ng.build_wavelength(v["wl"])[1]
    rho2 = v["rho2"]
    rel = ng.wl_rel(v["wl"]["form"])
    ctx.count("repeat:" + ("vector" if shape != () else "scalar"))
    with unchanged("c03", case, compound=obj0 if isinstance(obj0, dict) else None, **wkw):
        got = ng.flatten(pt.neutron_scattering(obj0, density=rho2, **wkw))
    if keep is not None:
        keep.add("repeated call 1", [(o, got[o]) for o in OUTPUTS])
    for o in OUTPUTS:
        ng.check_shape("c03:repeat", o, got[o], shape, case)
    ng.compare_outputs("c03:repeat:other-density", got, comp, rho2, lams_now, case, tag, rel=rel)
    if shape == () or not v.get("lams2") or isinstance(arg, tuple):
        return
    # the caller reuses its list / array for other wavelengths
    n = len(lams_now)
    lams2 = [v["lams2"][i % len(v["lams2"])] for i in range(n)]
    vals, ref_l = ng.wl_values(v["wl"]["form"], how, lams2)      # whole numbers for the integer forms
    if isinstance(arg, list):
        arg[:] = vals
    else:
        arg.reshape(-1)[:] = vals
    ctx.count("repeat:in-place-" + ("list" if isinstance(arg, list) else "array"))
    with unchanged("c03", case, **wkw):
        got = ng.flatten(pt.neutron_scattering(obj0, density=rho2, **wkw))
    if keep is not None:
        keep.add("repeated call 2", [(o, got[o]) for o in OUTPUTS])
    for o in OUTPUTS:
        ng.check_shape("c03:repeat", o, got[o], shape, case)
    ng.compare_outputs("c03:repeat:wavelengths-changed-in-place", got, comp, rho2, ref_l, case, tag)
    with unchanged("c03", case, **wkw):
        got = ng.flatten(pt.neutron_scattering(obj0, density=v["dens"][1], **wkw))
    ng.compare_outputs("c03:repeat:wavelengths-changed-in-place", got, comp, v["dens"][1], ref_l, case, tag)


# ----------------------------------------------------------------------
# the compound handed over as a Formula object
def _snapshot(f):
    return (f.structure, f.density, f.name)


def build_formula_object(v):
    """(Formula object, composition {(Z,A,c): n}, specs, own density the reference expects
    (None = no density), class label).  v["comp"] is a dict/tree compound, a single atom
    or a mixture; v["preset"] says how the object got a density of its own."""
    E = ng.env()
    pt, R, T = E["pt"], E["ref"], E["table"]
    c = v["comp"]
    name = v.get("name")
    if c["kind"] == "atom":
        # single-atom formula: the density is filled in from the element / isotope
        atom = ng.resolve(T, c["spec"])
        key = ng.spec_key(E["pool"], c["spec"])
        n = c["n"]
        if c["via"] == "atom":
            f, n = pt.formula(atom, name=name), 1
        elif c["via"] == "string":
            f = pt.formula(ng._spec_str(c["spec"]) + (str(n) if n != 1 else ""), name=name)
        else:
            f = pt.formula({atom: n}, name=name)
        return f, {key: float(n)}, [c["spec"]], atom.density, "single-atom:" + c["via"]
    if c["kind"] == "mix":
        from periodictable.formulas import mix_by_weight, mix_by_volume
        from ..atoms import atom_key
        args, specs = [], []
        for part, rho_i, q in c["parts"]:
            obj, comp, sp, route = ng.build_compound(part)
            args += [pt.formula(obj, density=rho_i), q]
            specs += sp
        kw = {}
        if c["mixdens"] is not None:
            kw[c["mixdens"][0]] = c["mixdens"][1]
        f = (mix_by_weight if c["how"] == "weight" else mix_by_volume)(*args, **kw)
        if name:
            f.name = name
        # the mixture is taken as it is served (composition and density of mixtures belong to C11)
        comp = dict((atom_key(a), float(n)) for a, n in f.atoms.items())
        return f, comp, specs, f.density, "mixture:" + c["how"]
    obj, comp, specs, route = ng.build_compound(c)
    how = v["preset"][0]
    rp = v["preset"][1] if len(v["preset"]) > 1 else None
    if how == "none":
        f, own = pt.formula(obj, name=name), None
        if len(comp) == 1:
            own = f.density          # one distinct atom: auto-filled by the library (its rule belongs to C12)
    elif how == "density-kw":
        f, own = pt.formula(obj, density=rp, name=name), rp
    elif how == "natural-kw":
        f, own = pt.formula(obj, natural_density=rp, name=name), R.density_from_natural(comp, rp)
    elif how.startswith("tag") and isinstance(obj, str):
        suffix = how.split(":")[1]
        f = pt.formula(obj + "@" + ("%.3f" % rp) + suffix, name=name)
        own = R.density_from_natural(comp, rp) if suffix == "n" else rp
    elif how == "attr-natural":
        f = pt.formula(obj, name=name)
        f.natural_density = rp
        own = R.density_from_natural(comp, rp)
    else:                                              # "attr", or a tag on a dict
        f = pt.formula(obj, name=name)
        f.density = rp
        own = rp
    return f, comp, specs, own, "preset:" + how.split(":")[0] + ":" + route


def check_formula_object(ctx, v):
    """neutron_scattering / neutron_sld on a Formula object: a density= or natural_density= keyword
    states the density of the calculation (it replaces the one stored on the object); without a
    keyword the object's own density applies; without any density the call raises AssertionError.
    The object is not modified."""
    E = ng.env()
    pt, R = E["pt"], E["ref"]
    f, comp, specs, own, label = build_formula_object(v)
    wkw, lams, shape = ng.build_wavelength(v["wl"])
    call = v["call"]
    if call[0] == "density":
        kw, rho = {"density": call[1]}, call[1]
    elif call[0] == "natural_density":
        kw, rho = {"natural_density": call[1]}, R.density_from_natural(comp, call[1])
    else:
        kw, rho = {}, own
    edep = ng.has_edep(comp)
    tag = "edep" if edep else "ordinary"
    cls = ng.comp_classes(specs, comp) + ["fobj:" + label, "fobj-call:" + call[0],
                                          "fobj-own-density:" + ("none" if own is None else "set"),
                                          "wl:" + v["wl"]["form"], "by:" + v["wl"]["by"]]
    desc = {"formula": str(f), "own density": own, "call": call, "how": label, "wavelength": v["wl"]}
    ctx.case((str(desc),), nontrivial=(own is not None and call[0] != "none") or len(comp) >= 2, sample=desc, cls=cls)
    case = dict(v, kind="formula-object")
    if own is not None and f.density is not None and not abs(f.density - own) <= 1e-12 * abs(own) \
            and v["comp"]["kind"] not in ("mix",):
        raise Violation("c03:formula-object:construction", "%s: density of the object is %r, expected %r"
                        % (label, f.density, own), case)
    before = _snapshot(f)
    kw.update(wkw)
    if rho is None:
        try:
            got = pt.neutron_scattering(f, **kw)
        except AssertionError:
            return
        raise Violation("c03:formula-object:missing-density-accepted",
                        "%s has no density and none was given, but neutron_scattering returned %r" % (f, got), case)
    rel = ng.wl_rel(v["wl"]["form"])
    with unchanged("c03", case, **wkw):
        got = ng.flatten(pt.neutron_scattering(f, **kw))
    for o in OUTPUTS:
        ng.check_shape("c03:formula-object", o, got[o], shape, case)
    ng.compare_outputs("c03:formula-object:%s:%s" % (label.split(":")[0], call[0]), got, comp, rho, lams, case, tag, rel=rel)
    sld = pt.neutron_sld(f, **kw)
    ng.compare_outputs("c03:formula-object:neutron_sld:%s:%s" % (label.split(":")[0], call[0]),
                       dict(zip(OUTPUTS[:3], sld)), comp, rho, lams, case, tag, outputs=OUTPUTS[:3], rel=rel)
    after = _snapshot(f)
    if not (after[0] == before[0] and after[1] == before[1] and after[2] == before[2]):
        raise Violation("c03:formula-object:modified", "the Formula object passed as compound changed: "
                        "(structure, density, name) %r -> %r" % (before, after), case)


# ----------------------------------------------------------------------
# compounds of a private, customised table
PRIVATE_ROUTES = {"dict": ["dict", "formula-object", "formula-own-density", "method"],
                  "tree": ["string-table", "formula-object", "formula-own-density", "method"],
                  "atom": ["atom", "atom-route"]}


def check_private(ctx, v):
    """A compound made of the atoms of a private table (masses rescaled to H[1] = 1, some b_c changed)
    is calculated from THAT table's masses and neutron data, whether it arrives as {atom: n} dict,
    Formula object, bare atom, Formula.neutron_sld() or as a string with table=T; the public table
    gives the same answers before and afterwards."""
    E, P = ng.env(), ng.penv()
    pt, np, T, RT = E["pt"], E["np"], P["table"], P["ref"]
    c = v["comp"]
    kind = c["kind"]
    routes = PRIVATE_ROUTES[kind]
    route = routes[v["route"] % len(routes)]
    wkw, lams, shape = ng.build_wavelength(v["wl"])
    rel = ng.wl_rel(v["wl"]["form"])
    how, rho_arg = v["dens"]
    if kind == "atom":
        t_atom, p_atom = ng.resolve(T, c["spec"]), ng.resolve(E["table"], c["spec"])
        comp, specs = {ng.spec_key(E["pool"], c["spec"]): 1.0}, [c["spec"]]
        pub_obj, desc_c = p_atom, str(t_atom)
    else:
        obj, comp, specs, _ = ng.build_compound(c, table=T)
        pub_obj = ng.build_compound(c)[0]
        desc_c = ng.describe(c)
    dkw = {how: rho_arg}
    rho = rho_arg if how == "density" else RT.density_from_natural(comp, rho_arg)
    edep = ng.has_edep(comp)
    tag = "edep" if edep else "ordinary"
    custom = any((z, a) in [(T.symbol(sym).number, aa) for sym, aa in ng.CUSTOM_BC] for z, a, ch in comp)
    desc = {"compound": desc_c, "route": route, "density": dkw, "wavelength": v["wl"]}
    ctx.case((str(desc),), nontrivial=True, sample=desc,
             cls=ng.comp_classes(specs, comp) + ["private:" + route, "private:custom-b_c:" + str(custom), "wl:" + v["wl"]["form"]])
    case = dict(v, kind="private")
    pub_kw = {} if kind == "atom" else {"density": 1.0 + rho_arg}
    pub_before = ng.flatten(pt.neutron_scattering(pub_obj, wavelength=lams[0], **pub_kw))

    prefix = "c03:private:" + route
    full = None
    if route == "dict":
        full = pt.neutron_scattering(obj, **dict(dkw, **wkw))
        sld = pt.neutron_sld(obj, **dict(dkw, **wkw))
    elif route == "string-table":
        full = pt.neutron_scattering(obj, table=T, **dict(dkw, **wkw))
        sld = pt.neutron_sld(obj, table=T, **dict(dkw, **wkw))
    elif route == "formula-object":
        f = pt.formula(obj, table=T)
        full = pt.neutron_scattering(f, **dict(dkw, **wkw))
        sld = pt.neutron_sld(f, **dict(dkw, **wkw))
    elif route == "formula-own-density":
        f = pt.formula(obj, table=T, **dkw)
        full = pt.neutron_scattering(f, **wkw)
        sld = pt.neutron_sld(f, **wkw)
    elif route == "method":
        f = pt.formula(obj, table=T, **dkw)
        sld = f.neutron_sld(**wkw)
    elif route == "atom":
        rho = t_atom.density
        full = pt.neutron_scattering(t_atom, **wkw)
        sld = pt.neutron_sld(t_atom, **wkw)
    else:                                               # the element / isotope queried directly
        rho = t_atom.density
        wl_only = {"wavelength": wkw["wavelength"]} if "wavelength" in wkw else \
            {"wavelength": E["nsf"].neutron_wavelength(wkw["energy"])}
        full = t_atom.neutron.scattering(**wl_only)
        sld = t_atom.neutron.sld(**wl_only)
    if full is not None:
        got = ng.flatten(full)
        for o in OUTPUTS:
            ng.check_shape(prefix, o, got[o], shape, case)
        ng.compare_outputs(prefix, got, comp, rho, lams, case, tag, rel=rel, ref=RT)
    if sld is None or any(x is None for x in sld):
        raise Violation(prefix + ":none", "sld = %r for a compound whose atoms all have neutron data" % (sld,), case)
    ng.compare_outputs(prefix + ":sld", dict(zip(OUTPUTS[:3], sld)), comp, rho, lams, case, tag,
                       outputs=OUTPUTS[:3], rel=rel, ref=RT)

    # a call that is rejected (and whose exception the caller catches) leaves nothing behind
    rej = v.get("rej")
    if rej is not None:
        bad, where = rej
        try:
            if where == "private":
                pt.neutron_scattering(bad, table=T, density=1.0)
            else:
                pt.neutron_scattering(bad, density=1.0)
        except Exception:  # noqa  (any exception is a rejection)
            pass
        else:
            raise Violation("c03:accepted-malformed", "neutron_scattering(%r) did not raise" % (bad,), case)
        ctx.count("rejected-call-before-public:" + where)
    # the public table still gives its own answers
    pub_after = ng.flatten(pt.neutron_scattering(pub_obj, wavelength=lams[0], **pub_kw))
    for o in OUTPUTS:
        if not float(pub_before[o]) == float(pub_after[o]):
            raise Violation("c03:private:public-changed", "public %s of %s was %r before and %r after the private-table "
                            "calculation" % (o, desc_c, pub_before[o], pub_after[o]), case)
    pub_rho = pub_obj.density if kind == "atom" else pub_kw["density"]
    ng.compare_outputs("c03:private:public", pub_after, comp, pub_rho, lams[:1], case, tag)


def check_nodata(ctx, v):
    E = ng.env()
    pt = E["pt"]
    c = dict(v["comp"])
    bad = v["bad"]
    if c["kind"] == "dict":
        c = {"kind": "dict", "atoms": c["atoms"] + [[bad, v["n"]]]}
    else:
        t = dict(c["tree"])
        t["g"] = t["g"] + [["i", None, [["a", bad, False, None]]]]
        t["s"] = t["s"] + ["+"]
        c = {"kind": "tree", "tree": t}
    obj, comp, specs, route = ng.build_compound(c)
    wkw, lams, shape = ng.build_wavelength(v["wl"])
    kw = {"density": v["density"]}
    kw.update(wkw)
    desc = {"compound": ng.describe(c), "without-data": bad}
    ctx.case((str(desc), str(kw)), nontrivial=True, sample=desc,
             cls=["nodata:" + ("isotope" if bad[1] else "element"), "route:" + route, "wl:" + v["wl"]["form"]])
    case = dict(v, kind="nodata")
    got = pt.neutron_scattering(obj, **kw)
    if not (isinstance(got, tuple) and len(got) == 3 and all(g is None for g in got)):
        raise Violation("c03:nodata:compound", "%s contains %r (no neutron data) but neutron_scattering returned %r"
                        % (ng.describe(c), bad, got), case)


def check_atom_route(ctx, spec):
    """atom.neutron.scattering / .sld against the equations at the atom's own density,
    and against the one-atom compound."""
    E = ng.env()
    pt, np, R = E["pt"], E["np"], E["ref"]
    atom = ng.resolve(E["table"], spec)
    key = ng.spec_key(E["pool"], spec)
    comp = {key: 1.0}
    rho = atom.density
    tab = R.is_tabulated(key[0], key[1])
    tag = "edep" if tab else "ordinary"
    case = {"kind": "atom", "spec": spec}
    ctx.case(("atom", tuple(spec)), nontrivial=True, sample={"atom": str(atom), "density": rho},
             cls=["sweep:atom-route", "sweep:" + ("tabulated" if tab else "isotope" if spec[1] else "element")])
    lams = list(SWEEP_WAVELENGTHS)
    if tab:
        nodes = R.node_wavelengths(key[0], key[1])
        lams += [0.5 * (nodes[3] + nodes[4]), nodes[7]]
    for lam in lams:
        got = ng.flatten(atom.neutron.scattering(wavelength=lam))
        for o in OUTPUTS:
            ng.check_shape("c03:atom-route", o, got[o], (), case)
        ng.compare_outputs("c03:atom-route:scattering", got, comp, rho, [lam], case, tag)
        sld = dict(zip(OUTPUTS[:3], atom.neutron.sld(wavelength=lam)))
        ng.compare_outputs("c03:atom-route:sld", sld, comp, rho, [lam], case, tag, outputs=OUTPUTS[:3])
        one = ng.flatten(pt.neutron_scattering(atom, wavelength=lam))
        ng.compare_outputs("c03:one-atom-compound", one, comp, rho, [lam], case, tag)
    # vector call and default wavelength
    got = ng.flatten(atom.neutron.scattering(wavelength=lams))
    for o in OUTPUTS:
        ng.check_shape("c03:atom-route", o, got[o], (len(lams),), case)
    ng.compare_outputs("c03:atom-route:scattering", got, comp, rho, lams, case, tag)
    got = ng.flatten(atom.neutron.scattering())
    ng.compare_outputs("c03:atom-route:default-wavelength", got, comp, rho, [1.798], case, tag)
    sld = dict(zip(OUTPUTS[:3], atom.neutron.sld()))
    ng.compare_outputs("c03:atom-route:default-wavelength", sld, comp, rho, [1.798], case, tag, outputs=OUTPUTS[:3])
    got = ng.flatten(pt.neutron_scattering(atom))
    ng.compare_outputs("c03:compound:default-wavelength", got, comp, rho, [1.798], case, tag)
    # a LONG wavelength grid (6 000 points from well below to well above the tabulated range): entry i is what the
    # scalar call gives at wavelength i - judged by the reference at both ends, inside and outside the table
    if tab:
        long = np.linspace(0.05, 50.0, 6000)
        pick = [0, 1, 2, 7, 40, 300, 1500, 3000, 4500, 5900, 5998, 5999]
        for label, call in (("atom", lambda: atom.neutron.scattering(wavelength=long)),
                            ("compound", lambda: pt.neutron_scattering(atom, wavelength=long))):
            got = ng.flatten(call())
            for o in OUTPUTS:
                ng.check_shape("c03:long-grid:" + label, o, got[o], (len(long),), case)
            sub_ = dict((o, np.asarray(got[o])[pick]) for o in OUTPUTS)
            ng.compare_outputs("c03:long-grid:" + label, sub_, comp, rho, [float(long[i]) for i in pick], case, tag)
    # the neutron record itself, duplicated (copy / deepcopy / pickle round trip), answers like the original
    import copy
    import pickle
    import sys
    for how, dup in (("copy", copy.copy), ("deepcopy", copy.deepcopy), ("pickle", lambda x: pickle.loads(pickle.dumps(x)))):
        if how == "pickle" and type(atom.neutron) is not getattr(sys.modules.get("periodictable.nsf"), "Neutron", None):
            # the module was re-executed after the record was made (pbt/ambient.py 'reload'): pickling an instance of
            # the previous class object fails by Python's own rules, not the library's (a false alarm at seed 7)
            ctx.count("record-pickle:skipped-after-module-reload")
            continue
        try:
            rec = dup(atom.neutron)
        except Exception as e:  # noqa
            raise Violation("c03:record-%s:raises" % how, "%s of %s.neutron raised %s: %s" % (how, atom, type(e).__name__, e), case)
        got = ng.flatten(rec.scattering(wavelength=lams))
        ng.compare_outputs("c03:record-%s:scattering" % how, got, comp, rho, lams, case, tag)
        sld = dict(zip(OUTPUTS[:3], rec.sld(wavelength=lams[-1])))
        ng.compare_outputs("c03:record-%s:sld" % how, sld, comp, rho, [lams[-1]], case, tag, outputs=OUTPUTS[:3])


def check_table(ctx, spec):
    """One tabulated atom at every node, every midpoint (both axes) and beyond the ends."""
    E = ng.env()
    pt, np, R = E["pt"], E["np"], E["ref"]
    atom = ng.resolve(E["table"], spec)
    key = ng.spec_key(E["pool"], spec)
    nodes = R.node_wavelengths(key[0], key[1])           # descending wavelength
    lams = list(nodes)
    for a, b in zip(nodes[:-1], nodes[1:]):
        lams.append(0.5 * (a + b))
        lams.append(R.wavelength(0.5 * (R.energy(a) + R.energy(b))))
        lams.append(a + 0.9 * (b - a))
    lams += [nodes[0] * 1.0001, nodes[0] * 2, 50.0, nodes[-1] * 0.9999, nodes[-1] / 2, 0.05]
    case = {"kind": "table", "spec": spec}
    ctx.case(("table", tuple(spec)), nontrivial=True, sample={"atom": str(atom), "points": len(lams)},
             cls=["sweep:table"])
    ctx.count("sweep:table-points", len(lams))
    comp = {key: 1.0}
    for form in ("wavelength", "energy"):
        arg = np.array(lams) if form == "wavelength" else np.array([R.energy(l) for l in lams])
        ll = lams if form == "wavelength" else [R.wavelength(e) for e in arg]
        got = ng.flatten(pt.neutron_scattering({atom: 1}, density=5.0, **{form: arg}))
        ng.compare_outputs("c03:table:" + form, got, comp, 5.0, ll, case, "edep")
    # mixed with an ordinary atom (the weighted sums see array and scalar terms)
    O = E["table"].O
    comp2 = {key: 2.0, (O.number, 0, 0): 3.0}
    got = ng.flatten(pt.neutron_scattering({atom: 2, O: 3}, density=7.0, wavelength=lams))
    ng.compare_outputs("c03:table:mixed", got, comp2, 7.0, lams, case, "edep")


# ----------------------------------------------------------------------
def strat_compound(depth, forms=None):
    kw = {} if forms is None else {"forms": forms}
    return st.fixed_dictionaries({"comp": ng.compound(depth), "dens": ng.density_arg(), "wl": ng.wavelength_arg(**kw),
                                  "rho2": ng.density_value(),
                                  "lams2": st.lists(ng.one_wavelength(), min_size=1, max_size=6),
                                  "both": st.one_of(st.none(), st.fixed_dictionaries({
                                      "wform": st.sampled_from(["scalar", "vector", "vector", "equal"]),
                                      "lams": st.lists(ng.one_wavelength(), min_size=1, max_size=6)}))})


def task_compounds(ctx, n, depth=2):
    ng.env()
    ctx.extra["interpolation_axis"] = ng.env()["axis"]
    ctx.search("compounds", strat_compound(depth), check_compound, n)


def strat_formula_object():
    E = ng.env()
    rho = ng.density_value()
    ordinary = st.integers(1, 25000).map(lambda k: k / 1000.0)
    single = st.fixed_dictionaries({"kind": st.just("atom"), "spec": st.sampled_from(E["with_data"]),
                                    "n": st.sampled_from([1, 1, 2, 3, 7]),
                                    "via": st.sampled_from(["atom", "string", "dict"])})
    part = st.tuples(st.one_of(ng.flat_compound(max_atoms=3), ng.tree_compound(depth=1, max_groups=2, max_atoms=2)),
                     ordinary, st.one_of(st.integers(1, 9), st.floats(0.01, 50.0).map(lambda x: float("%.4g" % x)))).map(list)
    mix = st.fixed_dictionaries({"kind": st.just("mix"), "how": st.sampled_from(["weight", "volume"]),
                                 "parts": st.lists(part, min_size=2, max_size=3),
                                 "mixdens": st.one_of(st.none(), st.none(), st.tuples(st.just("density"), ordinary).map(list),
                                                      st.tuples(st.just("natural_density"), ordinary).map(list))})
    comp = st.one_of(ng.compound(1), ng.compound(2), ng.compound(1), single, mix)
    preset = st.one_of(st.tuples(st.just("none")), st.tuples(st.just("density-kw"), rho), st.tuples(st.just("density-kw"), rho),
                       st.tuples(st.just("natural-kw"), rho), st.tuples(st.sampled_from(["tag:", "tag:n", "tag:i"]), ordinary),
                       st.tuples(st.just("attr"), rho), st.tuples(st.just("attr-natural"), rho)).map(list)
    call = st.one_of(st.tuples(st.just("density"), rho), st.tuples(st.just("none")),
                     st.tuples(st.just("natural_density"), rho), st.tuples(st.just("natural_density"), rho),
                     st.tuples(st.just("density"), rho), st.tuples(st.just("none"))).map(list)
    return st.fixed_dictionaries({"comp": comp, "preset": preset, "call": call, "name": st.sampled_from([None, None, "sample"]),
                                  "wl": ng.wavelength_arg(max_len=4)})


def task_formula_objects(ctx, n):
    ng.env()
    ctx.search("formula-objects", strat_formula_object(), check_formula_object, n)


def strat_private():
    E = ng.env()
    single = st.fixed_dictionaries({"kind": st.just("atom"), "spec": st.sampled_from(E["with_data"])})
    dens = st.tuples(st.sampled_from(["density", "density", "natural_density"]), ng.density_value()).map(list)
    return st.fixed_dictionaries({"comp": st.one_of(ng.flat_compound(max_atoms=5), ng.tree_compound(depth=2), single),
                                  "route": st.integers(0, 11), "dens": dens, "wl": ng.wavelength_arg(max_len=4),
                                  "rej": st.one_of(st.none(), st.tuples(
                                      st.sampled_from(["Qq2O", "H2O)", "Fe[999]O", "Fe{9+}O", "H2O@", "(H2O", "H2 O3 Zz"]),
                                      st.sampled_from(["private", "private", "public"])).map(list))})


def task_private(ctx, n):
    ng.env()
    ng.penv()
    ctx.search("private-table", strat_private(), check_private, n)


def task_nodata(ctx, n):
    E = ng.env()
    nd = E["specs"]["nodata"]
    bad = st.one_of(st.sampled_from([x for x in nd if not x[1]]), st.sampled_from([x for x in nd if x[1]]),
                    st.sampled_from([x for x in nd if x[1]]))
    s = st.fixed_dictionaries({"comp": ng.compound(1), "bad": bad,
                               "n": st.integers(1, 5), "density": ng.density_value(),
                               "wl": ng.wavelength_arg(max_len=3)})
    ctx.search("nodata", s, check_nodata, n)
    # the atom route of every atom without data
    for spec in E["specs"]["nodata"]:
        atom = ng.resolve(E["table"], spec)
        ctx.case(("nodata-atom", tuple(spec)), nontrivial=True, cls=["nodata:atom-route"])
        for name, got in (("scattering", atom.neutron.scattering(wavelength=2.0)), ("sld", atom.neutron.sld(wavelength=2.0))):
            if not (isinstance(got, tuple) and len(got) == 3 and all(g is None for g in got)):
                ctx.violation("c03:nodata:atom-route", "%s.neutron.%s() returned %r" % (atom, name, got),
                              {"kind": "nodata-atom", "spec": spec})


def task_sweep_atoms(ctx, part, parts):
    E = ng.env()
    specs = E["with_data"]
    ctx.extra["atoms_with_data"] = len(specs)
    ctx.extra["tabulated_atoms"] = len(E["edep_neutral"])
    for i, spec in enumerate(specs):
        if i % parts == part:
            ctx.check(check_atom_route, spec)


def task_sweep_tables(ctx):
    E = ng.env()
    ctx.extra["interpolation_axis"] = E["axis"]
    for spec in E["edep_neutral"]:
        ctx.check(check_table, spec)


def tasks(tier):
    from .. import depth
    return _tasks(tier) + [("little-stack", depth.task, dict(prop=PROPERTY))]


def _tasks(tier):
    if tier == "quick":
        return [("compounds-a", task_compounds, dict(n=600, depth=2)),
                ("compounds-b", task_compounds, dict(n=600, depth=1)),
                ("compounds-c", task_compounds, dict(n=600, depth=2)),
                ("compounds-d", task_compounds, dict(n=600, depth=3)),
                ("compounds-e", task_compounds, dict(n=600, depth=1)),
                ("formula-objects", task_formula_objects, dict(n=600)),
                ("private-table", task_private, dict(n=600)),
                ("nodata", task_nodata, dict(n=300)),
                ("sweep-atoms-0", task_sweep_atoms, dict(part=0, parts=2)),
                ("sweep-atoms-1", task_sweep_atoms, dict(part=1, parts=2)),
                ("sweep-tables", task_sweep_tables, dict())]
    out = [("compounds-%d" % k, task_compounds, dict(n=12000, depth=1 + k % 3)) for k in range(13)]
    out += [("formula-objects-%d" % k, task_formula_objects, dict(n=12000)) for k in range(2)]
    out += [("private-table", task_private, dict(n=12000))]
    out += [("nodata", task_nodata, dict(n=5000)),
            ("sweep-atoms-0", task_sweep_atoms, dict(part=0, parts=1)),
            ("sweep-tables", task_sweep_tables, dict())]
    return out


def replay(ctx, case):
    if isinstance(case, dict) and case.get("kind") == "little-stack":
        from .. import depth
        return depth.check(ctx, case)
    k = case.get("kind")
    if k == "compound":
        check_compound(ctx, case)
    elif k == "nodata":
        check_nodata(ctx, case)
    elif k == "formula-object":
        check_formula_object(ctx, case)
    elif k == "private":
        check_private(ctx, case)
    elif k == "atom":
        check_atom_route(ctx, case["spec"])
    elif k == "table":
        check_table(ctx, case["spec"])
    elif k == "nodata-atom":
        atom = ng.resolve(ng.env()["table"], case["spec"])
        got = atom.neutron.scattering(wavelength=2.0)
        if not (isinstance(got, tuple) and all(g is None for g in got)):
            raise Violation("c03:nodata:atom-route", "%s returned %r" % (atom, got), case)
    else:
        raise ValueError(k)
