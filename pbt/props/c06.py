"""
C06 - mass, abundance and density of every nuclide are those of the embedded tables.

Exhaustive sweep of every row of mass.isotope_mass / element_mass /
isotope_abundance and density.element_densities (re-read from the module
*source text* by pbt/tables_c06.py), of every element and isotope not listed
in a table, in seven table configurations; plus a Hypothesis search over
strings in the documented uncertainty notations for util.parse_uncertainty.
"""
from .. import subtable
import decimal
from decimal import Decimal
from ..dec import HI, highprec

from hypothesis import strategies as st

from ..runner import Violation
from .. import tables_c06 as tb

PROPERTY = "C06"
EXHAUSTIVE = True
EXHAUSTIVE_NOTE = ("every row of isotope_mass (2939), element_mass (84), isotope_abundance (84 elements / 289 "
                   "isotopes) and element_densities (119), every element 0..118 and every isotope the table holds, "
                   "in each of the configurations public, private-only (public never read), private created after "
                   "public was read, a second private table, public re-read after the private tables, and public / a fresh "
                   "private table after a customised private table (changed _mass/_density) was read completely, and the reload "
                   "configurations (a private table and, in its own process, the public table: initialised, H=1-rescaled as "
                   "in the customizing guide with a few assigned abundances, then mass.init/density.init(reload=True): "
                   "the re-initialised table, and the other tables while it was customised, are swept completely); the "
                   "parse_uncertainty part is a generated search, not exhaustive")
RULE = ("sweep: one case per (configuration, clause, Z, A) where clause is one of isotope mass+uncertainty, "
        "element weight+uncertainty, abundance, abundance sum, weighted mass vs weight, element density, isotope "
        "density, number density/interatomic distance, the same quantities through the module-level functions "
        "mass.mass/abundance and density.density/number_density/interatomic_distance called directly with the "
        "element or isotope, and an ion / isotope-ion sample per element (attribute route); oracle = independent ast/regex/decimal reading of the table "
        "text in the source files; every row is non-trivial and distinct by (configuration, clause, Z, A). "
        "notation: Hypothesis draws a string in one of the documented notations val, val(unc), val(unc)#, "
        "val(u.nc), [nominal], [low,high], '' with digit counts drawn freely; oracle = decimal reading; "
        "non-trivial = val(unc) whose unc digit count differs from the number of decimals of val, or a [low,high] "
        "range; distinct by string.")
ASSUMPTIONS = [
    "interpreter modes: a reduced sweep (all clauses except the function-route and ion clauses, which need live "
    "objects) is run on the values dumped by a child interpreter started with -O, -OO, -W error::DeprecationWarning "
    "and -W error (public table, a private table, public again); table loading and attribute reads only, no formula "
    "parsing; the unchanged tree loads under all four, so a child that fails is c06:mode:<flags>:child-failed",
    "init(table, reload=flag): reload is a plain flag (documented default reload=False); the truthy values True, 1 and "
    "numpy.True_ all request a re-initialisation (each on its own customised table, which must then equal the embedded "
    "tables again), the falsy values False, 0, None, numpy.False_ and the default must leave a customised table as it is",
    "table rows are laid out by columns: a value cell is a blank-free token or a bracketed group, and blanks inside "
    "[low, high] do not change the interval it denotes; a cell that is in none of the documented notations is "
    "reported as c06:table:unreadable-cell together with what the library serves for it (the clauses that need it "
    "are skipped, the sweep goes on); a row that cannot be laid out is c06:table:unreadable-row",
    "the table text in periodictable/mass.py, density.py and the numeric literals of constants.py are the specification",
    "table values are compared bit-identically with float(<decimal text>); uncertainties of val(unc) likewise "
    "(unc in units of the last written decimal of val unless unc contains a point)",
    "[low,high]: value (l+h)/2 and uncertainty (h-l)/sqrt(12) compared with abs tolerance 4*2.2e-16*max(|l|,|h|) "
    "+ rel 1e-15 (the documented formula evaluated in doubles rounds each operand)",
    "abundance = 100*entry/sum(entries of the element) rel 1e-13; sum = 100 abs 1e-9; isotope density, number "
    "density rel 1e-13; n*d^3 = 1e24 rel 1e-12",
    "N_A is the literal avogadro_number of constants.py; the neutron (element 0, isotope 1) has the neutron_mass "
    "of constants.py, abundance 100 and unknown density",
    "function route: mass.mass(x), mass.abundance(isotope), density.density(x), density.number_density(x), "
    "density.interatomic_distance(x) for every element and isotope must agree with the attribute route (rel 1e-13) and "
    "with the oracle: n = rho*N_A/m with rho and m of that nuclide (isotope rho = element rho * m_iso/m_el, i.e. the "
    "isotope keeps the element's interatomic spacing), n*d^3 = 1e24, d(isotope) = d(element) rel 1e-13, None when the "
    "density is unknown. mass.abundance() is documented for isotopes only and is not called with elements",
    "ions: the module-level functions document Element/Isotope arguments only (density.density(ion), mass.mass(ion) "
    "ignore the charge on the unchanged tree), so for the ion / isotope-ion sample only the attribute route is judged: "
    "number_density and interatomic_distance equal the parent's",
    "the uncertainty of abundances (_abundance_unc) and the density caveat strings are not part of the property "
    "and are not judged",
    "uncertainty-notation strings are generated without exponents, blanks, or a leading/trailing bare point "
    "(the docstring excludes exponents; the tables contain none of the others)",
]

CONFIGS = ("public", "private-only", "private-after-public", "private-second", "public-after-private",
           "public-after-custom", "private-after-custom",
           "private-after-dropped", "public-after-dropped")     # plus the keys of RELOAD below

# Reload configurations "reload:<x>:<view>": table <x> (a private table, or the public table itself) is
# initialised, customised the way doc/sphinx/guide/customizing.rst does (H=1 rescaling of every el._mass,
# iso._mass, el._density; plus a few assigned abundances), then mass.init/density.init are called with every
# falsy reload flag (False, 0, None, numpy.False_: the customised values must survive), and finally it is
# re-initialised with mass.init(x, reload=<flag>) + density.init(x, reload=<flag>) where <flag> is the truthy value
# of that <x> (the parameter is a plain flag, "reload=False"; True, 1 and numpy.True_ all mean "reload").
# <view> says which table is looked at and when (stage required: 0 initialised, 1 customised, 2 falsy inits done,
# 3 reloaded; looked-at table: self / the other table)
XS = {"private": ("private", "True"), "private-int": ("private", "1"), "private-np": ("private", "numpy.True_"),
      "public": ("public", "True"), "public-np": ("public", "numpy.True_")}
RELOAD = {
    "reload:private:fresh": ("private", 0, "self"),
    "reload:private:public-while-customised": ("private", 1, "other"),
    "reload:private:second-private-while-customised": ("private", 1, "other2"),
    "reload:public:private-while-customised": ("public", 1, "other"),
    # a private table created and initialised (stock mass.init / density.init) WHILE the public table carries the
    # user's values: it is served from the embedded tables, not from whatever the public table holds at that moment
    "reload:public:new-private-while-customised": ("public", 1, "other2"),
    "reload:public:private-after-reload": ("public", 3, "other"),
}
CUSTOM_CONFIGS = set()                                                   # kind 'custom' cases only
for _x in XS:
    RELOAD["reload:%s:customised" % _x] = (_x, 1, "self")
    RELOAD["reload:%s:customised-after-falsy-init" % _x] = (_x, 2, "self")
    RELOAD["reload:%s:reloaded" % _x] = (_x, 3, "self")
    CUSTOM_CONFIGS.update(["reload:%s:customised" % _x, "reload:%s:customised-after-falsy-init" % _x])


def _flag(name):
    import numpy
    return {"True": True, "1": 1, "numpy.True_": numpy.True_}[name]


def _falsy():
    import numpy
    return [False, 0, None, numpy.False_]


CUSTOM_ABUNDANCE = {(1, 1): 50.0, (1, 2): 50.0, (43, 99): 100.0, (92, 235): 3.5, (92, 238): 96.5}

_O = {}
_ENV = {}
_RELOAD_STATE = {}


def reload_env(config):
    """Bring table <x> to the stage the configuration needs (stages only move forward) and return the table to look at."""
    import periodictable
    from periodictable import core, mass, density
    x, stage, view = RELOAD[config]
    st_ = _RELOAD_STATE.get(x)
    if st_ is None:
        pub = periodictable.elements
        if XS[x][0] == "private":
            t = subtable.new("c06-reload-" + x)
            mass.init(t)
            density.init(t)
            other = pub
        else:
            other = subtable.new("c06-beside-public")     # exists before the public table is customised
            mass.init(other)
            density.init(other)
            t = pub
        st_ = _RELOAD_STATE[x] = dict(stage=0, table=t, other=other, other2=None, scale=None)
    if stage < st_["stage"]:
        raise ValueError("configuration %s needs stage %d but table %s is already at stage %d" % (config, stage, x, st_["stage"]))
    t = st_["table"]
    if st_["stage"] < 1 <= stage:
        for el in t:                                              # every value is read once before customising
            _ = (el.mass, el.density, el.number_density, el.interatomic_distance,
                 [(i.mass, i.abundance, i.density) for i in el])
        scale = t[1][1].mass
        for el in t:
            el._mass /= scale
            el._mass_unc /= scale
            if getattr(el, "_density", None) is not None:
                el._density /= scale
            for iso in el:
                iso._mass /= scale
                iso._mass_unc /= scale
        for (z, a), v in CUSTOM_ABUNDANCE.items():
            t[z][a]._abundance = v
        st_["scale"] = scale
        st_["stage"] = 1
        if True:
            t2 = subtable.new("c06-reload-second-" + x)     # initialised while the first (private OR public) is customised
            mass.init(t2)
            density.init(t2)
            st_["other2"] = t2
    if st_["stage"] < 2 <= stage:
        for f in _falsy():                                        # "do not reload": nothing may be re-read
            mass.init(t, reload=f)
            density.init(t, reload=f)
        mass.init(t)
        density.init(t)
        st_["stage"] = 2
    if st_["stage"] < 3 <= stage:
        for el in t:                                              # the customised values are served and read first
            _ = (el.mass, el.density, el.number_density, [(i.mass, i.abundance, i.density) for i in el])
        mass.init(t, reload=_flag(XS[x][1]))
        density.init(t, reload=_flag(XS[x][1]))
        st_["stage"] = 3
    return st_["table"] if view == "self" else st_[view]


class Unreadable(Exception):
    """An embedded cell the independent reader cannot read in a documented notation (evidence, not a harness error)."""

    def __init__(self, table, z, a, text, sym=None):
        Exception.__init__(self, "%s %s-%s: %r" % (table, z, a, text))
        self.table, self.z, self.a, self.text, self.sym = table, z, a, text, sym

    def rowid(self):
        return "%s row %s%s" % (self.table, self.sym if self.sym else "Z=%s" % self.z, "-%d" % self.a if self.a else "")

    def served(self, table):
        try:
            if self.table == "element_densities":
                return getattr(table, self.sym).density
            el = table[self.z]
            if self.table == "isotope_abundance":
                return el[self.a].abundance
            return el[self.a].mass if self.a else el.mass
        except Exception as e:  # noqa
            return "<%s: %s>" % (type(e).__name__, e)


class BadEntry(dict):
    """Expected record of a row with an unreadable cell: descriptive keys work, numeric keys raise Unreadable."""

    def __init__(self, where, **kw):
        dict.__init__(self, **kw)
        self.where = where

    def __getitem__(self, k):
        if k in ("mass", "unc", "pct"):
            raise Unreadable(*self.where)
        return dict.__getitem__(self, k)


class DensDict(dict):
    def _chk(self, k, v):
        if isinstance(v, tb.Bad):
            raise Unreadable("element_densities", None, 0, v.text, sym=k)
        return v

    def __getitem__(self, k):
        return self._chk(k, dict.__getitem__(self, k))

    def get(self, k, d=None):
        return self._chk(k, dict.get(self, k, d))


def _dens_label(sym):
    try:
        return "unknown" if oracle()["dens"].get(sym) is None else "known"
    except Unreadable:
        return "unreadable"


@highprec
def oracle():
    """Expected values from the independent readers (per process).  Never raises because of a cell's content:
    unreadable cells become BadEntry records, rows that cannot be laid out go to O['problems']."""
    if _O:
        return _O
    mt = tb.mass_tables()
    problems = list(mt["problems"])
    dens = DensDict(tb.density_table())
    const = tb.constants()
    iso = {}            # (z, a) -> dict(sym, mass, unc, text)
    nominal = {}        # z -> set of avg texts
    symbol = {}
    for z, sym, a, mtext, avg in mt["isotope_mass"]:
        if (z, a) in iso:
            problems.append(("isotope_mass", "%d-%s-%d" % (z, sym, a), "nuclide listed twice"))
            continue
        try:
            u = tb.read_unc(mtext)
            if u["kind"] != "paren":
                raise ValueError(mtext)
            iso[(z, a)] = dict(sym=sym, mass=u["value"], unc=u["unc"], text=mtext, hash=u["hash"])
        except ValueError:
            iso[(z, a)] = BadEntry(("isotope_mass", z, a, mtext, sym), sym=sym, text=mtext, hash=False)
        nominal.setdefault(z, set()).add(avg)
        symbol.setdefault(z, sym)
    weight = {}         # z -> dict(mass, unc, src, text)
    for z in sorted(nominal):
        if z in mt["element_mass"]:
            sym, text = mt["element_mass"][z]
            src = "element_mass"
        else:
            sym = symbol[z]
            src = "isotope_mass-column"
            text = sorted(nominal[z])[0] if len(nominal[z]) == 1 else " | ".join(sorted(nominal[z]))
        try:
            u = tb.read_unc(text)
            if u["kind"] not in ("paren", "nominal"):
                raise ValueError(text)
            weight[z] = dict(sym=sym, mass=u["value"], unc=u["unc"], src=src + ":" + u["kind"], text=text)
        except ValueError:
            weight[z] = BadEntry((src.replace("-column", " weight column"), z, 0, text, sym), sym=sym, src=src + ":unreadable", text=text)
    for z in mt["element_mass"]:
        if z not in weight:
            problems.append(("element_mass", "Z=%d" % z, "element has no isotope_mass row"))
    abund = {}          # z -> {a: dict(value, pct, kind, text)}
    for z, (sym, entries) in mt["abundance"].items():
        vals, bad = {}, None
        for a, t in entries.items():
            try:
                vals[a] = tb.read_unc(t)
                if vals[a]["kind"] == "missing":
                    raise ValueError(t)
            except ValueError:
                bad = bad or (a, t)
        if bad is None and entries:
            total = sum(v["value"] for v in vals.values())
            if total == 0:
                bad = (sorted(entries)[0], "all entries zero")
        if bad is None:
            abund[z] = {a: dict(pct=100 * v["value"] / total, kind=v["kind"], text=entries[a]) for a, v in vals.items()}
        else:
            # the normalisation of the whole element depends on the unreadable cell
            abund[z] = {a: BadEntry(("isotope_abundance", z, bad[0], bad[1], sym), kind="unreadable", text=entries[a])
                        for a in entries}
        abund[z]["sym"] = sym
    _O.update(iso=iso, weight=weight, abund=abund, dens=dens, symbol=symbol, problems=problems,
              NA=const["avogadro_number"], mn=const["neutron_mass"], mn_unc=const["neutron_mass_unc"])
    return _O


# ----------------------------------------------------------------------
# Interpreter modes: configurations "mode:<flags>:<table>".  A child interpreter (/venv/bin/python <flags> -c SCRIPT,
# PYTHONPATH = the repository under test) imports periodictable, initialises a private table as well, and dumps every
# value the sweep judges as JSON; the parent wraps the dump in read-only stand-ins for table/element/isotope and
# runs the ordinary clauses on them (the function-route and ion clauses need live objects and are left out).
MODES = {"O": ["-O"], "OO": ["-OO"], "W-error-DeprecationWarning": ["-W", "error::DeprecationWarning"],
         "W-error": ["-W", "error"]}
MODE_CHILD = r"""
import json, sys
import periodictable
from periodictable import core, mass, density

def val(f):
    try:
        v = f()
    except BaseException as e:
        return {"exc": "%s: %s" % (type(e).__name__, e)}
    if v is None or isinstance(v, (bool, int, float, str)):
        return v
    try:
        return float(v)
    except Exception:
        return {"exc": "unexpected value %r" % (v,)}

def dump(table):
    out = {}
    for z in range(0, 119):
        try:
            el = table[z]
        except BaseException as e:
            out[str(z)] = {"exc": "%s: %s" % (type(e).__name__, e)}
            continue
        d = {"symbol": val(lambda: el.symbol), "number": val(lambda: el.number)}
        for k, name in (("mass", "mass"), ("unc", "_mass_unc"), ("density", "density"),
                        ("number_density", "number_density"), ("interatomic_distance", "interatomic_distance")):
            d[k] = val(lambda: getattr(el, name))
        isos = {}
        try:
            alist = list(el.isotopes)
        except BaseException as e:
            alist = []
            d["isotopes_exc"] = "%s: %s" % (type(e).__name__, e)
        for a in alist:
            i = {}
            for k, name in (("mass", "mass"), ("unc", "_mass_unc"), ("abundance", "abundance"), ("density", "density"),
                            ("number_density", "number_density"), ("interatomic_distance", "interatomic_distance")):
                i[k] = val(lambda: getattr(el[a], name))
            isos[str(a)] = i
        d["isotopes"] = isos
        out[str(z)] = d
    return out

res = {"optimize": sys.flags.optimize, "warnoptions": list(sys.warnoptions)}
res["public"] = dump(periodictable.elements)
T = core.PeriodicTable("c06-mode-private")
mass.init(T)
density.init(T)
res["private"] = dump(T)
res["public-after-private"] = dump(periodictable.elements)
json.dump(res, sys.stdout)
"""
_MODE_DUMPS = {}


class ChildRaised(Exception):
    """The child interpreter got an exception where the sweep reads a value."""


class ChildFailed(Exception):
    """The child interpreter did not produce a dump."""


class _PAtom(object):
    _alias = {"_mass_unc": "unc"}

    def __init__(self, d, label):
        self.__dict__["_d"] = d
        self.__dict__["_label"] = label

    def __getattr__(self, name):
        d = self.__dict__["_d"]
        key = self._alias.get(name, name)
        if key not in d:
            raise AttributeError(name)
        v = d[key]
        if isinstance(v, dict) and "exc" in v:
            raise ChildRaised("%s.%s raised %s" % (self.__dict__["_label"], name, v["exc"]))
        return v

    def __str__(self):
        return self.__dict__["_label"]

    __repr__ = __str__


class _PElement(_PAtom):
    def __init__(self, z, d):
        if "exc" in d:
            d = {"symbol": {"exc": d["exc"]}, "number": z, "isotopes": {}}
        _PAtom.__init__(self, d, "%s" % (d.get("symbol") if isinstance(d.get("symbol"), str) else "Z=%d" % z))
        self.__dict__["isotopes"] = sorted(int(a) for a in d.get("isotopes", {}))
        self.__dict__["ions"] = []
        self.__dict__["_isos"] = dict((int(a), _PAtom(dict(v, isotope=int(a)), "%s-%s" % (self.__dict__["_label"], a)))
                                      for a, v in d.get("isotopes", {}).items())

    def __getitem__(self, a):
        if "isotopes_exc" in self.__dict__["_d"]:
            raise ChildRaised("%s.isotopes raised %s" % (self, self.__dict__["_d"]["isotopes_exc"]))
        try:
            return self.__dict__["_isos"][a]
        except KeyError:
            raise ChildRaised("%s has no isotope %r in the child interpreter" % (self, a))

    def __iter__(self):
        return iter([self.__dict__["_isos"][a] for a in self.__dict__["isotopes"]])


class _PTable(object):
    def __init__(self, d):
        self._els = dict((int(z), _PElement(int(z), v)) for z, v in d.items())

    def __getitem__(self, z):
        return self._els[z]

    def __iter__(self):
        return iter([self._els[z] for z in sorted(self._els)])


def run_child(flags, script, stdin=""):
    """Run *script* in /venv/bin/python <flags> with the repository under test first on the path; returns the parsed
    JSON dump or raises ChildFailed(stderr tail)."""
    import json
    import os
    import subprocess
    import sys
    from ..runner import REPO
    e = dict((k, v) for k, v in os.environ.items() if k not in ("PYTHONOPTIMIZE", "PYTHONWARNINGS", "PYTHONHASHSEED"))
    e.update(PYTHONPATH=REPO, PYTHONDONTWRITEBYTECODE="1")
    r = subprocess.run([sys.executable] + list(flags) + ["-c", script], input=stdin, capture_output=True, text=True,
                       env=e, cwd="/tmp", timeout=600)
    if r.returncode != 0:
        raise ChildFailed("exit %d: %s" % (r.returncode, r.stderr.strip()[-600:]))
    try:
        return json.loads(r.stdout)
    except ValueError as x:
        raise ChildFailed("output is not JSON (%s): %s" % (x, r.stdout[-300:]))


def mode_env(config):
    _, flags, which = config.split(":")
    if flags not in _MODE_DUMPS:
        try:
            _MODE_DUMPS[flags] = run_child(MODES[flags], MODE_CHILD)
        except ChildFailed as x:
            _MODE_DUMPS[flags] = x
    d = _MODE_DUMPS[flags]
    if isinstance(d, ChildFailed):
        raise d
    key = ("table", flags, which)
    if key not in _MODE_DUMPS:
        _MODE_DUMPS[key] = _PTable(d[which])
    return _MODE_DUMPS[key]


def env(config):
    """The table of a configuration (built once per process, in the order the name says)."""
    if config.startswith("mode:"):
        return mode_env(config)
    if config in RELOAD:
        return reload_env(config)
    if config in _ENV:
        return _ENV[config]
    import periodictable
    from periodictable import core, mass, density
    pub = periodictable.elements
    if config == "public":
        t = pub
    elif config == "private-only":
        t = subtable.new("c06-only")
        mass.init(t)
        density.init(t)
    elif config in ("private-after-dropped", "public-after-dropped"):
        # Three private tables are created, customised, read completely (every mass, abundance, density, number
        # density) and DROPPED - no reference is kept and the collector is run - before the table under test is created:
        # its atoms may live at the addresses of the dead ones and must serve the embedded values all the same.
        if "private-after-dropped" not in _ENV:
            import gc
            for j in range(3):
                td = subtable.new("c06-dropped-%d" % j)
                mass.init(td)
                density.init(td)
                for k, el in enumerate(td):
                    if el.number and (el.number + j) % 2 == 0:
                        el._mass = el._mass * 1.25
                        if el._density is not None:
                            el._density = el._density * 0.5
                for el in td:
                    _ = (el.mass, el.density, el.number_density, el.interatomic_distance,
                         [(i.mass, i.abundance, i.density, i.number_density) for i in el])
                del td, el
                gc.collect()
            t4 = subtable.new("c06-after-dropped")
            mass.init(t4)
            density.init(t4)
            _ENV["private-after-dropped"] = t4
            _ENV["public-after-dropped"] = pub
        return _ENV[config]
    elif config in ("public-after-custom", "private-after-custom"):
        # A private table is customised the way test/test_private.py and the customizing guide do it
        # (assignment to _mass/_density of its own atoms) and every value of it is read first; the public
        # table and a private table initialised afterwards must still serve the embedded entries.
        if "public-after-custom" not in _ENV:
            tc = subtable.new("c06-custom")
            mass.init(tc)
            density.init(tc)
            for k, el in enumerate(tc):
                if el.number and el.number % 3 == 0:
                    el._mass = el._mass * (1.0 + 0.01 * (1 + k % 7))
                    if el._density is not None:
                        el._density = el._density * 1.5
                    for iso in list(el)[::2]:
                        iso._mass = iso._mass + 0.125
            for el in tc:
                _ = (el.mass, el.density, el.number_density, el.interatomic_distance,
                     [(i.mass, i.abundance, i.density) for i in el])
            t3 = subtable.new("c06-p3")
            mass.init(t3)
            density.init(t3)
            _ENV["public-after-custom"] = pub
            _ENV["private-after-custom"] = t3
        return _ENV[config]
    else:
        # public is read first, then two private tables are created
        if "private-after-public" not in _ENV:
            for el in pub:
                _ = (el.mass, el.density, [(i.mass, i.abundance) for i in el])
            t1 = subtable.new("c06-p1")
            mass.init(t1)
            density.init(t1)
            t2 = subtable.new("c06-p2")
            mass.init(t2)
            density.init(t2)
            _ENV["private-after-public"] = t1
            _ENV["private-second"] = t2
            _ENV["public-after-private"] = pub
        return _ENV[config]
    _ENV[config] = t
    return t


# ----------------------------------------------------------------------
EPS = 2.220446049250313e-16


def same(got, want):
    """bit-identical to float(<decimal>) (ints compare by value)"""
    return isinstance(got, (int, float)) and not isinstance(got, bool) and got == float(want)


def _num(x):
    return isinstance(x, (int, float)) and not isinstance(x, bool)


def close(got, want, rel, floor=0.0):
    if not _num(got):
        return False
    want = float(want)
    return got == want or abs(got - want) <= rel * abs(want) + floor


def atom_of(table, z, a):
    el = table[z]
    return el if not a else el[a]


def V(bucket, msg, case):
    return Violation("c06:" + bucket, "[%s] %s" % (case.get("config"), msg), case)


def _unreadable(u, case):
    return V("table:unreadable-cell", "%s: cell %r is not in a documented notation but the library serves %r"
             % (u.rowid(), u.text, u.served(env(case["config"]))), case)


def check_row(ctx, case):
    """One clause for one nuclide.  case = {kind:'row', config, check, z, a}.  A clause that needs an unreadable
    cell reports that cell (one bucket) and is skipped; everything else goes on."""
    mode = case["config"].split(":")[1] if case["config"].startswith("mode:") else None
    try:
        env(case["config"])      # the library reads its embedded tables in the thread's own decimal context (pbt/ambient.py)
        oracle()
        with decimal.localcontext(HI):       # the comparison arithmetic runs in the oracle's 80-digit context
            _check_row(ctx, case)
    except Unreadable as u:
        raise _unreadable(u, case)
    except ChildFailed as x:
        raise V("mode:%s:child-failed" % mode, "python %s: the child interpreter failed: %s" % (" ".join(MODES[mode]), x), case)
    except ChildRaised as x:
        raise V("mode:%s:exception" % mode, "python %s: %s" % (" ".join(MODES[mode]), x), case)
    except Violation as v:
        if mode is None:
            raise
        raise Violation("c06:mode:%s:%s" % (mode, v.bucket.split(":", 1)[1]),
                        "python %s: %s" % (" ".join(MODES[mode]), v.message), v.case)


def _check_row(ctx, case):
    O = oracle()
    table = env(case["config"])
    z, a, what = case["z"], case["a"], case["check"]
    el = table[z]

    if what == "isotope-mass":
        exp = O["iso"][(z, a)]
        if el.symbol != exp["sym"]:
            raise V("symbol", "Z=%d is %r, table row says %r" % (z, el.symbol, exp["sym"]), case)
        if a not in el.isotopes:
            raise V("isotope-mass:row-not-loaded", "%d-%s-%d is in isotope_mass but not in the table" % (z, el.symbol, a), case)
        iso = el[a]
        if not same(iso.mass, exp["mass"]):
            raise V("isotope-mass:value", "%s-%d mass %r, row says %s" % (el.symbol, a, iso.mass, exp["text"]), case)
        if not same(iso._mass_unc, exp["unc"]):
            raise V("isotope-mass:uncertainty", "%s-%d mass uncertainty %r, row says %s -> %s"
                    % (el.symbol, a, iso._mass_unc, exp["text"], exp["unc"]), case)
        return

    if what == "unlisted-isotope":
        # an isotope the table holds that no isotope_mass row describes
        if z == 0 and a == 1:
            iso = el[1]
            if not (same(iso.mass, O["mn"]) and same(iso._mass_unc, O["mn_unc"]) and iso.abundance == 100):
                raise V("neutron", "n-1 mass %r +- %r abundance %r, constants.py says %s(%s)"
                        % (iso.mass, iso._mass_unc, iso.abundance, O["mn"], O["mn_unc"]), case)
            return
        raise V("isotope-mass:no-row", "%s-%d is served but isotope_mass has no such row" % (el.symbol, a), case)

    if what == "weight":
        if z == 0:
            if not (same(el.mass, O["mn"]) and same(el._mass_unc, O["mn_unc"])):
                raise V("neutron", "n mass %r +- %r, constants.py says %s(%s)" % (el.mass, el._mass_unc, O["mn"], O["mn_unc"]), case)
            return
        exp = O["weight"][z]
        if el.symbol != exp["sym"]:
            raise V("symbol", "Z=%d is %r, table row says %r" % (z, el.symbol, exp["sym"]), case)
        if not same(el.mass, exp["mass"]):
            raise V("weight:value:" + exp["src"], "%s mass %r, table says %s" % (el.symbol, el.mass, exp["text"]), case)
        if not same(el._mass_unc, exp["unc"]):
            raise V("weight:uncertainty:" + exp["src"], "%s mass uncertainty %r, table says %s -> %s"
                    % (el.symbol, el._mass_unc, exp["text"], exp["unc"]), case)
        return

    if what == "abundance":
        iso = el[a]
        listed = O["abund"].get(z, {})
        got = iso.abundance
        if not _num(got):
            raise V("abundance:not-a-number", "%s-%d abundance %r" % (el.symbol, a, got), case)
        if a in listed:
            exp = listed[a]
            if got == 0 and exp["pct"] != 0:
                raise V("abundance:listed-isotope-served-zero", "%s-%d abundance 0, composition table says %s (%.6g%%)"
                        % (el.symbol, a, exp["text"], exp["pct"]), case)
            if not close(got, exp["pct"], 1e-13):
                raise V("abundance:value:" + exp["kind"], "%s-%d abundance %r, composition table says %s -> %.15g%%"
                        % (el.symbol, a, got, exp["text"], exp["pct"]), case)
        elif z == 0 and a == 1:
            if got != 100:
                raise V("neutron", "n-1 abundance %r" % (got,), case)
        elif got != 0:
            raise V("abundance:unlisted-isotope-nonzero", "%s-%d abundance %r but it is not in the composition table"
                    % (el.symbol, a, got), case)
        return

    if what == "abundance-sum":
        listed = O["abund"][z]
        if el.symbol != listed["sym"]:
            raise V("symbol", "Z=%d is %r, composition table says %r" % (z, el.symbol, listed["sym"]), case)
        # the per-isotope clause reports a wrong entry; the sum is judged on its own only when the entries are right
        for k, exp in listed.items():
            if k != "sym" and not close(el[k].abundance, exp["pct"], 1e-13):
                ctx.count("abundance-sum:skipped(entry already wrong)")
                return
        if not all(_num(i.abundance) and _num(i.mass) for i in el) or not (_num(el.mass) and _num(el._mass_unc)):
            ctx.count("abundance-sum:skipped(non-numeric value, reported by its own clause)")
            return
        s = sum(i.abundance for i in el)
        if not abs(s - 100) <= 1e-9:
            raise V("abundance-sum", "%s abundances sum to %r" % (el.symbol, s), case)
        w = sum(i.abundance * i.mass for i in el) / 100
        if not abs(w - el.mass) < el._mass_unc:
            raise V("weighted-mass", "%s: abundance-weighted isotope mass %r, atomic weight %r +- %r"
                    % (el.symbol, w, el.mass, el._mass_unc), case)
        return

    if what == "density":
        if el.symbol not in O["dens"]:
            raise V("density:element-not-in-table", "%s has no entry in element_densities" % el.symbol, case)
        exp = O["dens"][el.symbol]
        got = el.density
        if exp is None:
            if got is not None:
                raise V("density:unknown-served", "%s density %r, table says None" % (el.symbol, got), case)
            if el.number_density is not None or el.interatomic_distance is not None:
                raise V("number-density:unknown-served", "%s density unknown but number_density %r, "
                        "interatomic_distance %r" % (el.symbol, el.number_density, el.interatomic_distance), case)
            return
        if not same(got, exp):
            raise V("density:value", "%s density %r, table says %s" % (el.symbol, got, exp), case)
        m = O["weight"][z]["mass"]
        _check_nd(el, exp, m, case)
        return

    if what == "isotope-density":
        iso = el[a]
        exp_el = O["dens"].get(el.symbol)
        got = iso.density                      # must not raise
        if exp_el is None:
            if got is not None:
                raise V("isotope-density:unknown-served", "%s-%d density %r, element density unknown" % (el.symbol, a, got), case)
            if iso.number_density is not None or iso.interatomic_distance is not None:
                raise V("number-density:unknown-served", "%s-%d number_density %r interatomic_distance %r"
                        % (el.symbol, a, iso.number_density, iso.interatomic_distance), case)
            return
        mi = O["iso"][(z, a)]["mass"]
        me = O["weight"][z]["mass"]
        want = exp_el * mi / me
        if not close(got, want, 1e-13):
            raise V("isotope-density:value", "%s-%d density %r, expected %s*%s/%s = %.17g"
                    % (el.symbol, a, got, exp_el, mi, me, want), case)
        _check_nd(iso, want, mi, case)
        return
    if what == "functions":
        # the module-level functions named by the property, called directly with the element / isotope
        from periodictable import density as dmod, mass as mmod
        atom = el[a] if a else el
        label = "%s-%d" % (el.symbol, a) if a else el.symbol
        routes = [("mass", mmod.mass, "mass"), ("density", dmod.density, "density"),
                  ("number_density", dmod.number_density, "number_density"),
                  ("interatomic_distance", dmod.interatomic_distance, "interatomic_distance")]
        if a:
            routes.append(("abundance", mmod.abundance, "abundance"))
        served = {}
        for name, fn, attr in routes:
            f = fn(atom)                       # must not raise
            g = getattr(atom, attr)
            served[name] = f
            if f is None and g is None:
                continue
            if not (_num(f) and _num(g) and close(f, g, 1e-13)):
                raise V("function-route:%s:differs-from-attribute" % name,
                        "periodictable.%s.%s(%s) = %r but %s.%s = %r"
                        % ("mass" if fn.__module__.endswith("mass") else "density", name, label, f, label, attr, g), case)
        # oracle for the function values
        if z == 0:
            rho = None
            m = O["mn"]
        else:
            rho_el = O["dens"].get(el.symbol)
            me = O["weight"][z]["mass"]
            m = O["iso"][(z, a)]["mass"] if a else me
            rho = None if rho_el is None else (rho_el * m / me)     # an isotope keeps the element's spacing
        if not same(served["mass"], m):
            raise V("function-route:mass:value", "mass.mass(%s) = %r, table says %s" % (label, served["mass"], m), case)
        n, d = served["number_density"], served["interatomic_distance"]
        if rho is None:
            if served["density"] is not None or n is not None or d is not None:
                raise V("function-route:unknown-served", "%s density unknown but density() = %r number_density() = %r "
                        "interatomic_distance() = %r" % (label, served["density"], n, d), case)
            return
        if not close(served["density"], rho, 1e-13):
            raise V("function-route:density:value", "density.density(%s) = %r, expected %.17g" % (label, served["density"], rho), case)
        want = rho * O["NA"] / m
        if not close(n, want, 1e-13):
            raise V("function-route:number_density:value", "density.number_density(%s) = %r, rho*N_A/m = %.17g "
                    "(rho = %.17g, m = %s of that nuclide)" % (label, n, want, rho, m), case)
        if not (_num(d) and close(n * d ** 3, 1e24, 1e-12)):
            raise V("function-route:interatomic_distance", "density functions for %s: n*d^3 = %r (n=%r d=%r)"
                    % (label, (n * d ** 3) if _num(d) else None, n, d), case)
        if a:
            d_el = dmod.interatomic_distance(el)
            if not (_num(d_el) and close(d, d_el, 1e-13)):
                raise V("function-route:interatomic_distance:isotope-spacing", "density.interatomic_distance(%s) = %r "
                        "but the element's is %r (an isotope keeps the element's spacing)" % (label, d, d_el), case)
        return

    if what == "ion-sample":
        # attribute route only: the module-level functions are documented for elements and isotopes
        c = case["charge"]
        parent = el[a] if a else el
        ion = parent.ion[c]
        label = "%s%s{%+d}" % (el.symbol, "-%d" % a if a else "", c)
        for attr in ("number_density", "interatomic_distance"):
            f, g = getattr(ion, attr), getattr(parent, attr)
            if f is None and g is None:
                continue
            if not (_num(f) and _num(g) and close(f, g, 1e-13)):
                raise V("ion-sample:" + attr, "%s.%s = %r but its parent serves %r" % (label, attr, f, g), case)
        return
    raise ValueError(what)


def _check_nd(atom, rho, m, case):
    """n = rho*N_A/m (oracle values) and n*d^3 = 1e24 (served values)"""
    O = oracle()
    n = atom.number_density
    d = atom.interatomic_distance
    want = rho * O["NA"] / m
    if not close(n, want, 1e-13):
        raise V("number-density:value", "%s number_density %r, rho*N_A/m = %.17g" % (atom, n, want), case)
    if not (_num(d) and close(n * d ** 3, 1e24, 1e-12)):
        raise V("interatomic-distance", "%s n*d^3 = %r (n=%r d=%r)" % (atom, (n * d ** 3) if _num(d) else None, n, d), case)


def _sym(table, z):
    try:
        return table[z].symbol
    except ChildRaised:
        return "?"


def _number_of(el):
    try:
        return el.number
    except ChildRaised:
        return None


def sweep(ctx, config):
    O = oracle()
    reduced = config.startswith("mode:")
    if reduced:
        try:
            table = env(config)
        except ChildFailed as x:
            mode = config.split(":")[1]
            ctx.case((config, "child"), nontrivial=True, sample={"config": config}, cls=["config:" + config])
            ctx.violation("c06:mode:%s:child-failed" % mode, "python %s: the child interpreter failed: %s"
                          % (" ".join(MODES[mode]), x), {"kind": "row", "config": config, "check": "weight", "z": 0, "a": 0})
            return
    table = env(config)

    def run(check, z, a, cls, **extra):
        case = dict({"kind": "row", "config": config, "check": check, "z": z, "a": a}, **extra)
        ctx.case((config, check, z, a) + tuple(sorted(extra.items())), nontrivial=True,
                 sample={"config": config, "check": check, "nuclide": "%d-%s%s" % (z, _sym(table, z), "-%d" % a if a else "")},
                 cls=["config:" + config] + cls)
        ctx.check(check_row, case)

    numbers = sorted(z for z in (_number_of(el) for el in table) if z is not None)
    if numbers != list(range(0, 119)) and numbers != list(range(1, 119)):
        ctx.violation("c06:elements", "[%s] table iterates elements %r" % (config, numbers[:5]),
                      {"kind": "row", "config": config, "check": "weight", "z": 1, "a": 0})
    for tname, row, why in O["problems"]:
        ctx.violation("c06:table:unreadable-row", "[%s] %s: row %r cannot be laid out (%s)" % (config, tname, row, why),
                      {"kind": "row", "config": config, "check": "weight", "z": 1, "a": 0})
    # every row of isotope_mass
    for (z, a), exp in O["iso"].items():
        run("isotope-mass", z, a, ["isotope-mass:" + ("estimated#" if exp["hash"] else "measured")])
    # every element 0..118 and every isotope the table holds
    for z in range(0, 119):
        el = table[z]
        if z:
            run("weight", z, 0, ["weight:" + O["weight"][z]["src"]])
        else:
            run("weight", 0, 0, ["weight:neutron"])
        known = _dens_label(_sym(table, z))
        run("density", z, 0, ["density:" + known])
        if not reduced:
            run("functions", z, 0, ["function-route:element:density-" + known])
        if z and el.ions and not reduced:
            c = list(el.ions)[0]
            run("ion-sample", z, 0, ["ion-sample:element-ion"], charge=c)
            isos = [k for k in el.isotopes if (z, k) in O["iso"]]
            if isos:
                run("ion-sample", z, isos[len(isos) // 2], ["ion-sample:isotope-ion"], charge=c)
        listed = O["abund"].get(z, {})
        for a in list(el.isotopes):
            if (z, a) not in O["iso"]:
                run("unlisted-isotope", z, a, ["isotope:not-in-isotope_mass"])
                if not (z == 0 and a == 1):
                    continue
            if a in listed:
                k = "abundance:listed:" + listed[a]["kind"]
            elif listed:
                k = "abundance:unlisted-isotope-of-listed-element"
            else:
                k = "abundance:element-not-in-composition-table"
            run("abundance", z, a, [k])
            if z:
                run("isotope-density", z, a, ["isotope-density:" + known])
                if not reduced:
                    run("functions", z, a, ["function-route:isotope:density-" + known])
        if z in O["abund"]:
            run("abundance-sum", z, 0, ["abundance-sum+weighted-mass"])
    # abundance rows whose isotope has no mass row are reported by the abundance clause
    for z, listed in O["abund"].items():
        for a in listed:
            if a != "sym" and (z, a) not in O["iso"]:
                run("abundance", z, a, ["abundance:listed-without-mass-row"])


def check_custom(ctx, case):
    try:
        env(case["config"])
        oracle()
        with decimal.localcontext(HI):
            _check_custom(ctx, case)
    except Unreadable as u:
        raise _unreadable(u, case)


def _check_custom(ctx, case):
    """case = {kind:'custom', config, z}: a customised table serves the customised values of element z and its isotopes"""
    O = oracle()
    table = env(case["config"])
    scale = _RELOAD_STATE[RELOAD[case["config"]][0]]["scale"]
    z = case["z"]
    el = table[z]
    want_m = float(O["weight"][z]["mass"] if z else O["mn"]) / scale
    rho0 = O["dens"].get(el.symbol)
    want_rho = None if rho0 is None else float(rho0) / scale
    if el.mass != want_m:
        raise V("custom:element-mass", "%s._mass was set to %r, mass serves %r" % (el.symbol, want_m, el.mass), case)
    if el.density != want_rho:
        raise V("custom:element-density", "%s._density was set to %r, density serves %r" % (el.symbol, want_rho, el.density), case)
    for iso in el:
        a = iso.isotope
        if (z, a) not in O["iso"]:
            continue
        wm = float(O["iso"][(z, a)]["mass"]) / scale
        if iso.mass != wm:
            raise V("custom:isotope-mass", "%s-%d._mass was set to %r, mass serves %r" % (el.symbol, a, wm, iso.mass), case)
        if (z, a) in CUSTOM_ABUNDANCE and iso.abundance != CUSTOM_ABUNDANCE[(z, a)]:
            raise V("custom:abundance", "%s-%d._abundance was set to %r, abundance serves %r"
                    % (el.symbol, a, CUSTOM_ABUNDANCE[(z, a)], iso.abundance), case)
        d = iso.density
        if want_rho is None:
            if d is not None:
                raise V("custom:isotope-density", "%s-%d density %r with unknown element density" % (el.symbol, a, d), case)
        elif not close(d, want_rho * wm / want_m, 1e-13):
            raise V("custom:isotope-density", "%s-%d density %r, customised rho*m_iso/m_el = %r"
                    % (el.symbol, a, d, want_rho * wm / want_m), case)


def sweep_custom(ctx, config):
    table = env(config)
    for z in range(0, 119):
        case = {"kind": "custom", "config": config, "z": z}
        ctx.case((config, "custom", z), nontrivial=True, sample={"config": config, "customised-element": table[z].symbol},
                 cls=["config:" + config, "custom:element+isotopes"])
        ctx.check(check_custom, case)


def task_sweep(ctx, configs):
    for c in configs:
        if c in CUSTOM_CONFIGS:
            sweep_custom(ctx, c)
        else:
            sweep(ctx, c)


# ----------------------------------------------------------------------
# parse_uncertainty on generated notation strings
DIG = "0123456789"


def _number(max_int=6, max_frac=12):
    ip = st.one_of(st.text(DIG, min_size=1, max_size=max_int),
                   st.integers(0, 400).map(str))
    fp = st.one_of(st.none(), st.text(DIG, min_size=1, max_size=max_frac))
    sign = st.sampled_from(["", "", "", "-"])
    return st.tuples(sign, ip, fp).map(lambda t: t[0] + t[1] + ("." + t[2] if t[2] is not None else ""))


def notation():
    # uncertainty digits without leading zeros, as in every table
    unc_int = st.one_of(st.tuples(st.sampled_from("123456789"), st.text(DIG, max_size=6)).map("".join), st.just("0"))
    unc_pt = st.tuples(st.text(DIG, min_size=1, max_size=3), st.text(DIG, min_size=1, max_size=4)).map(lambda t: t[0] + "." + t[1])
    paren_i = st.tuples(_number(), unc_int, st.booleans()).map(
        lambda t: {"k": "paren", "s": "%s(%s)%s" % (t[0], t[1], "#" if t[2] else "")})
    paren_p = st.tuples(_number(), unc_pt, st.booleans()).map(
        lambda t: {"k": "paren", "s": "%s(%s)%s" % (t[0], t[1], "#" if t[2] else "")})
    plain = _number().map(lambda v: {"k": "plain", "s": v})
    nominal = _number().map(lambda v: {"k": "nominal", "s": "[%s]" % v})
    rng = st.tuples(_number(), _number()).map(
        lambda t: {"k": "range", "s": "[%s,%s]" % tuple(sorted(t, key=Decimal))})
    # a narrow range around a common value (the shape of the CIAAW intervals)
    narrow = st.tuples(st.integers(0, 300), st.text(DIG, min_size=1, max_size=6), st.text(DIG, min_size=1, max_size=6)).map(
        lambda t: {"k": "range", "s": "[%s,%s]" % tuple(sorted(["%d.%s" % (t[0], t[1]), "%d.%s" % (t[0], t[2])], key=Decimal))})
    empty = st.just({"k": "missing", "s": ""})
    # one_of() merges repeated branches, so the mix is fixed by a selector: 60 % of the strings are val(unc)
    branches = [paren_i] * 9 + [paren_p] * 3 + [plain] * 2 + [nominal] * 2 + [rng] * 2 + [narrow] + [empty]
    return st.integers(0, len(branches) - 1).flatmap(lambda i: branches[i])


def check_notation(ctx, v):
    from periodictable.util import parse_uncertainty
    s = v["s"]
    exp = tb.read_unc(s)
    assert exp["kind"] == v["k"], (exp, v)
    case = {"kind": "notation", "k": v["k"], "s": s}
    if exp["kind"] == "paren":
        sub = ("point" if exp["unc_point"] else
               "shorter" if exp["unc_digits"] < exp["decimals"] else
               "equal" if exp["unc_digits"] == exp["decimals"] else
               "integer-value" if exp["decimals"] == 0 else "longer")
        nt = exp["unc_point"] or exp["unc_digits"] != exp["decimals"]
        cls = ["notation:paren:unc-" + sub] + (["notation:paren:#"] if exp["hash"] else [])
    else:
        sub = ""
        nt = exp["kind"] == "range"
        cls = ["notation:" + exp["kind"]]
    ctx.case(("notation", s), nontrivial=nt, sample=s, cls=cls)
    got = parse_uncertainty(s)           # in the thread's own decimal context
    with decimal.localcontext(HI):
        _judge_notation(s, got, exp, sub, case)


def _judge_notation(s, got, exp, sub, case):
    if not (isinstance(got, tuple) and len(got) == 2):
        raise Violation("c06:notation:shape", "parse_uncertainty(%r) = %r" % (s, got), case)
    if exp["kind"] == "missing":
        if got != (None, None):
            raise Violation("c06:notation:missing", "parse_uncertainty('') = %r" % (got,), case)
        return
    if exp["kind"] == "range":
        floor = 4 * EPS * float(max(abs(exp["low"]), abs(exp["high"])))
        if not close(got[0], exp["value"], 1e-15, floor):
            raise Violation("c06:notation:range:value", "parse_uncertainty(%r)[0] = %r, (low+high)/2 = %s" % (s, got[0], exp["value"]), case)
        if not close(got[1], exp["unc"], 1e-15, floor):
            raise Violation("c06:notation:range:uncertainty", "parse_uncertainty(%r)[1] = %r, (high-low)/sqrt(12) = %.17g"
                            % (s, got[1], exp["unc"]), case)
        return
    if not same(got[0], exp["value"]):
        raise Violation("c06:notation:%s:value" % exp["kind"], "parse_uncertainty(%r)[0] = %r" % (s, got[0]), case)
    if not same(got[1], exp["unc"]):
        b = "c06:notation:%s:uncertainty" % exp["kind"] + (":unc-" + sub if sub else "")
        raise Violation(b, "parse_uncertainty(%r)[1] = %r, expected %s" % (s, got[1], exp["unc"]), case)


def task_notation(ctx, n):
    ctx.search("notation", notation(), check_notation, n)


# ----------------------------------------------------------------------
def tasks(tier):
    out = [("sweep-public", task_sweep, dict(configs=["public"])),
           ("sweep-private-only", task_sweep, dict(configs=["private-only"])),
           ("sweep-private-after-public", task_sweep,
            dict(configs=["public", "private-after-public", "private-second", "public-after-private"])),
           ("sweep-after-custom", task_sweep, dict(configs=["public-after-custom", "private-after-custom"])),
           ("sweep-after-dropped-tables", task_sweep, dict(configs=["private-after-dropped", "public-after-dropped"])),
           ("sweep-private-reload", task_sweep,
            dict(configs=["reload:private:fresh", "reload:private:customised", "reload:private:public-while-customised",
                          "reload:private:second-private-while-customised", "reload:private:customised-after-falsy-init",
                          "reload:private:reloaded"])),
           ("sweep-private-reload-flags", task_sweep,
            dict(configs=["reload:private-int:customised", "reload:private-int:customised-after-falsy-init",
                          "reload:private-int:reloaded",
                          "reload:private-np:customised", "reload:private-np:customised-after-falsy-init",
                          "reload:private-np:reloaded"])),
           ("sweep-public-reload", task_sweep,
            dict(configs=["reload:public:customised", "reload:public:private-while-customised",
                          "reload:public:new-private-while-customised",
                          "reload:public:customised-after-falsy-init",
                          "reload:public:reloaded", "reload:public:private-after-reload"])),
           ("interpreter-modes-O", task_sweep,
            dict(configs=["mode:O:public", "mode:O:private", "mode:O:public-after-private",
                          "mode:OO:public", "mode:OO:private", "mode:OO:public-after-private"])),
           ("interpreter-modes-W", task_sweep,
            dict(configs=["mode:W-error-DeprecationWarning:public", "mode:W-error-DeprecationWarning:private",
                          "mode:W-error-DeprecationWarning:public-after-private",
                          "mode:W-error:public", "mode:W-error:private", "mode:W-error:public-after-private"])),
           ("sweep-public-reload-np", task_sweep,
            dict(configs=["reload:public-np:customised", "reload:public-np:customised-after-falsy-init",
                          "reload:public-np:reloaded"]))]
    if tier == "quick":
        out += [("notation-a", task_notation, dict(n=2500)),
                ("notation-b", task_notation, dict(n=2500))]
    else:
        out += [("notation-%d" % k, task_notation, dict(n=16000)) for k in range(13)]
    return out


def replay(ctx, case):
    if case["kind"] == "row":
        check_row(ctx, case)
    elif case["kind"] == "custom":
        check_custom(ctx, case)
    else:
        check_notation(ctx, {"k": case["k"], "s": case["s"]})
