"""
C19 - Hill form is a canonical, composition-preserving normal form.

A case is a multiset of atoms with counts plus several *variants*: formulas
with exactly that composition written in different orders and groupings
(dict in a drawn key order, strings rendered from derivation trees with the
atoms permuted, split and grouped, sums and products of partial formulas).
All counts are multiples of 1/8 (and group multipliers powers of two), so the
composition of every variant is exact in binary floating point and "equal atom
counts" holds literally.
"""
import json
from decimal import Decimal
from fractions import Fraction

from hypothesis import strategies as st

from ..runner import Violation
from .. import formula_ast as fa
from .. import fops_c02 as ops
from ..atoms import atom_key, key_to_atom, resolve, spec_key, spec_class, DT

PROPERTY = "C19"
RULE = ("case = a multiset of 1-7 distinct atoms (elements, isotopes, D/T, ions, isotope ions; biased towards "
        "several charge states of one element, several isotopes of one element, H next to D/T and hydrogen "
        "isotopes, C/H next to Ca/He/Hf...) with counts k/8, and 2-4 variants of it: formula({atom: n}) in a drawn "
        "key order; formula(string) rendered from a derivation tree in which the atoms are permuted, some counts "
        "split over two places, and chunks wrapped in (nested) groups with multipliers 2,4,8,.5,.25; sums "
        "m1*f1 + m2*f2 (+=) of such parts, with a drawn flag 'early': the Hill form of every part, product and "
        "running sum is taken and checked against its own model as soon as it exists and again after it was used "
        "as an operand; plus operation histories of pbt/fops_c02.py (constructors, copy, +, n*, +=, again) with "
        "the Hill form of the result and of the operands checked after every step (flag) and of all variables "
        "at the end (multipliers 0 and 0.0 and counts written as zero included; composition series x*A + (1-x)*B with "
        "x in {0, 1, .5, .25}: hill.atoms == f.atoms as dicts, zero-count keys included; against the model a "
        "zero count is the same as absent; counts and multipliers also as fractions.Fraction: a formula into which "
        "only ints and Fractions went has exactly the model's counts in atoms and hill.atoms; a 'decimal' task does "
        "the same for decimal.Decimal counts through formula(dict), formula(sequence), n*f, 2*f, f+f); plus long histories: 1-5 ionic formulas (either table) are built and their Hill forms taken, "
        "every element ion of the table (499) and drawn isotope ions are then looked up or parsed in a drawn order, "
        "and afterwards the held formulas, new spellings of the same atoms (reversed dict, reversed string, "
        "regrouped string) and held+new / new+held sums must pass the same oracle, with Hill forms equal to those "
        "taken before the scan. A third of the multiset cases use the atoms of a private PeriodicTable (a few masses changed): "
        "strings parsed with table=T, dicts/sequences of T's atoms, or built on the public table and moved with "
        "change_table(T); every atom of f.hill must then be T's object and hill.mass == f.mass. Oracle per formula: hill.atoms == the multiset exactly (and == f.atoms); "
        "hill.structure is flat, one entry per atom, with key (symbol not in {C,H}, symbol, mass number or 0) "
        "non-decreasing; hill.hill == hill with equal str; .hill taken twice is the same; it equals the Hill form of a "
        "fresh formula({atom: n}) with the same counts in another key order; across variants all Hill forms are == with identical "
        "str; the string written in that order (charge-state ties in the order the library's Hill form uses), "
        "parsed (bare, with @d / @di / @dn tags, with density= / natural_density= / name= keywords, with table=T on "
        "the private table), equals its own Hill form in both directions and the variants' Hill form. non-trivial = the multiset has two charge "
        "states of one element, or two isotopes of one element, or D/T together with H; distinct by the case.")
ASSUMPTIONS = [
    "in operation histories the counts are arbitrary doubles: the Hill form's atoms are compared with the Fraction "
    "model at rel 1e-12 and exactly with f.atoms; the canonical reference is built from f.atoms itself",
    "D and T sort by their own symbols 'D' and 'T' (the property orders 'by symbol'); other hydrogen isotopes sort under H",
    "the order among charge states of one isotope/element is not prescribed by the property; only that it is the same "
    "for every formula with these atoms (canonicity)",
    "variants are generated so that their composition is exact in doubles; the generator re-derives the composition "
    "of every variant in Fractions and aborts (harness error) if it differs from the multiset",
]

CH = ("C", "H")
NEAR_CH = ["C", "H", "Ca", "Cd", "Ce", "Cl", "Co", "Cu", "B", "Be", "Br", "He", "Hf", "Hg", "Ho", "D", "T", "Dy", "Db",
           "Ta", "Tb", "Ti", "O", "N", "Na", "Ac", "Ag", "Zr", "I", "In", "K", "Kr", "S", "Si", "Sc"]


def env():
    """The shared environment of pbt/fops_c02.py: public table and a private table (own atoms, a few masses
    changed so that a mix-up of tables also shows in .mass)."""
    return ops.env()


def on_table(E, which):
    """A view of the environment whose 'table' is the chosen table."""
    if which == "public":
        return E
    V = dict(E)
    V["table"] = E["tables"][which]
    V["which"] = which
    return V


# ----------------------------------------------------------------------
# generator
def cstr(fr, none_for_one=True):
    if fr == 1 and none_for_one:
        return None
    if fr.denominator == 1:
        return str(fr.numerator)
    from ..dec import HI
    return format(HI.divide(Decimal(fr.numerator), Decimal(fr.denominator)), "f")


def jnum(fr):
    return int(fr) if fr.denominator == 1 else float(fr)


def atom_lists(pool):
    def of_element(sym, n):
        """n distinct atoms of one element: charge states / isotopes / isotope ions."""
        z, isos, ions = pool.info[sym]
        choices = [[sym, 0, 0]] + [[sym, 0, c] for c in ions] + [[sym, a, 0] for a in isos[:6]]
        choices += [[sym, a, c] for a in isos[:3] for c in ions[:3]]
        if sym == "H":
            choices += [["D", 0, 0], ["T", 0, 0]] + [[d, 0, c] for d in ("D", "T") for c in ions]
        return st.lists(st.sampled_from(choices), min_size=min(2, len(choices)), max_size=n, unique_by=lambda s: tuple(s))

    family = st.sampled_from(pool.symbols).flatmap(lambda s: of_element(s, 4))
    ions = st.sampled_from([s for s in pool.with_ions if len(pool.info[s][2]) >= 2]).flatmap(
        lambda s: st.lists(st.sampled_from([[s, 0, c] for c in pool.info[s][2]] + [[s, 0, 0]]), min_size=2, max_size=4,
                           unique_by=lambda x: tuple(x)))
    hydrogens = of_element("H", 5)
    near = st.lists(st.sampled_from([s for s in NEAR_CH]).map(lambda s: [s, 0, 0]), min_size=1, max_size=5,
                    unique_by=lambda x: tuple(x))
    anyatoms = st.lists(pool.atom(), min_size=1, max_size=5)
    carbons = of_element("C", 3)
    organic = st.tuples(st.sampled_from([[["C", 0, 0]], [["C", 0, 0], ["H", 0, 0]], [["C", 13, 0], ["H", 0, 0]],
                                         [["C", 0, 0], ["D", 0, 0]], [["C", 0, 0], ["H", 0, 1]]]), near
                        ).map(lambda t: t[0] + [x for x in t[1] if x not in t[0]])
    base = st.one_of(family, ions, hydrogens, near, anyatoms, organic, carbons)
    return st.tuples(base, st.one_of(st.just([]), near, anyatoms, family)).map(lambda t: t[0] + t[1])


def count8():
    return st.one_of(st.integers(1, 12).map(lambda n: 8 * n), st.integers(1, 12).map(lambda n: 8 * n),
                     st.integers(1, 400).map(lambda n: 8 * n), st.integers(1, 800))


MULTS = [Fraction(1), Fraction(1), Fraction(2), Fraction(4), Fraction(8), Fraction(1, 2), Fraction(1, 4), Fraction(3)]


def _partition(draw, items, max_chunks=4):
    if len(items) <= 1:
        return [items]
    ncut = draw(st.integers(0, min(max_chunks - 1, len(items) - 1)))
    cuts = sorted(draw(st.lists(st.integers(1, len(items) - 1), min_size=ncut, max_size=ncut, unique=True)))
    out, prev = [], 0
    for c in cuts + [len(items)]:
        out.append(items[prev:c])
        prev = c
    return out


def _divisible(chunk, m):
    """A multiplier is usable if every inner count stays an exact short binary fraction."""
    return all((c / m).denominator in (1, 2, 4, 8, 16, 32, 64, 128, 256, 512) for _, c in chunk)


def _groups(draw, specs, pieces, depth):
    chunks = _partition(draw, pieces)
    groups = []
    for chunk in chunks:
        m = draw(st.sampled_from(MULTS))
        if not _divisible(chunk, m):
            m = Fraction(1)
        inner = [(i, c / m) for i, c in chunk]
        pads = draw(fa._pads())
        if depth > 0 and len(inner) >= 2 and draw(st.booleans()):
            gs, ss = _groups(draw, specs, inner, depth - 1)
            groups.append(["e", gs, ss, cstr(m), pads])
        else:
            atoms = [["a", specs[i], draw(st.booleans()), cstr(c, draw(st.booleans()))] for i, c in inner]
            if draw(st.booleans()):
                groups.append(["i", cstr(m), atoms])
            else:
                groups.append(["e", [["i", None, atoms]], [], cstr(m), pads])
    seps = [draw(st.sampled_from(fa.SEPS)) for _ in range(len(groups) - 1)]
    return groups, seps


def _pieces(draw, ks):
    n = len(ks)
    order = draw(st.permutations(list(range(n))))
    pieces = []
    for i in order:
        k = ks[i]
        if k >= 2 and draw(st.integers(0, 3)) == 0:
            k1 = draw(st.integers(1, k - 1))
            pieces += [(i, Fraction(k1, 8)), (i, Fraction(k - k1, 8))]
        else:
            pieces.append((i, Fraction(k, 8)))
    if len(pieces) > n:
        pieces = draw(st.permutations(pieces))
    return list(pieces)


def _variant(draw, specs, ks):
    kind = draw(st.sampled_from(["dict", "dict", "tree", "tree", "tree", "arith"]))
    if kind == "dict":
        return ["dict", list(draw(st.permutations(list(range(len(ks))))))]
    pieces = _pieces(draw, ks)
    if kind == "tree":
        gs, ss = _groups(draw, specs, pieces, 2)
        return ["tree", {"g": gs, "s": ss, "d": None}]
    parts = []
    for chunk in _partition(draw, pieces, 3):
        m = draw(st.sampled_from(MULTS))
        if not _divisible(chunk, m):
            m = Fraction(1)
        inner = [(i, c / m) for i, c in chunk]
        if draw(st.booleans()):
            gs, ss = _groups(draw, specs, inner, 1)
            part = ["tree", {"g": gs, "s": ss, "d": None}]
        else:
            part = ["seq", [[jnum(c), specs[i]] for i, c in inner]]
        parts.append([jnum(m), part, draw(st.booleans())])
    # early: take (and check) the Hill form of every intermediate formula as soon as it exists, so that
    # the following operations work on operands whose Hill form has already been taken
    return ["arith", parts, draw(st.booleans())]


def cases(pool):
    @st.composite
    def gen(draw):
        raw = draw(atom_lists(pool))
        specs, seen = [], set()
        for s in raw:
            k = spec_key(pool, s)
            if k not in seen and len(specs) < 7:
                seen.add(k)
                specs.append(s)
        ks = [draw(count8()) for _ in specs]
        nvar = draw(st.integers(2, 4))
        variants = [_variant(draw, specs, ks) for _ in range(nvar)]
        # table: the formulas of the case are built from the atoms of the public or of a private table;
        # moved[i]: on the private table, variant i is built on the public table and then moved with change_table
        which = draw(st.sampled_from(["public", "public", "private"]))
        moved = [draw(st.booleans()) for _ in variants] if which == "private" else []
        return {"kind": "multiset", "atoms": [[s, k] for s, k in zip(specs, ks)], "variants": variants,
                "table": which, "moved": moved}
    return gen()


# ----------------------------------------------------------------------
# interpretation
def variant_model(pool, atoms, v):
    if v[0] == "dict":
        return dict((spec_key(pool, atoms[i][0]), Fraction(atoms[i][1], 8)) for i in v[1])
    if v[0] == "tree":
        return fa.composition(pool, v[1])
    total = {}
    for m, part, _ in v[1]:
        if part[0] == "tree":
            comp = fa.composition(pool, part[1])
        else:
            comp = {}
            for c, spec in part[1]:
                k = spec_key(pool, spec)
                comp[k] = comp.get(k, 0) + Fraction(c)
        for k, c in comp.items():
            total[k] = total.get(k, 0) + c * Fraction(m)
    return total


def part_model(pool, part):
    if part[0] == "tree":
        return fa.composition(pool, part[1])
    comp = {}
    for c, spec in part[1]:
        k = spec_key(pool, spec)
        comp[k] = comp.get(k, 0) + Fraction(c)
    return comp


def variant_build(E, atoms, v, hook=None):
    """Build the formula of a variant.  For an arithmetic variant with the 'early' flag, hook(f, model, label)
    is called on every intermediate formula (part, product, running sum) right after it exists/changes."""
    table, formula, pool = E["table"], E["formula"], E["pool"]
    if v[0] == "dict":
        d = {}
        for i in v[1]:
            spec, k = atoms[i]
            d[resolve(table, spec)] = jnum(Fraction(k, 8))
        return formula(d), "dict"
    if v[0] == "tree":
        return formula(fa.render(v[1]), table=table), "string"
    early = len(v) > 2 and v[2] and hook is not None
    f, fmodel = None, {}
    for n, (m, part, inplace) in enumerate(v[1]):
        if part[0] == "tree":
            p = formula(fa.render(part[1]), table=table)
        else:
            p = formula([(c, resolve(table, spec)) for c, spec in part[1]])
        pm = part_model(pool, part)
        if early:
            hook(p, pm, "part %d" % n)
        q = m * p
        qm = ops.mscale(pm, Fraction(m))
        if early:
            hook(q, qm, "%r * part %d (after part.hill)" % (m, n))
            hook(p, pm, "part %d after it was multiplied" % n)
        if f is None:
            f = q
        elif inplace:
            f += q
        else:
            f = f + q
        fmodel = ops.madd(fmodel, qm)
        if early and n:
            hook(f, fmodel, "sum of parts 0..%d (%s)" % (n, "+=" if inplace else "+"))
            hook(q, qm, "product %d after it was added" % n)
    return f, "arithmetic-early" if early else "arithmetic"


def describe(v):
    if v[0] == "tree":
        return fa.render(v[1])
    if v[0] == "dict":
        return "dict order %r" % (v[1],)
    return " + ".join("%r*%s" % (m, fa.render(p[1]) if p[0] == "tree" else "seq%r" % (p[1],)) for m, p, _ in v[1])


def hill_key(atom):
    return (0 if atom.symbol in CH else 1, atom.symbol, getattr(atom, "isotope", 0))


def all_atoms(structure):
    for _, frag in structure:
        if isinstance(frag, (list, tuple)):
            for a in all_atoms(frag):
                yield a
        else:
            yield frag


def deep_tuple(s):
    return tuple((c, deep_tuple(f) if isinstance(f, (list, tuple)) else f) for c, f in s)


def classify(keys):
    """(two_charges, tie, two_isotopes, dt_h) of a set of atom keys."""
    by_el, by_iso = {}, {}
    for (z, a, c) in keys:
        by_el.setdefault(z, set()).add(a)
        by_iso.setdefault((z, a), set()).add(c)
    two_charges = any(len(v) > 1 for v in by_iso.values()) or any(
        len(set(c for (z2, a2, c) in keys if z2 == z)) > 1 for z in by_el)
    tie = any(len(v) > 1 for v in by_iso.values())
    two_isotopes = any(len(v) > 1 for v in by_el.values())
    dt_h = any(k[:2] in ((1, 2), (1, 3)) for k in keys) and any(k[0] == 1 and k[1] not in (2, 3) for k in keys)
    return two_charges, tie, two_isotopes, dt_h


def check_hill(E, f, model, where, case, exact=True, ref_from_atoms=None, mass=True):
    """One formula against its model {key: Fraction}: f.hill has the model's atoms (exactly, or rel 1e-12 when
    the counts are arbitrary doubles) and f.atoms; is flat, complete and ordered; is idempotent; equals the Hill
    form of a fresh formula({atom: count}) with the same atoms given in another order.  Returns (hill, atoms in order)."""
    table, formula = E["table"], E["formula"]
    before = deep_tuple(f.structure)
    h = f.hill
    if deep_tuple(f.structure) != before:
        raise Violation("c19:hill-mutates", "%s: taking .hill changed the formula" % where, case)
    fa_ = f.atoms
    ha = h.atoms
    got = {}
    for a, n in ha.items():
        k = atom_key(a)
        if k in got or a is not key_to_atom(table, k):
            raise Violation("c19:atoms:identity", "%s: Hill form has a foreign/duplicate atom %r" % (where, a), case)
        got[k] = n
    # against the model an atom with count 0 counts as absent (0*A + B); against f.atoms the dicts must be equal
    union = set(got) | set(model)
    if exact:
        bad = any(Fraction(got.get(k, 0)) != model.get(k, 0) for k in union)
    else:
        bad = any(abs(float(got.get(k, 0)) - float(model.get(k, 0))) > 1e-12 * abs(float(model.get(k, 0))) for k in union)
    if bad:
        raise Violation("c19:atoms", "%s: Hill form %s has atoms %r, expected %r"
                        % (where, h, got, dict((k, float(c)) for k, c in model.items())), case)
    if ha != fa_:
        b = "c19:atoms"
        if sorted((atom_key(a), n) for a, n in ha.items()) == sorted((atom_key(a), n) for a, n in fa_.items()):
            b = "c19:atoms:identity"        # same counts, other atom objects
        raise Violation(b, "%s: f.hill.atoms %r != f.atoms %r" % (where, ha, fa_), case)
    for a in all_atoms(h.structure):
        if a is not key_to_atom(table, atom_key(a)):
            raise Violation("c19:atoms:identity", "%s: atom %r of the Hill structure is not an atom of the %s table"
                            % (where, a, E.get("which", "public")), case)
    fm, hm = (f.mass, h.mass) if mass else (0, 0)
    if not (fm == hm or abs(fm - hm) <= 1e-12 * max(abs(fm), abs(hm))):
        raise Violation("c19:mass", "%s: mass of the Hill form %r, of the formula %r" % (where, hm, fm), case)
    # flat, complete, ordered
    seq = []
    for entry in h.structure:
        if (not isinstance(entry, (list, tuple)) or len(entry) != 2 or isinstance(entry[1], (list, tuple))):
            raise Violation("c19:not-flat", "%s: Hill structure %r is not a flat list of (count, atom)"
                            % (where, h.structure), case)
        seq.append(entry[1])
    if len(set(id(a) for a in seq)) != len(seq):
        raise Violation("c19:duplicates", "%s: Hill structure %r lists an atom twice" % (where, h.structure), case)
    keys = [hill_key(a) for a in seq]
    for x, y, ax, ay in zip(keys, keys[1:], seq, seq[1:]):
        if x > y:
            what = ("isotope" if x[:2] == y[:2] else "CH-first" if x[0] != y[0] else "alphabetical")
            raise Violation("c19:order:" + what, "%s: Hill form %s lists %r before %r" % (where, h, ax, ay), case)
    # idempotence
    hh = h.hill
    if not (hh == h) or str(hh) != str(h):
        raise Violation("c19:idempotence", "%s: hill.hill = %s (%r) but hill = %s (%r)"
                        % (where, hh, hh.structure, h, h.structure), case)
    # a second look gives the same answer
    h2 = f.hill
    if not (h2 == h):
        raise Violation("c19:unstable", "%s: .hill taken twice gives %s then %s" % (where, h, h2), case)
    # canonical: a fresh formula with the same atom counts, keys in another order
    if ref_from_atoms is None:
        ref_from_atoms = not exact
    if not ref_from_atoms:
        items = [(key_to_atom(table, k), jnum(model[k])) for k in sorted(model, reverse=True)]
    else:
        items = list(reversed(list(fa_.items())))
    ref = formula(dict(items))
    rh = ref.hill
    if not (rh == h) or str(rh) != str(h):
        tie = classify(set(model))[1]
        same_upto_charge = [hill_key(a) for _, a in rh.structure] == keys
        b = "c19:canonical:charge-state-order" if (same_upto_charge and tie and
                                                   [id(a) for _, a in rh.structure] != [id(a) for a in seq]) else "c19:canonical"
        raise Violation(b, "same atoms, different Hill forms: %s -> %s but formula(%r) -> %s"
                        % (where, h, dict(items), rh), case)
    return h, seq


def check_case(ctx, case):
    which = case.get("table", "public")
    moved = case.get("moved") or []
    E0 = env()
    E = on_table(E0, which)
    pool, table, formula = E["pool"], E["table"], E["formula"]
    atoms = case["atoms"]
    multiset = dict((spec_key(pool, s), Fraction(k, 8)) for s, k in atoms)
    assert len(multiset) == len(atoms)
    two_charges, tie, two_isotopes, dt_h = classify(set(multiset))
    cls = sorted(set("atom:" + spec_class(s) for s, _ in atoms)) + sorted(set("variant:" + v[0] for v in case["variants"]))
    for flag, name in ((two_charges, "nt:two-charge-states"), (tie, "nt:charge-tie-same-isotope"),
                       (two_isotopes, "nt:two-isotopes"), (dt_h, "nt:DT-with-H")):
        if flag:
            cls.append(name)
    if any(k[0] == 6 for k in multiset):
        cls.append("has-C")
    if any(v[0] == "arith" and len(v) > 2 and v[2] for v in case["variants"]):
        cls.append("variant:arith-early-hill")
    cls.append("table:" + which)
    if any(moved):
        cls.append("table:private-via-change_table")
    ctx.case(json.dumps(case, sort_keys=True), nontrivial=(two_charges or two_isotopes or dt_h),
             sample={"atoms": atoms, "variants": [describe(v)[:100] for v in case["variants"]]}, cls=cls)

    hills = []
    for vi, v in enumerate(case["variants"]):
        model = variant_model(pool, atoms, v)
        if model != multiset:
            raise AssertionError("generator bug: variant %r has composition %r, multiset %r" % (v, model, multiset))
        label = "variant %d (%s)" % (vi, describe(v)[:120])

        def hook(g, gmodel, what):
            check_hill(E, g, gmodel, "%s, %s" % (label, what), case)
        if vi < len(moved) and moved[vi]:
            # built from public atoms, then moved to the private table
            f, how = variant_build(E0, atoms, v, None)
            f.change_table(table)
            how += ", change_table"
        else:
            f, how = variant_build(E, atoms, v, hook)
        if which != "public":
            how += ", private table"
        where = "variant %d (%s: %s)" % (vi, how, describe(v)[:120])
        h, seq = check_hill(E, f, multiset, where, case)
        hills.append((h, where, seq))
    # canonicity
    h0, w0, seq0 = hills[0]
    for h, w, seq in hills[1:]:
        if not (h0 == h) or str(h0) != str(h):
            same_upto_charge = [hill_key(a) for a in seq0] == [hill_key(a) for a in seq]
            b = "c19:canonical:charge-state-order" if (same_upto_charge and tie and
                                                       [id(a) for a in seq0] != [id(a) for a in seq]) else "c19:canonical"
            raise Violation(b, "same atoms, different Hill forms: %s -> %s but %s -> %s" % (w0, h0, w, h), case)
    # written in Hill order, parsed
    tree = {"g": [["i", None, [["a", list(_spec_of(a)), False, cstr(multiset[atom_key(a)])] for a in seq0]]],
            "s": [], "d": None}
    s = fa.render(tree)
    kw = {} if which == "public" else {"table": table}
    # every documented spelling of that string: bare, with a density tag, with the density/name keywords
    spellings = [(s, {}), (s + "@2.5", {}), (s + "@2.5i", {}), (s + "@0.75n", {}), (s, {"density": 2.5}),
                 (s, {"natural_density": 0.75}), (s, {"name": "in Hill order"}), (s + "@1.5n", {"name": "x"})]
    for text, extra in spellings:
        args = dict(kw)
        args.update(extra)
        shown = "formula(%r%s)" % (text, "".join(", %s=%r" % kv for kv in sorted(extra.items())) + (", table=T" if kw else ""))
        p = formula(text, **args)
        ph = p.hill
        if not (p == ph) or not (ph == p):
            if deep_tuple(p.structure) == deep_tuple(ph.structure):
                b = "c19:parsed-vs-own-hill:container-type"
                msg = "structures differ only in list vs tuple"
            else:
                b = "c19:parsed-vs-own-hill:order"
                msg = "order differs"
            raise Violation(b, "%s != its own .hill: %r vs %r (%s)" % (shown, p.structure, ph.structure, msg), case)
        if not (ph == h0) or not (h0 == ph) or str(ph) != str(h0):
            raise Violation("c19:canonical:parsed", "%s.hill = %s differs from the variants' Hill form %s"
                            % (shown, ph, h0), case)
        for a in all_atoms(ph.structure):
            if a is not key_to_atom(table, atom_key(a)):
                raise Violation("c19:atoms:identity", "%s.hill holds %r, not an atom of the %s table" % (shown, a, which), case)


# ----------------------------------------------------------------------
# operation histories (pbt/fops_c02.py): Hill forms taken between the operations
def check_history(ctx, value):
    history, early = value[0], bool(value[1])
    E = env()
    case = {"kind": "history", "ops": history, "early": early}
    seen = set()

    def look(vars_, i, where):
        v = vars_[i]
        if not v.comp or any(c < 0 for c in v.comp.values()):
            return
        seen.update(v.comp)
        # a variable into which only ints and Fractions went has exactly the model's counts, whatever their type
        check_hill(on_table(E, v.table), v.f, v.comp, where + " (%s table)" % v.table, case, exact=v.exact,
                   ref_from_atoms=True)

    def observer(step, vars_):
        # the Hill form of the new/changed variable and, again, of its operands, right after the step
        i = step.new if step.new is not None else step.changed
        where = "step %d %s" % (step.index, json.dumps(step.op)[:80])
        if i is not None:
            look(vars_, i, where + ": result")
        for j in step.operands:
            if j != i:
                look(vars_, j, where + ": operand %d" % j)
    vars_, flags, skipped = ops.interpret(history, observer=observer if early else None,
                                          mag=(Fraction(1, 10 ** 12), Fraction(10 ** 12)))
    for i in range(len(vars_)):
        look(vars_, i, "end of history, variable %d" % i)
    two_charges, tie, two_isotopes, dt_h = classify(seen)
    cls = ["source:history", "history:hill-after-every-step" if early else "history:hill-at-end"]
    cls += ["op:" + k for k in sorted(set(flags["kinds"]))]
    ctx.case(json.dumps(case, sort_keys=True), nontrivial=(two_charges or two_isotopes or dt_h),
             sample={"ops": history if len(history) <= 6 else history[:6] + ["..."], "early": early,
                     "hill": [str(v.f.hill)[:60] for v in vars_][:5]}, cls=cls)


def _spec_of(atom):
    iso = getattr(atom, "isotope", 0)
    if atom.number == 1 and iso in (2, 3):
        return ("D" if iso == 2 else "T", 0, atom.charge)
    base = atom
    while hasattr(base, "element"):
        base = base.element
    return (base.symbol, iso, atom.charge)


# ----------------------------------------------------------------------
# long histories: ionic formulas are built and their Hill forms taken, then several hundred other ions are
# used, then the same species are obtained again (other spellings, arithmetic with the formulas held from before)
def long_cases(pool):
    ionic = st.one_of(pool.ion(), pool.ion(), pool.isotope_ion(), pool.dt_ion(), pool.element())
    specs = st.one_of(st.lists(ionic, min_size=1, max_size=4), atom_lists(pool).map(lambda l: l[:4]))
    item = st.tuples(specs.flatmap(lambda l: st.tuples(*[st.tuples(st.just(sp), count8()).map(list) for sp in l]).map(list)),
                     st.sampled_from(["public", "public", "private"]),
                     st.sampled_from(["dict", "string", "string-grouped"])
                     ).map(lambda t: {"atoms": t[0], "table": t[1], "how": t[2]})
    scan = st.fixed_dictionaries({
        "offset": st.integers(0, 2000), "reverse": st.booleans(),
        "iso": st.lists(st.integers(0, 10 ** 6), min_size=0, max_size=150),
        "table": st.sampled_from(["public", "public", "private"]),
        "mode": st.sampled_from(["lookup", "lookup", "parse"]),
        # a short scan is there for the shrinker: a failure that does not need the long scan shrinks to it
        "limit": st.sampled_from([30, 5000, 5000, 5000, 5000])})
    return st.tuples(st.lists(item, min_size=1, max_size=5), scan).map(
        lambda t: {"kind": "long", "first": t[0], "scan": t[1]})


def _flat_tree(specs_counts, grouped=False):
    atoms = [["a", list(sp), False, cstr(c)] for sp, c in specs_counts]
    if grouped and len(atoms) > 1:
        # the first atom in a group of its own with multiplier 2 and half the count
        sp, c = specs_counts[0]
        first = ["e", [["i", None, [["a", list(sp), False, cstr(c / 2)]]]], [], "2", ["", "", "", ""]]
        return {"g": [first, ["i", None, atoms[1:]]], "s": [""], "d": None}
    return {"g": [["i", None, atoms]], "s": [], "d": None}


def check_long(ctx, case):
    from .c13 import scan_specs          # the exhaustive element-ion scan (plus drawn isotope ions) of C13
    E0 = env()
    pool = E0["pool"]
    held = []
    nt = False
    for n, item in enumerate(case["first"]):
        E = on_table(E0, item["table"])
        table, formula = E["table"], E["formula"]
        kw = {} if item["table"] == "public" else {"table": table}
        pairs, seen = [], set()
        for spec, k in item["atoms"]:
            key = spec_key(pool, spec)
            if key not in seen:
                seen.add(key)
                pairs.append((spec, Fraction(k, 8)))
        model = dict((spec_key(pool, sp), c) for sp, c in pairs)
        if not any(k[2] for k in model):
            continue                      # no ion in it
        nt = nt or any(classify(set(model))[i] for i in (0, 2, 3))
        if item["how"] == "dict":
            f = formula(dict((resolve(table, sp), jnum(c)) for sp, c in pairs))
        else:
            f = formula(fa.render(_flat_tree(pairs, item["how"] == "string-grouped")), **kw)
        where = "formula %d (%s, %s table) before the scan" % (n, str(f)[:60], item["table"])
        h, _ = check_hill(E, f, model, where, case)
        held.append((n, item, E, pairs, model, f, h))
    # the scan
    scan = case["scan"]
    T = E0["tables"][scan["table"]]
    specs = scan_specs(pool, dict(scan, count=None))
    if scan["mode"] == "lookup":
        for sp in specs:
            resolve(T, sp)
    else:
        kw = {} if scan["table"] == "public" else {"table": T}
        for i in range(0, len(specs), 4):
            E0["formula"](fa.render(_flat_tree([(sp, Fraction(1)) for sp in specs[i:i + 4]])), **kw)
    if len(specs) > 128:
        # every ion of every isotope of that table (more than 14 000 objects): a bounded memo of ions has turned over
        for el in T:
            for iso in el:
                for c in el.ions:
                    iso.ion[c]
    ctx.case(json.dumps(case, sort_keys=True), nontrivial=nt,
             sample={"first": [str(x[5])[:40] for x in held], "scanned": len(specs), "mode": scan["mode"]},
             cls=["source:long", "long:scan-" + scan["mode"], "long:scan>128" if len(specs) > 128 else "long:scan-short",
                  "table:" + scan["table"]])
    # the same species again
    for n, item, E, pairs, model, f, h in held:
        table, formula = E["table"], E["formula"]
        kw = {} if item["table"] == "public" else {"table": table}
        after = "after %d other ions" % len(specs)
        # the formula held from before, and its Hill form taken again
        h2, _ = check_hill(E, f, model, "formula %d (%s) held from before, %s" % (n, str(f)[:60], after), case)
        if not (h2 == h) or not (h == h2) or str(h2) != str(h):
            raise Violation("c19:canonical:before-after", "formula %d: Hill form %s (%r) before, %s (%r) %s"
                            % (n, h, h.structure, h2, h2.structure, after), case)
        # other spellings of the same atoms, made now
        rev = list(reversed(pairs))
        others = [("dict, reversed order", formula(dict((resolve(table, sp), jnum(c)) for sp, c in rev))),
                  ("string, reversed order", formula(fa.render(_flat_tree(rev)), **kw)),
                  ("string, regrouped", formula(fa.render(_flat_tree(rev, True)), **kw))]
        for what, g in others:
            where = "formula %d spelled again (%s: %s) %s" % (n, what, str(g)[:60], after)
            gh, _ = check_hill(E, g, model, where, case)
            if not (gh == h) or not (h == gh) or str(gh) != str(h):
                raise Violation("c19:canonical:before-after", "%s: Hill form %s, but %s for the formula built before"
                                % (where, gh, h), case)
            # arithmetic with the formula held from before: every species is listed once
            for label, total in (("held + new", f + g), ("new + held", g + f)):
                double = dict((k, 2 * c) for k, c in model.items())
                check_hill(E, total, double, "formula %d, %s (%s) %s" % (n, label, str(total)[:60], after), case)


# ----------------------------------------------------------------------
def task_long(ctx, n):
    E = env()
    ctx.search("long", long_cases(E["pool"]), check_long, n)


def task_multisets(ctx, n):
    E = env()
    ctx.search("multisets", cases(E["pool"]), check_case, n)


def task_histories(ctx, n, steps=14):
    E = env()
    strat = st.tuples(ops.history(E["pool"], max_steps=steps, mult=ops.number(zero=True, exact=True), tables=True, zeros=True, exact=True), st.sampled_from([True, True, False]))
    ctx.search("histories", strat.map(list), check_history, n)


# ----------------------------------------------------------------------
# counts of exact decimal type (decimal.Decimal) given through formula(dict), formula(sequence) and n*formula
DECIMALS = ["0.1", "0.3", "1.7", "2.05", "0.001", "12.5", "3", "0.7", "1E-3", "0.333"]


def check_decimal(ctx, case):
    # Decimal counts are multiplied by the library in the caller's decimal context: a caller who asks for exact
    # Decimal counts works at a precision that holds them, so this case runs in the 80-digit context whatever
    # the ambient layer (pbt/ambient.py) has set for the thread
    import decimal
    from ..dec import HI
    with decimal.localcontext(HI):
        _check_decimal(ctx, case)


def _check_decimal(ctx, case):
    from decimal import Decimal as D
    E = env()
    pool, table, formula = E["pool"], E["table"], E["formula"]
    pairs, seen = [], set()
    for spec, text in case["atoms"]:
        k = spec_key(pool, spec)
        if k not in seen:
            seen.add(k)
            pairs.append((spec, text))
    how = case["how"]
    n = D(case["n"])
    if how == "dict":
        f = formula(dict((resolve(table, sp), D(t)) for sp, t in pairs))
        model = dict((spec_key(pool, sp), Fraction(D(t))) for sp, t in pairs)
    elif how == "seq":
        f = formula([(D(t), resolve(table, sp)) for sp, t in pairs])
        model = dict((spec_key(pool, sp), Fraction(D(t))) for sp, t in pairs)
    else:
        f = n * formula(dict((resolve(table, sp), 1 + i) for i, (sp, t) in enumerate(pairs)))
        model = dict((spec_key(pool, sp), Fraction(n) * (1 + i)) for i, (sp, t) in enumerate(pairs))
    ctx.case(json.dumps(case, sort_keys=True), nontrivial=any(classify(set(model))[i] for i in (0, 2, 3)),
             sample=case, cls=["source:decimal-counts", "decimal:" + how])
    for what, g, m in (("f", f, model), ("2*f", 2 * f, ops.mscale(model, 2)), ("f+f", f + f, ops.mscale(model, 2)),
                       ("n*f", n * f, ops.mscale(model, Fraction(n)))):
        check_hill(E, g, m, "Decimal counts via %s, %s = %s" % (how, what, str(g)[:60]), case, exact=True,
                   ref_from_atoms=True, mass=False)
    if how == "dict":
        # formula(dict) is already in Hill order
        if not (f == f.hill) or not (f.hill == f):
            raise Violation("c19:parsed-vs-own-hill:order", "formula(dict with Decimal counts) %r != its .hill %r"
                            % (f.structure, f.hill.structure), case)


def task_decimal(ctx, n):
    E = env()
    pool = E["pool"]
    strat = st.fixed_dictionaries({
        "kind": st.just("decimal"),
        "atoms": st.lists(st.tuples(pool.atom(), st.sampled_from(DECIMALS)).map(list), min_size=1, max_size=4),
        "how": st.sampled_from(["dict", "seq", "mul"]), "n": st.sampled_from(DECIMALS)})
    ctx.search("decimal", strat, check_decimal, n)


SERIES = [[0, 1], [1, 0], [0.0, 1.0], [1.0, 0.0], [0, 1.0], [0.5, 0.5], [0.25, 0.75], [0, 0]]


def task_series(ctx, n):
    """Composition series x*A + (1-x)*B including the end members x = 0 and x = 1."""
    E = env()
    c = ops.constructor(E["pool"], tables=False, zeros=True, exact=True)
    strat = st.tuples(c, c, st.sampled_from(SERIES), st.booleans()).map(
        lambda t: [[t[0], t[1], ["mul", t[2][0], 0], ["mul", t[2][1], 1], ["add", 2, 3], ["add", 3, 2], ["iadd", 2, 3]], t[3]])
    ctx.search("series", strat, check_history, n)


# ----------------------------------------------------------------------
# little stack left (pbt/depth.py): the Hill form taken from deep inside the caller's own recursion is the Hill form
DEPTH_FORMULAS = ["O[18]O[16]O", "H{-}H{+}HD", "C[13]H4C2O[18]O", "Fe{3+}Fe{2+}2O{2-}4", "Cl{-}ClNaNa{+}", "TDHCH[1]H[2]",
                  "U[238]U[235]U[234]O8", "HeNeArKrXeRn", "CaCO3(H2O)6", "C2H6OSiN"]


def check_depth(ctx, case):
    import sys
    from .. import depth
    E = env()
    formula = E["formula"]
    text = case["text"]
    ctx.case(("depth", text, case["what"]), nontrivial=True, sample=case, cls=["little-stack:" + case["what"]])
    f = formula(text)
    if case["what"] == "hill":
        fn = lambda: (f.hill.structure, str(f.hill))
    elif case["what"] == "dict":
        atoms = dict(f.atoms)
        fn = lambda: (formula(atoms).structure, None)
    else:
        fn = lambda: (formula(text).hill.structure, None)
    old = sys.getrecursionlimit()
    try:
        for limit in (old, 140, 60):
            try:
                sys.setrecursionlimit(limit)
                bad = depth.sweep(fn, lambda a, b: deep_tuple(a[0]) == deep_tuple(b[0]) and a[1] == b[1], remaining=80)
            except RecursionError:
                continue            # not even the baseline fits under this limit
            if bad:
                sys.setrecursionlimit(old)
                raise Violation("c19:little-stack:" + case["what"],
                                "%s of %r with %d frames left below the recursion limit %d returned %r; anywhere else it is %r"
                                % (case["what"], text, bad[0], limit, bad[1][0], fn()[0]), case)
    finally:
        sys.setrecursionlimit(old)


# ----------------------------------------------------------------------
# two changes of one Formula object with NO read in between (change_table twice, += twice): the Hill form read
# afterwards is that of the formula as it is now.  (A memo validated by the identity of the structure tuple is fooled
# when the tuple of the first change is freed and the second one is allocated at its address.)
B2B_FORMULAS = DEPTH_FORMULAS + ["C3H8O2NS", "NaClKBrLiFCs", "Fe2O3(H2O)3SiO2", "(CH3)3COHNaCl", "H2SO4", "UO2F2NaCl",
                                 "MgSiO3FeTiO3Al2O3CaO", "C6H12O6N2P2S2Cl", "AuAgCuPtPdRhIrOs"]


def check_back_to_back(ctx, case):
    E0 = env()
    formula, pool = E0["formula"], E0["pool"]
    if "second" not in E0["tables"]:
        from periodictable import mass, density
        from .. import subtable
        T2 = subtable.new("c19-second")
        mass.init(T2)
        density.init(T2)
        E0["tables"]["second"] = T2
    text, how, rep = case["text"], case["how"], case["rep"]
    ctx.case(("b2b", text, how, rep), nontrivial=True, sample=case, cls=["back-to-back:" + how])
    for _ in range(rep):
        f = formula(text)
        model = dict((atom_key(a), Fraction(n)) for a, n in f.atoms.items())
        f.hill, f.mass                                   # read: whatever is memoised, is memoised now
        if how == "change_table":
            f.change_table(E0["tables"]["private"])
            f.change_table(E0["tables"]["second"])       # straight after, nothing read in between
            E = on_table(E0, "second")
            where = "%r moved to one private table and straight on to a second one" % text
        else:
            g = formula("Xe2Kr")
            f += g
            f += g
            for a, n in g.atoms.items():
                model[atom_key(a)] = model.get(atom_key(a), 0) + 2 * Fraction(n)
            E = E0
            where = "%r extended twice in place by Xe2Kr with no read in between" % text
        check_hill(E, f, model, where, case, mass=False)


def task_back_to_back(ctx):
    for text in B2B_FORMULAS:
        for how in ("change_table", "iadd"):
            ctx.check(check_back_to_back, {"kind": "b2b", "text": text, "how": how, "rep": 40})


def task_depth(ctx):
    for text in DEPTH_FORMULAS:
        for what in ("hill", "dict", "parse-hill"):
            ctx.check(check_depth, {"kind": "depth", "text": text, "what": what})


def tasks(tier):
    if tier == "quick":
        return ([("multisets-%d" % k, task_multisets, dict(n=330)) for k in range(8)] +
                [("histories-%d" % k, task_histories, dict(n=200)) for k in range(3)] +
                [("long-%d" % k, task_long, dict(n=60)) for k in range(2)] +
                [("series", task_series, dict(n=150)), ("decimal", task_decimal, dict(n=150)), ("little-stack", task_depth, {}), ("back-to-back", task_back_to_back, {})])
    # coverage-guided tier (pbt/fuzz.py): libFuzzer drives the strategies and oracles of these tasks
    from .. import fuzz
    return fuzz.extend([("multisets-%d" % k, task_multisets, dict(n=10000)) for k in range(12)] +
                       [("histories-%d" % k, task_histories, dict(n=4000, steps=12 + 4 * k)) for k in range(4)] +
                       [("long-%d" % k, task_long, dict(n=1500)) for k in range(2)] +
                       [("series", task_series, dict(n=4000)), ("decimal", task_decimal, dict(n=3000)), ("little-stack", task_depth, {}),
                        ("back-to-back", task_back_to_back, {})], PROPERTY, ['multisets-0'])


def replay(ctx, case):
    if case.get("kind") == "b2b":
        return check_back_to_back(ctx, case)
    if case.get("kind") == "depth":
        return check_depth(ctx, case)
    if case.get("kind") == "decimal":
        check_decimal(ctx, case)
    elif case.get("kind") == "long":
        check_long(ctx, case)
    elif case.get("kind") == "history":
        check_history(ctx, (case["ops"], case.get("early", False)))
    else:
        check_case(ctx, case)
