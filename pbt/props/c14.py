"""
C14 - activation equals the exact solution of the documented capture/decay chains.

Every one of the 513 reaction rows of activation.dat (read independently by
pbt/refcalc_activation.py) is evaluated in every generated environment and
compared with the closed-form chain solution computed in `decimal` at 120+
digits.  Errors above 1e-9 are classified with a forward error bound of the
branch's floating-point formulation (kappa): inside the bound the failure is
"cancellation in the spreadsheet formulation" (bucket c14:<branch>:cancellation),
outside it is a wrong value.  Relations (mass proportionality, monotone in
exposure up to target depletion, exact 2^(-t/T) rest decay, omission of fast /
epithermal terms, natural element = abundance-weighted sum) are checked on top,
through `activity()` and through `Sample.calculate_activation`.
"""
from .. import subtable
from decimal import Decimal as D
from fractions import Fraction
import math

from hypothesis import strategies as st

from ..runner import Violation, lib_frame
from .. import refcalc_activation as ra

AMBIENT_SKIP = ("decimal",)      # the oracle computes in the thread's decimal context throughout
PRISTINE_TASKS = ("route-",)     # the initialisation route is the first periodictable action of the process
PROPERTY = "C14"
RULE = ("rows: Hypothesis draws an environment (fluence 1e2..1e16, Cd ratio in {0} u (0,1) u [1,1e3], fast ratio in "
        "{0} u [1e-3,1e3], exposure 1e-3..1e4 h, 1..6 rest times in {0} u [1e-3,1e5] h, mass 1e-6..1e3 g, a second mass "
        "and a longer exposure) and EVERY row of activation.dat (independent reader) is evaluated in it; oracle = "
        "exact chain solution in decimal (120+ digits), accepted at rel 1e-9 (+1e-290 absolute for underflow); larger "
        "errors are classified small-argument / cancellation (<= 64 eps kappa) / wrong-value per branch; relations: "
        "rest values = value at removal * 2^(-t/T) (rel 1e-12 + 4 eps lam t), activity proportional to mass (rel "
        "1e-12), activity(longer exposure) >= activity * exp(-s1 dt), fast rows absent iff fast ratio 0, no negative "
        "value, no exception. non-trivial = 'b' or '2n' row, or fast row with fast ratio > 0, or (lam+s2) t < 1e-8, or "
        "s2 t > 1e-3; distinct by (row, environment). samples: formulas of 1..4 atoms (natural elements, isotopes, "
        "ions, isotope ions, D, T) x both abundance functions; oracle = sum over atoms of mass fraction x abundance "
        "(abundances re-read from the embedded NIST table text / activation.dat) x activity(isotope); all non-trivial. "
        "aimed: for every '2n' row x Cd ratio {0,1,20} the fluences at which two of the three rates coincide (computed "
        "from the independent reading), at relative offsets 0, +-1e-9, +-1e-7, +-5e-7, +-3e-6, exposure = product half-life "
        "and a tenth of it; every 'b' row with its parent half-life set to T(1+delta) (synthetic record); same oracle. "
        "table: every parsed field of every row equals the independent reading, every isotope serves exactly the rows of "
        "the file, and the file agrees with itself: for all 92 'b'/'2n' rows the parent half-life equals the half-life of "
        "the row that produces that parent (the line above, through 'b' rows), production and intermediate cross "
        "sections equal that row's, value+unit half-life = hours column (rel 1e-5), one half-life per nuclide name "
        "(pre-existing disagreements of the pinned table are listed in evidence, not asserted). reuse: ONE Sample object receives 2..3 "
        "consecutive calculate_activation calls (beam, exposure, rest times change; the two abundance functions "
        "alternate, starting with either) and after each call its activity must equal the independent expectation and "
        "the activity of a fresh Sample given the same call; ActivationEnvironment objects are shared between samples "
        "and calls and must stay unchanged, as must the caller's rest-time list (also for direct activity() calls, "
        "where one environment object and one list serve all isotopes of an example); every element is run with both "
        "abundance functions in both orders within one process.")
ASSUMPTIONS = [
    "the chain solved for 'b' rows has a constant production rate of the parent (no target or parent burn-up), as the "
    "table comments state ('burnup not calculated'); for other rows the product burns up with the cross sections of "
    "the 'parent' columns and the target with its own capture rate",
    "unit constants as documented in activation.py: barn = 1e-24 cm^2, 3600 s/h, 1.6278e19 uCi per (mol capture/s), "
    "mass number as molar mass; half-life = the 't1/2 in hr' column",
    "tolerance 1e-9 relative is taken as 'double-precision rounding of the solution' (a backward-stable evaluation "
    "of these closed forms is within ~1e-12 over the whole domain); absolute floor 1e-290 uCi for underflow",
    "kappa is a first-order rounding-error bound of the formulation in activation.py: term rounding sum|T_i|(6+k_i t)/|S| "
    "plus the conditioning of the exact solution with respect to each rate (finite difference), plus (s2+lamp)/s2 for "
    "'2n'; factor 64 (measured maximum on the unchanged tree, random and aimed probes: 0.24); a ZeroDivisionError of "
    "the '2n' branch where two rates agree to 8 eps (kappa = inf) is counted with the cancellation finding S17",
    "sample-level checks use activity() of the isotope as the base (metamorphic), the row-level checks decide its "
    "accuracy; atom masses are taken from the table (C06 decides them)",
    "fast ratio (thermal/fast) is generated in {0} u [1e-3, 1) u {1} u (1, 1e3]: fast reactions are omitted only for 0, "
    "any positive ratio gives the fast flux fluence/ratio; Cd ratio in {0} u (0,1) u {1} u (1, 1e3], below 1 means 'no "
    "epithermal term' as for 0",
]
EXHAUSTIVE = True
EXHAUSTIVE_NOTE = ("all 513 rows of activation.dat are evaluated in every generated environment; all fields of all "
                   "rows are compared with the independent reader; every element with activation data is run as a "
                   "natural-element sample with both abundance functions")

REL = 1e-9
FLOOR = 1e-290
CFACTOR = 64.0
_STATE = {}


class Env(object):
    pass


ROUTES = ["lazy-read", "init", "init-reload", "init-twice", "init-then-reload", "lazy-then-init", "lazy-then-reload",
          "sample-first", "private", "private-reload", "private-after-public"]


def perform_route(route):
    """Do the initialisation *route* as the very first periodictable action of
    this process; return the table the comparison is to run on."""
    import sys
    if "periodictable" in sys.modules:
        raise RuntimeError("route %r must be the first periodictable action of the process" % route)
    import periodictable
    table = periodictable.elements
    if route == "lazy-read":
        table.Co[59].neutron_activation
        return table
    if route == "sample-first":
        from periodictable import activation
        s = activation.Sample("Co30Fe70", 10)
        s.calculate_activation(activation.ActivationEnvironment(fluence=1e5, Cd_ratio=70, fast_ratio=50), exposure=10)
        return table
    from periodictable import activation
    if route == "init":
        activation.init(table)
    elif route == "init-reload":
        activation.init(table, reload=True)
    elif route == "init-twice":
        activation.init(table)
        activation.init(table)
    elif route == "init-then-reload":
        activation.init(table)
        activation.init(table, reload=True)
    elif route == "lazy-then-init":
        table.Co[59].neutron_activation
        activation.init(table)
    elif route == "lazy-then-reload":
        getattr(table.H[1], "neutron_activation", None)
        activation.init(table, reload=True)
    elif route in ("private", "private-reload", "private-after-public"):
        from periodictable import core, mass, density
        if route == "private-after-public":
            table.Au[197].neutron_activation
        T = subtable.new("c14-" + route)
        mass.init(T)
        density.init(T)     # a one-element formula takes its density from the element
        activation.init(T, reload=(route == "private-reload"))
        if route == "private-reload":
            activation.init(T, reload=True)
        return T
    else:
        raise ValueError(route)
    return table


def env(route=None):
    """Per-process environment.  *route* (only for the first call in a process)
    selects how the activation table gets initialised; default: lazily, by the
    first attribute read of the checks themselves."""
    if _STATE:
        if route is not None and _STATE["route"] != route:
            raise RuntimeError("environment already built by route %r" % _STATE["route"])
        return _STATE["E"]
    table = perform_route(route) if route is not None else None
    import periodictable
    from periodictable import activation, mass as pmass
    E = Env()
    E.pt = periodictable
    E.act = activation
    E.table = table if table is not None else periodictable.elements
    E.route = route or "lazy"
    _STATE["route"] = route
    E.rows = ra.read_rows()
    E.byiso = {}
    for r in E.rows:
        E.byiso.setdefault((r["Z"], r["A"]), []).append(r)
    E.keys = sorted(E.byiso)
    E.nist = read_nist_abundance(pmass.isotope_abundance)
    E.iaea = {}
    for (z, a), rs in E.byiso.items():
        E.iaea.setdefault(z, {})[a] = rs[0]["abundance"]
    _STATE["E"] = E
    return E


def read_nist_abundance(text):
    """{Z: {A: percent}} from the embedded CIAAW table text: central value of a
    range, value before '(' otherwise, normalised to 100 % per element (the
    module documentation says so)."""
    out = {}
    z = None
    for line in text.split("\n"):
        if not line.strip():
            continue
        if line[0] not in " \t":
            z = int(line.split()[0])
            out[z] = {}
        else:
            parts = line.split()
            v = parts[1]
            if v.startswith("["):
                nums = [Fraction(x) for x in v.strip("[]\\").split(",")]
                val = sum(nums) / len(nums)
            else:
                val = Fraction(v.split("(")[0].rstrip("\\"))
            out[z][int(parts[0])] = val
    res = {}
    for z, d in out.items():
        tot = sum(d.values())
        res[z] = dict((a, float(100 * v / tot)) for a, v in d.items())
    return res


# ----------------------------------------------------------------------
# strategies
def logu(lo, hi):
    """log-uniform in [lo, hi].  Drawn as a fraction u in [0,1] of the log range:
    Hypothesis' float strategy crowds around 0, which with u lands on the lower
    bound instead of on 10**0 in the middle of most ranges."""
    a, b = math.log10(lo), math.log10(hi)
    return st.floats(0.0, 1.0, allow_nan=False).map(lambda u: float(10.0 ** (a + (b - a) * u)))


def cd_ratio():
    """cadmium ratio: 0, (0, 1) (both: no epithermal term), exactly 1, (1, 1e3]"""
    return st.one_of(st.just(0.0), logu(1, 1e3), st.floats(0.01, 0.99), logu(1e-3, 0.999), st.just(1.0), logu(1, 1e3))


def fast_ratio():
    """thermal/fast ratio: 0 (no fast reactions), a fast-dominated beam (0, 1), exactly 1, (1, 1e3]"""
    return st.one_of(st.just(0.0), logu(1e-3, 1.0), logu(1e-3, 1.0), st.just(1.0), logu(1, 1e3), logu(1, 1e3))


def rest_list(hi=1e5, max_size=6):
    short = st.lists(st.one_of(st.just(0.0), logu(1e-3, hi), logu(1e-3, hi)), min_size=1, max_size=max_size)
    # a decay CURVE: 64..100 rest times (a plot, a fit), not in order, with repeats - far longer than the handful a
    # user types, which is where a vectorised fast path would begin
    curve = st.tuples(st.integers(64, 100), logu(1e-3, hi), st.integers(1, 7)).map(
        lambda t: [round(t[1] * ((k * t[2]) % t[0]) / t[0], 6) for k in range(t[0])])
    return st.one_of(*([short] * 14 + [curve]))


def environment(fl=(1e2, 1e16), ex=(1e-3, 1e4)):
    return st.fixed_dictionaries(dict(
        fluence=logu(*fl), Cd=cd_ratio(), fast=fast_ratio(), exposure=logu(*ex), rests=rest_list(),
        mass=logu(1e-6, 1e3), mass2=logu(1e-6, 1e3), grow=logu(1e-6, 10.0)))


def environments():
    """general, small-argument regime (low flux, short exposure) and
    burn-up regime (high flux, long exposure)."""
    return st.one_of(environment(), environment(), environment(fl=(1e2, 1e8), ex=(1e-3, 1e-1)),
                     environment(fl=(1e13, 1e16), ex=(1e2, 1e4)))


def make_env(E, envd):
    return E.act.ActivationEnvironment(fluence=envd["fluence"], Cd_ratio=envd["Cd"], fast_ratio=envd["fast"])


class OneRow(object):
    """Stand-in target with a single reaction row; used only to find out which
    row of an isotope made activity() raise."""

    def __init__(self, iso, ai):
        self.isotope = iso.isotope
        self.neutron_activation = [ai]
        self._iso = iso

    def __str__(self):
        return str(self._iso)


def fl(x):
    return float(x)


def envkey(envd):
    return (envd["fluence"], envd["Cd"], envd["fast"], envd["exposure"], tuple(envd["rests"]), envd["mass"])


# ----------------------------------------------------------------------
def classify(row, envd, exposure, got, ref):
    """None if *got* is an acceptable value of the exact *ref* (Decimal),
    else (class, detail) with class in small-argument / cancellation / negative / wrong-value."""
    err = abs(D(got) - ref)
    if err <= D(REL) * abs(ref) + D(FLOOR):
        if got < 0:
            return "negative", "value %r is negative (exact %.17g)" % (got, fl(ref))
        return None
    br = ra.branch(row)
    rel = fl(err / abs(ref)) if ref != 0 else float("inf")
    if br == "act" and ra.small_argument(row, envd["fluence"], envd["Cd"], envd["fast"], exposure):
        return "small-argument", "value %r exact %.17g rel.err %.3g with s1*t and (lam+s2)*t below 1e-10" % (got, fl(ref), rel)
    k = ra.kappa(row, envd["fluence"], envd["Cd"], envd["fast"], exposure)
    bound = CFACTOR * ra.EPS * k
    if rel <= bound:
        return "cancellation", "value %r exact %.17g rel.err %.3g <= 64*eps*kappa = %.3g" % (got, fl(ref), rel, bound)
    if got < 0:
        return "negative", "value %r is negative, exact %.17g (64*eps*kappa = %.3g)" % (got, fl(ref), bound)
    return "wrong-value", "value %r exact %.17g rel.err %.3g > 64*eps*kappa = %.3g" % (got, fl(ref), rel, bound)


def coincident_rates(row, envd):
    """Two of the rates (s1, s2 + lamp, lam) of a '2n' chain agree to within 8 eps."""
    from decimal import localcontext
    with localcontext() as c:
        c.prec = 50
        r = ra.rates(row, envd["fluence"], envd["Cd"], envd["fast"])
        if r is None or r["lamp"] is None:
            return False
        ks = [r["s1"], r["s2"] + r["lamp"], r["lam"]]
        for i in range(3):
            for j in range(i):
                if abs(ks[i] - ks[j]) <= D(8 * ra.EPS) * max(abs(ks[i]), abs(ks[j])):
                    return True
    return False


def nontrivial_row(row, det):
    br = ra.branch(row)
    if br != "act":
        return True
    if row["fast"]:
        return True
    r = det["r"]
    t = det["t"]
    return (r["lam"] + r["s2"]) * t < D("1e-8") or r["s2"] * t > D("1e-3")


def row_case(row, envd):
    return {"kind": "row", "Z": row["Z"], "A": row["A"], "pos": row["pos"], "isotope": row["isotope"],
            "daughter": row["daughter"], "reaction": row["reaction"], "env": envd}


def isotope_violations(ctx, key, envd, only_pos=None, count=True, shared=None):
    """Evaluate all rows of target isotope *key* in *envd*; yield Violations.
    *shared* = {"environment": obj, "rests": list}: objects reused for every
    isotope of the example; activity() must leave both unchanged."""
    E = env()
    rows = E.byiso[key]
    iso = E.table[key[0]][key[1]]
    ais = getattr(iso, "neutron_activation", None)
    if ais is None or len(ais) != len(rows):
        yield Violation("c14:table:rows", "%s: %r rows in the table, %d in activation.dat"
                        % (rows[0]["isotope"], None if ais is None else len(ais), len(rows)),
                        {"kind": "table"})
        return
    if shared is None:
        shared = {"environment": make_env(E, envd), "rests": list(envd["rests"])}
    environment = shared["environment"]
    env_before = dict(vars(environment))
    mass, exposure, rests = envd["mass"], envd["exposure"], shared["rests"]
    exposure2 = exposure * (1.0 + envd["grow"])
    calls = {"A": (mass, exposure, [0.0]), "B": (mass, exposure, rests),
             "C": (envd["mass2"], exposure, [0.0]), "D": (mass, exposure2, [0.0])}
    got = {}
    failed = None
    for name in "ABCD":
        m, ex, rs = calls[name]
        try:
            got[name] = E.act.activity(iso, m, environment, ex, rs)
        except Exception as e:  # noqa
            failed = (name, e)
            break
    if rests != list(envd["rests"]):
        yield Violation("c14:argument-modified:rest_times",
                        "%s: activity() changed the caller's rest_times list in place: %r -> %r"
                        % (rows[0]["isotope"], envd["rests"], rests), row_case(rows[0], envd))
        rests[:] = list(envd["rests"])
    if dict(vars(environment)) != env_before:
        yield Violation("c14:reuse:environment-modified",
                        "%s: activity() changed the ActivationEnvironment: %r -> %r"
                        % (rows[0]["isotope"], env_before, dict(vars(environment))), row_case(rows[0], envd))
        shared["environment"] = environment = make_env(E, envd)
    if failed is not None:
        name, e0 = failed
        m, ex, rs = calls[name]
        blamed = False
        for row, ai in zip(rows, ais):
            if only_pos is not None and row["pos"] != only_pos:
                continue
            try:
                E.act.activity(OneRow(iso, ai), m, environment, ex, rs)
            except Exception as e:  # noqa
                blamed = True
                br = ra.branch(row)
                ref = ra.solve(row, envd["fluence"], envd["Cd"], envd["fast"], m, ex)
                why = ""
                if br == "act" and ref is not None and ra.small_argument(row, envd["fluence"], envd["Cd"], envd["fast"], ex):
                    why = ":small-argument"
                if count:
                    ctx.case((row["row"], envkey(envd)), nontrivial=True, cls=["branch:" + br, "outcome:exception"])
                bucket = "c14:%s:exception:%s%s" % (br, type(e).__name__, why)
                if br == "2n" and isinstance(e, ZeroDivisionError) and coincident_rates(row, envd):
                    # S17 as planned in DESIGN section 5: the partial fractions of the '2n' branch
                    # divide by the difference of two rates that are equal in double precision
                    # (kappa = infinity) - same class as the cancellation finding
                    bucket = "c14:2n:cancellation"
                    why = " [two of the three rates coincide to within 8 eps: kappa = inf]"
                yield Violation(bucket,
                                "%s -> %s (%s): activity() raised %s: %s [exact value %s]"
                                % (row["isotope"], row["daughter"], row["reaction"], type(e).__name__,
                                   str(e0 if type(e0) is type(e) else e)[:120],
                                   "omitted" if ref is None else "%.6g" % fl(ref[0])),
                                row_case(row, envd))
        if not blamed and only_pos is None:
            yield Violation("c14:isotope:exception:%s" % type(e0).__name__,
                            "%s: activity() raised %s: %s" % (rows[0]["isotope"], type(e0).__name__, e0),
                            row_case(rows[0], envd))
        return

    for row, ai in zip(rows, ais):
        if only_pos is not None and row["pos"] != only_pos:
            continue
        br = ra.branch(row)
        case = row_case(row, envd)
        label = "%s -> %s (%s)" % (row["isotope"], row["daughter"], row["reaction"])
        res = ra.solve(row, envd["fluence"], envd["Cd"], envd["fast"], mass, exposure)
        if res is None:
            # fast reaction with fast ratio 0: must be absent from every call
            if count:
                ctx.case((row["row"], envkey(envd)), nontrivial=False, cls=["branch:" + br, "fast-omitted"])
            if any(ai in got[n] for n in got):
                yield Violation("c14:fast:not-omitted", "%s is a fast reaction and is reported with fast ratio 0" % label, case)
            continue
        ref, det = res
        cls = ["branch:" + br]
        if row["fast"]:
            cls.append("fast-included")
        if envd["Cd"] >= 1:
            cls.append("epithermal")
        sm = br == "act" and det["r"]["s1"] * det["t"] < D("1e-10") and (det["r"]["lam"] + det["r"]["s2"]) * det["t"] < D("1e-10")
        if sm:
            cls.append("act:small-argument")
        if det["r"]["s2"] * det["t"] > D("1e-3"):
            cls.append("burnup>1e-3")
        if det["r"]["s1"] * det["t"] > D("1e-3"):
            cls.append("depletion>1e-3")
        missing = [n for n in "ABCD" if ai not in got[n]]
        if missing:
            if count:
                ctx.case((row["row"], envkey(envd)), nontrivial=True, cls=cls)
            yield Violation("c14:%s:missing" % br, "%s is not reported (exact value %.6g)" % (label, fl(ref)), case)
            continue
        a0 = got["A"][ai][0]
        verdict = classify(row, envd, exposure, a0, ref)
        cls.append("value:" + (verdict[0] if verdict else "ok"))
        if count:
            ctx.case((row["row"], envkey(envd)), nontrivial=nontrivial_row(row, det), cls=cls,
                     sample={"row": label, "env": envd})
        if verdict is not None:
            yield Violation("c14:%s:%s" % (br, verdict[0]), "%s: %s" % (label, verdict[1]), case)
        explained = verdict is not None and verdict[0] == "cancellation"

        # -- rest decay: exactly 2^(-t/T) of the value at removal -------
        T = row["Thalf_hrs"]
        vals = got["B"][ai]
        if len(vals) != len(rests):
            yield Violation("c14:rest-decay:length", "%s: %d values for %d rest times" % (label, len(vals), len(rests)), case)
        else:
            for tr, v in zip(rests, vals):
                f = ra.rest_factor(row, tr)
                want = D(a0) * f
                lt = math.log(2) / T * tr
                tol = D(1e-12 + 4 * ra.EPS * lt) * abs(want) + D(FLOOR)
                if abs(D(v) - want) > tol or (v < 0 <= a0):
                    yield Violation("c14:rest-decay", "%s: after %r h the value %r is not %r * 2^(-t/%r) = %.17g"
                                    % (label, tr, v, a0, T, fl(want)), case)
                    break

        # -- proportional to mass ---------------------------------------
        c0 = got["C"][ai][0]
        want = D(a0) * D(envd["mass2"]) / D(mass)
        if abs(D(c0) - want) > D(1e-12) * abs(want) + D(FLOOR):
            yield Violation("c14:mass-proportionality", "%s: mass %r -> %r but mass %r -> %r (expected %.17g)"
                            % (label, mass, a0, envd["mass2"], c0, fl(want)), case)

        # -- monotone in exposure up to the depletion of the target -----
        d0 = got["D"][ai][0]
        dep = (-(det["r"]["s1"] * (D(exposure2) - D(exposure)))).exp()
        lower = D(a0) * dep
        if D(d0) < lower * (1 - D(REL)) - D(FLOOR):
            ok = False
            if a0 < 0 and explained:
                ok = True
            else:
                ref2, _ = ra.solve(row, envd["fluence"], envd["Cd"], envd["fast"], mass, exposure2)
                k1 = ra.kappa(row, envd["fluence"], envd["Cd"], envd["fast"], exposure)
                k2 = ra.kappa(row, envd["fluence"], envd["Cd"], envd["fast"], exposure2)
                if math.isinf(k1) or math.isinf(k2):
                    slack = D("Infinity")
                else:
                    slack = D(CFACTOR * ra.EPS) * (D(k1) * abs(ref) + D(k2) * abs(ref2))
                small = br == "act" and (sm or ra.small_argument(row, envd["fluence"], envd["Cd"], envd["fast"], exposure2))
                if small:
                    yield Violation("c14:act:small-argument", "%s: exposure %r -> %r, %r -> %r decreases (small-argument regime)"
                                    % (label, exposure, a0, exposure2, d0), case)
                    ok = True
                elif D(d0) >= lower * (1 - D(REL)) - slack - D(FLOOR):
                    yield Violation("c14:%s:cancellation" % br,
                                    "%s: exposure %r -> %r, %r -> %r decreases by more than the depletion of the target, "
                                    "within the rounding bound of the formulation" % (label, exposure, a0, exposure2, d0), case)
                    ok = True
            if not ok:
                yield Violation("c14:%s:monotone" % br,
                                "%s: exposure %r -> %r but %r -> %r, below the depletion bound %.17g"
                                % (label, exposure, a0, exposure2, d0, fl(lower)), case)


def run_env(ctx, envd, keys, only_pos=None):
    # ONE environment object and ONE rest-time list serve every isotope of the example
    shared = {"environment": make_env(env(), envd), "rests": list(envd["rests"])}
    for key in keys:
        for v in isotope_violations(ctx, key, envd, only_pos, shared=shared):
            if ctx.skip_bucket(v.bucket):
                continue
            raise v


# ----------------------------------------------------------------------
# epithermal omission: Cd ratio in (0,1) must give exactly what Cd ratio 0 gives
def check_epithermal(ctx, envd, keys):
    E = env()
    if not (0 < envd["Cd"] < 1):
        return
    e1 = make_env(E, envd)
    e0 = make_env(E, dict(envd, Cd=0.0))
    for key in keys:
        iso = E.table[key[0]][key[1]]
        try:
            a = E.act.activity(iso, envd["mass"], e1, envd["exposure"], [0.0])
            b = E.act.activity(iso, envd["mass"], e0, envd["exposure"], [0.0])
        except Exception:  # noqa  (reported by the row check)
            continue
        for row, ai in zip(E.byiso[key], iso.neutron_activation):
            if (ai in a) != (ai in b) or (ai in a and a[ai][0] != b[ai][0]):
                v = Violation("c14:epithermal:not-omitted",
                              "%s -> %s: Cd ratio %r gives %r, Cd ratio 0 gives %r"
                              % (row["isotope"], row["daughter"], envd["Cd"], a.get(ai), b.get(ai)), row_case(row, envd))
                if not ctx.skip_bucket(v.bucket):
                    raise v


# ----------------------------------------------------------------------
# table fields
FIELDS = ["abundance", "daughter", "reaction", "fast", "thermalXS", "resonance", "Thalf_hrs", "Thalf_parent",
          "thermalXS_parent", "resonance_parent", "Thalf_str", "isotope"]


def task_table(ctx):
    E = env()
    n = 0
    for el in E.table:
        for a in el.isotopes:
            ais = getattr(el[a], "neutron_activation", None)
            if ais is None:
                continue
            n += len(ais)
            if (el.number, a) not in E.byiso:
                ctx.violation("c14:table:rows", "%s[%d] has %d reaction rows, activation.dat has none"
                              % (el.symbol, a, len(ais)), {"kind": "table"})
    if n != len(E.rows):
        ctx.violation("c14:table:rows", "table serves %d rows, activation.dat has %d" % (n, len(E.rows)), {"kind": "table"})
    ctx.extra["rows"] = len(E.rows)
    check_multiplicity(ctx, E)
    # the table agrees with itself (parent half-life of 'b'/'2n' rows = half-life of the row that
    # makes the parent, value+unit = hours column, one half-life per nuclide, ...)
    bad, notes = ra.table_consistency(E.rows)
    ctx.extra["preexisting_table_inconsistencies"] = notes
    ctx.count("table-consistency:b-and-2n-rows", sum(1 for r in E.rows if r["reaction"] in ("b", "2n")))
    for kind, msg in bad:
        ctx.violation("c14:table:" + kind, msg, {"kind": "table"})
    for row in E.rows:
        iso = E.table[row["Z"]][row["A"]]
        ais = getattr(iso, "neutron_activation", None)
        ctx.case(("table", row["row"]), nontrivial=True, cls=["table-row", "reaction:" + row["reaction"]])
        if ais is None or len(ais) <= row["pos"]:
            ctx.violation("c14:table:rows", "row %d (%s -> %s) is not served" % (row["index"], row["isotope"], row["daughter"]),
                          {"kind": "table"})
            continue
        ai = ais[row["pos"]]
        if iso.isotope != row["A"] or iso.number != row["Z"] or iso.element.symbol != row["symbol"]:
            ctx.violation("c14:table:isotope", "row %d attached to %r" % (row["index"], iso), {"kind": "table"})
        for f in FIELDS:
            have = getattr(ai, f, None)
            if have != row[f] or type(have) is not type(row[f]):
                ctx.violation("c14:table:" + f, "row %d (%s -> %s): %s is %r, activation.dat says %r"
                              % (row["index"], row["isotope"], row["daughter"], f, have, row[f]), {"kind": "table"})
        if row["Thalf_hrs"] <= 0 or (row["reaction"] in ("b", "2n") and row["Thalf_parent"] <= 0):
            ctx.violation("c14:table:half-life", "row %d has no half-life" % row["index"], {"kind": "table"})


def check_multiplicity(ctx, E):
    """For every isotope of the table: the list of (daughter, reaction, fast, half-life)
    of iso.neutron_activation equals the rows of activation.dat for that target, in
    order, each exactly once; isotopes without rows serve nothing; 513 rows in all."""
    case = {"kind": "route", "route": E.route}
    total = 0
    for el in E.table:
        for a in el.isotopes:
            ais = getattr(el[a], "neutron_activation", None)
            rows = E.byiso.get((el.number, a), [])
            have = [(x.daughter, x.reaction, x.fast, x.Thalf_hrs) for x in (ais or [])]
            want = [(r["daughter"], r["reaction"], r["fast"], r["Thalf_hrs"]) for r in rows]
            total += len(have)
            if rows:
                ctx.case(("multiplicity", E.route, el.number, a), nontrivial=True, cls=["multiplicity"])
            if have != want:
                dup = sorted(set(x for x in have if have.count(x) > want.count(x)))
                ctx.violation("c14:table:multiplicity",
                              "[route %s] %s[%d] serves %d reaction rows %r, activation.dat lists %d: %r%s"
                              % (E.route, el.symbol, a, len(have), have[:4], len(want), want[:4],
                                 ("; listed more often than in the file: %r" % dup[:3]) if dup else ""), case)
            if ais and len(set(id(x) for x in ais)) != len(ais):
                ctx.violation("c14:table:multiplicity", "[route %s] %s[%d] lists the same row object twice" % (E.route, el.symbol, a), case)
    if total != len(E.rows):
        ctx.violation("c14:table:multiplicity", "[route %s] the table serves %d rows in all, activation.dat has %d"
                      % (E.route, total, len(E.rows)), case)


ROUTE_ENVS = [
    dict(fluence=1e8, Cd=70.0, fast=50.0, exposure=10.0, rests=[0.0, 1.0, 24.0, 360.0], mass=1.0, mass2=2.0, grow=1.0),
    dict(fluence=3e13, Cd=0.0, fast=0.5, exposure=500.0, rests=[2.0, 0.0], mass=0.01, mass2=0.5, grow=0.3),
]
ROUTE_SAMPLES = [
    [[["Co", 0, 0], "30"], [["Fe", 0, 0], "70"]],
    [[["Eu", 0, 0], "1"]],
    [[["Rh", 0, 0], "1"], [["Te", 0, 0], "2"]],
    [[["Er", 0, 0], "1"], [["Tm", 0, 0], "1"]],
    [[["Na", 0, 1], "1"], [["Cl", 0, -1], "1"]],
    [[["Au", 0, 0], "1"], [["Au", 197, 0], "2"]],
    [[["Ni", 58, 0], "1"], [["S", 33, 0], "1"], [["O", 0, 0], "4"]],
]


def check_route(ctx, route):
    """The initialisation *route* is this process's first periodictable action;
    then multiplicities, every row in two environments, and sample totals."""
    E = env(route)
    ctx.count("route:" + route)
    check_multiplicity(ctx, E)
    for envd in ROUTE_ENVS:
        shared = {"environment": make_env(E, envd), "rests": list(envd["rests"])}
        for key in E.keys:
            for v in isotope_violations(ctx, key, envd, shared=shared):
                v.case = dict(v.case or {}, route=route)
                ctx.violation(v.bucket, "[route %s] %s" % (route, v.message), v.case)
        for n, atoms in enumerate(ROUTE_SAMPLES):
            for which in ("NIST", "IAEA"):
                try:
                    check_sample(ctx, [atoms, envd, which])
                except Violation as v:
                    ctx.violation(v.bucket, "[route %s] %s" % (route, v.message), dict(v.case or {}, route=route))
                except Exception as e:  # noqa
                    fr = lib_frame(e.__traceback__)
                    if fr is None:
                        raise
                    ctx.violation("exc:%s:%s" % (type(e).__name__, fr), "[route %s] %s: %s" % (route, type(e).__name__, e),
                                  {"kind": "route", "route": route})


def task_route(ctx, route):
    check_route(ctx, route)


# ----------------------------------------------------------------------
# samples
def atom_string(spec, count):
    s, a, c = spec
    out = s
    if a:
        out += "[%d]" % a
    if c:
        out += "{%s%s}" % ("" if abs(c) == 1 else abs(c), "+" if c > 0 else "-")
    if count != "1":
        out += count
    return out


def sample_pool(E):
    if hasattr(E, "pool"):
        return E.pool
    active = sorted(set(z for z, a in E.keys))
    syms = [E.table[z].symbol for z in active]
    inactive = [el.symbol for el in E.table if el.number not in active and 1 <= el.number <= 92]
    iso = [[E.table[z].symbol, a, 0] for z, a in E.keys]
    ions = [[E.table[z].symbol, 0, c] for z in active for c in E.table[z].ions]
    iso_ions = [[E.table[z].symbol, a, c] for z, a in E.keys for c in E.table[z].ions[:2]]
    E.pool = dict(active=syms, inactive=inactive, iso=iso, ions=ions, iso_ions=iso_ions)
    return E.pool


def sample_atoms(E):
    P = sample_pool(E)
    el = st.sampled_from(P["active"]).map(lambda s: [s, 0, 0])
    other = st.sampled_from(P["inactive"]).map(lambda s: [s, 0, 0])
    atom = st.one_of(el, el, st.sampled_from(P["iso"]), st.sampled_from(P["ions"]), st.sampled_from(P["iso_ions"]),
                     other, st.sampled_from([["D", 0, 0], ["T", 0, 0], ["D", 0, 1], ["H", 2, 0], ["H", 1, 0]]))
    count = st.one_of(st.just("1"), st.integers(1, 20).map(str),
                      st.tuples(st.integers(0, 30), st.integers(1, 999)).map(lambda t: "%d.%03d" % t))
    free = st.lists(st.tuples(atom, count).map(list), min_size=1, max_size=4)
    # the same nuclide reached twice: a natural element together with one of its
    # isotopes (and its ion), so that contributions have to be added up
    related = st.tuples(st.sampled_from(P["iso"]), count, count, count, st.booleans()).map(
        lambda t: [[[t[0][0], 0, 0], t[1]], [t[0], t[2]]] +
        ([[[t[0][0], t[0][1], E.table.symbol(t[0][0]).ions[0]], t[3]]] if t[4] and E.table.symbol(t[0][0]).ions else []))
    # several distinct activating elements in one formula
    multi = st.lists(st.sampled_from(P["active"]), min_size=3, max_size=6, unique=True).flatmap(
        lambda syms: st.lists(count, min_size=len(syms), max_size=len(syms)).map(
            lambda cs: [[[sy, 0, 0], c] for sy, c in zip(syms, cs)]))
    # mixed valence: one element (or one of its isotopes) in two or three DIFFERENT ion charge states, with or without
    # the neutral atom and a bystander (magnetite Fe{2+}Fe{3+}2O4): every charge state is a contribution of its own
    multivalent = [s for s in P["active"] if len(E.table.symbol(s).ions) >= 2]
    iso_of_sym = {}
    for sy, a, _ in P["iso"]:
        iso_of_sym.setdefault(sy, []).append(a)

    def valence(t):
        sy, pick, cs, cnts, use_iso, neutral, extra = t
        ions = list(E.table.symbol(sy).ions)
        chosen = []
        for k in cs:
            c = ions[k % len(ions)]
            if c not in chosen:
                chosen.append(c)
        if len(chosen) < 2:
            chosen = ions[:2]
        a = iso_of_sym[sy][pick % len(iso_of_sym[sy])] if (use_iso and sy in iso_of_sym) else 0
        atoms = [[[sy, a, c], cnts[i % len(cnts)]] for i, c in enumerate(chosen)]
        if neutral:
            atoms.insert(1, [[sy, a, 0], cnts[-1]])
        if extra is not None:
            atoms.append([[extra, 0, 0], cnts[0]])
        return atoms
    mixed = st.tuples(st.sampled_from(multivalent), st.integers(0, 50), st.lists(st.integers(0, 9), min_size=2, max_size=3),
                      st.lists(count, min_size=3, max_size=3), st.booleans(), st.booleans(),
                      st.one_of(st.none(), st.sampled_from(P["active"] + ["O", "O", "S"]))).map(valence)
    return st.one_of(free, free, free, related, multi, multi, mixed, mixed)


def resolve(E, spec):
    s, a, c = spec
    atom = E.table.symbol(s)
    if a:
        atom = atom[a]
    if c:
        atom = atom.ion[c]
    return atom


def iso_of(E, spec):
    """(Z, A) with A = 0 for a natural element."""
    s, a, c = spec
    if s in ("D", "T"):
        return (1, 2 if s == "D" else 3)
    return (E.table.symbol(s).number, a)


def spec_class(spec):
    s, a, c = spec
    if s in ("D", "T"):
        return "DT-ion" if c else "DT"
    return ("isotope-ion" if c else "isotope") if a else ("ion" if c else "element")


def expected_sample(E, atoms, envd, which, case, environment=None):
    """Independent expectation for a sample: sum over the atoms of the formula of
    mass fraction x abundance (re-read tables) x activity(isotope).
    Returns (expected, scale, base_failed): {(Z, A, pos): [values per rest time]},
    the sum of magnitudes (for the tolerance) and (isotope, exception) if
    activity() itself failed for one isotope."""
    abundance = E.act.NIST2001_isotopic_abundance if which == "NIST" else E.act.IAEA1987_isotopic_abundance
    mine = E.nist if which == "NIST" else E.iaea
    if environment is None:
        environment = make_env(E, envd)
    mass, exposure, rests = envd["mass"], envd["exposure"], list(envd["rests"])
    # independent mass fractions
    objs = [resolve(E, sp) for sp, _ in atoms]
    weights = [Fraction(cnt) * Fraction(o.mass) for (sp, cnt), o in zip(atoms, objs)]
    total = sum(weights)
    expected = {}
    scale = {}
    for (sp, cnt), w in zip(atoms, weights):
        frac = float(w / total)
        z, a = iso_of(E, sp)
        if a:
            parts = [(a, mass * frac)]
        else:
            el = E.table[z]
            parts = []
            for ia in el.isotopes:
                ab = mine.get(z, {}).get(ia, 0.0)
                have = abundance(el[ia])
                if (z, ia) not in E.byiso:
                    continue        # no reaction rows: the abundance cannot influence the result
                if abs(have - ab) > 1e-9 * max(abs(ab), abs(have)):
                    raise Violation("c14:natural:abundance-value:%s" % which,
                                    "%s[%d]: the %s abundance function returns %r %%, the table text says %r %%"
                                    % (el.symbol, ia, which, have, ab),
                                    {"kind": "sample", "atoms": [[[el.symbol, 0, 0], "1"]], "env": envd,
                                     "abundance": which, "formula": el.symbol})
                if ab:
                    parts.append((ia, mass * frac * ab * 0.01))
        for ia, m in parts:
            iso = E.table[z][ia]
            try:
                res = E.act.activity(iso, m, environment, exposure, list(rests))
            except Exception as e:  # noqa  (a row-level failure; reported by the row tasks with its own bucket)
                return expected, scale, (iso, e)
            for ai, vals in res.items():
                k = (z, ia, iso.neutron_activation.index(ai))
                old = expected.get(k, [0.0] * len(rests))
                expected[k] = [x + y for x, y in zip(old, vals)]
                scale[k] = [abs(x) + abs(y) for x, y in zip(scale.get(k, [0.0] * len(rests)), vals)]
    return expected, scale, None


def compare_sample(E, atoms, activity, expected, scale, formula, which):
    """None if the activity dict of a Sample equals the expectation, else (bucket, message)."""
    got = {}
    for ai, vals in activity.items():
        found = None
        for (z, a) in set(iso_of(E, sp) for sp, _ in atoms):
            for ia in ([a] if a else E.table[z].isotopes):
                lst = getattr(E.table[z][ia], "neutron_activation", [])
                for pos, x in enumerate(lst):
                    if x is ai:
                        found = (z, ia, pos)
        if found is None:
            return ("c14:sample:foreign-product", "Sample(%r) reports %s -> %s which belongs to no atom of the formula"
                    % (formula, ai.isotope, ai.daughter))
        got[found] = list(vals)
    for k in sorted(set(expected) | set(got)):
        z, ia, pos = k
        name = "%s-%d row %d" % (E.table[z].symbol, ia, pos)
        if k not in got:
            if all(x == 0 for x in expected[k]):
                continue
            return ("c14:sample:product-missing", "Sample(%r) [%s]: %s missing, expected %r" % (formula, which, name, expected[k]))
        if k not in expected:
            return ("c14:sample:product-unexpected", "Sample(%r) [%s]: %s reported %r, expected nothing"
                    % (formula, which, name, got[k]))
        if len(got[k]) != len(expected[k]):
            return ("c14:sample:length", "Sample(%r) [%s]: %s has %d values for %d rest times"
                    % (formula, which, name, len(got[k]), len(expected[k])))
        for g, w, sc in zip(got[k], expected[k], scale[k]):
            if abs(g - w) > 1e-12 * sc + FLOOR:
                return ("c14:sample:weighted-sum", "Sample(%r) [%s]: %s is %r, mass-fraction x abundance x activity gives %r"
                        % (formula, which, name, g, w))
    # sums: the total and the sum per produced nuclide, over EVERY entry the sample
    # reports (an entry listed twice counts twice), against the reference sums
    nrest = max([len(x) for x in expected.values()] + [0])
    for i in range(nrest):
        tot_got = sum(vals[i] for vals in activity.values() if len(vals) > i)
        tot_exp = sum(vals[i] for vals in expected.values())
        tot_scale = sum(vals[i] for vals in scale.values())
        if abs(tot_got - tot_exp) > 1e-11 * tot_scale + FLOOR:
            return ("c14:sample:total", "Sample(%r) [%s]: total activity at rest time #%d is %r, the reference total is %r"
                    % (formula, which, i, tot_got, tot_exp))
    by_name = {}
    for ai, vals in activity.items():
        if vals:
            by_name[ai.daughter] = by_name.get(ai.daughter, 0.0) + vals[0]
    ref_name = {}
    ref_scale = {}
    for (z, ia, pos), vals in expected.items():
        rws = E.byiso[(z, ia)]
        d = rws[pos]["daughter"] if pos < len(rws) else "(row %d beyond the %d rows of activation.dat)" % (pos, len(rws))
        ref_name[d] = ref_name.get(d, 0.0) + vals[0]
        ref_scale[d] = ref_scale.get(d, 0.0) + scale[(z, ia, pos)][0]
    for d in sorted(set(by_name) | set(ref_name)):
        if abs(by_name.get(d, 0.0) - ref_name.get(d, 0.0)) > 1e-11 * ref_scale.get(d, 0.0) + FLOOR:
            return ("c14:sample:product-sum", "Sample(%r) [%s]: summed activity of %s is %r, the reference sum is %r"
                    % (formula, which, d, by_name.get(d, 0.0), ref_name.get(d, 0.0)))
    return None


def sample_exception(ctx, E, e, base_failed, envd, classes, formula, case):
    """calculate_activation raised: blame the row if activity() fails the same way, else the sample."""
    if base_failed is not None and type(e) is type(base_failed[1]):
        ctx.count("sample:skipped:row-level-exception")
        key = (base_failed[0].number, base_failed[0].isotope)
        for v in isotope_violations(ctx, key, dict(envd, rests=[0.0], mass2=envd["mass"], grow=1.0), count=False):
            if "exception" in v.bucket and not ctx.skip_bucket(v.bucket):
                raise v
        return
    fr = lib_frame(e.__traceback__) or "?"
    who = "element-ion" if any(c in ("ion", "DT-ion") for c in classes) else "no-element-ion"
    raise Violation("c14:sample:%s:exception:%s:%s" % (who, type(e).__name__, fr),
                    "Sample(%r).calculate_activation raised %s: %s" % (formula, type(e).__name__, str(e)[:150]), case)


def check_sample(ctx, value):
    atoms, envd, which = value
    E = env()
    formula = "".join(atom_string(sp, cnt) for sp, cnt in atoms)
    case = {"kind": "sample", "atoms": atoms, "env": envd, "abundance": which, "formula": formula}
    classes = sorted(set(spec_class(sp) for sp, _ in atoms))
    ctx.case((formula, which, envkey(envd)), nontrivial=True, sample={"formula": formula, "abundance": which, "env": envd},
             cls=["sample:" + c for c in classes] + ["abundance:" + which, "atoms:%d" % len(atoms)])
    abundance = E.act.NIST2001_isotopic_abundance if which == "NIST" else E.act.IAEA1987_isotopic_abundance
    environment = make_env(E, envd)
    expected, scale, base_failed = expected_sample(E, atoms, envd, which, case, environment)
    try:
        sample = E.act.Sample(E.pt.formula(formula, table=E.table), envd["mass"])
        sample.calculate_activation(environment, exposure=envd["exposure"], rest_times=list(envd["rests"]), abundance=abundance)
    except Exception as e:  # noqa
        sample_exception(ctx, E, e, base_failed, envd, classes, formula, case)
        return
    if base_failed is not None:
        ctx.count("sample:skipped:row-level-exception")
        return
    bad = compare_sample(E, atoms, sample.activity, expected, scale, formula, which)
    if bad:
        raise Violation(bad[0], bad[1], case)


# ----------------------------------------------------------------------
# one Sample object reused for consecutive calculations
def other(which):
    return "IAEA" if which == "NIST" else "NIST"


def reuse_steps(bright=False):
    flu = logu(1e6, 1e16) if bright else logu(1e2, 1e16)
    step = st.fixed_dictionaries(dict(fluence=flu, Cd=cd_ratio(), fast=fast_ratio(), exposure=logu(1e-3, 1e4),
                                      rests=rest_list(hi=1e4), same_env=st.booleans()))
    return st.lists(step, min_size=2, max_size=3)


def reuse_cases(E):
    return st.fixed_dictionaries(dict(atoms=sample_atoms(E), mass=logu(1e-6, 1e3), steps=reuse_steps(),
                                      first=st.sampled_from(["NIST", "IAEA"]),
                                      interrupt=st.lists(st.one_of(st.none(), st.integers(0, 6)), min_size=3, max_size=3)))


class _CallbackFailed(Exception):
    pass


def step_env(steps, i, mass):
    """Environment dict of step i: a step flagged same_env uses the beam of step 0
    (and therefore the same ActivationEnvironment object)."""
    stp = steps[i]
    src = steps[0] if (i > 0 and stp["same_env"]) else stp
    return dict(fluence=src["fluence"], Cd=src["Cd"], fast=src["fast"], exposure=stp["exposure"],
                rests=list(stp["rests"]), mass=mass)


def same_activity(a, b):
    """Two activity dicts are identical: same row objects in the same order, same values."""
    if [id(k) for k in a] != [id(k) for k in b]:
        return False
    return all(list(a[k]) == list(b[k]) for k in a)


def check_reuse(ctx, v):
    """Consecutive calculate_activation calls on ONE Sample (different beam,
    exposure, rest times, abundance function - the two functions alternate, in
    either order) must each give what a fresh Sample gives and what the
    independent expectation says; the caller's rest-time list and the
    ActivationEnvironment objects (shared by the samples) must not change."""
    from ..guards import unchanged
    E = env()
    atoms, mass, steps = v["atoms"], v["mass"], v["steps"]
    formula = "".join(atom_string(sp, cnt) for sp, cnt in atoms)
    case = dict(v, kind="reuse", formula=formula)
    classes = sorted(set(spec_class(sp) for sp, _ in atoms))
    ctx.case((formula, mass, repr(steps), v["first"]), nontrivial=True,
             sample={"formula": formula, "steps": steps, "first": v["first"]},
             cls=["reuse:steps:%d" % len(steps), "reuse:first:" + v["first"]] + ["reuse:" + c for c in classes])
    env_objs = {}
    try:
        reused = E.act.Sample(formula, mass)
    except Exception:  # noqa  (C01's business)
        ctx.count("reuse:skipped:formula")
        return
    for i in range(len(steps)):
        envd = step_env(steps, i, mass)
        which = v["first"] if i % 2 == 0 else other(v["first"])
        abundance = E.act.NIST2001_isotopic_abundance if which == "NIST" else E.act.IAEA1987_isotopic_abundance
        ekey = (envd["fluence"], envd["Cd"], envd["fast"])
        if ekey not in env_objs:
            env_objs[ekey] = make_env(E, envd)
        else:
            ctx.count("reuse:environment-object-shared")
        environment = env_objs[ekey]
        snap = dict(vars(environment))
        expected, scale, base_failed = expected_sample(E, atoms, envd, which, case, environment)
        L = list(envd["rests"])
        where = "step %d of %d (%s, exposure %r, rest times %r)" % (i + 1, len(steps), which, envd["exposure"], envd["rests"])
        fresh = E.act.Sample(formula, mass)
        try:
            fresh.calculate_activation(environment, exposure=envd["exposure"], rest_times=list(L), abundance=abundance)
        except Exception as e:  # noqa
            sample_exception(ctx, E, e, base_failed, envd, classes, formula, case)
            return
        # an interrupted calculation first: the user's abundance callback raises for the k-th natural element of
        # the formula (its data are missing, say); the caller catches that and goes on with the valid request below,
        # which must not see anything of the abandoned one
        k = (v.get("interrupt") or [None] * 3)[i % 3]
        naturals = []
        for sp, _ in atoms:
            if not sp[1] and sp[0] not in ("D", "T") and sp[0] not in naturals:
                naturals.append(sp[0])
        if k is not None and naturals:
            victim = naturals[k % len(naturals)]

            def failing(iso, _real=abundance, _victim=victim):
                if iso.symbol == _victim:
                    raise _CallbackFailed(_victim)
                return _real(iso)
            try:
                reused.calculate_activation(environment, exposure=envd["exposure"] * 2, rest_times=[0, 1.5],
                                            abundance=failing)
            except _CallbackFailed:
                ctx.count("reuse:interrupted-by-callback")
            except Exception:  # noqa  (a row-level exception of the library came first; judged below)
                ctx.count("reuse:interrupted-by-library")
        if k is not None and k % 2:
            # a rejected request: rest times that are not a list (a bare number; an iterator that raises)
            def _gives_up():
                yield 0.0
                yield 1.0
                raise _CallbackFailed("rest times")
            for bad_rests in (24, _gives_up()):
                try:
                    reused.calculate_activation(environment, exposure=envd["exposure"] * 3, rest_times=bad_rests,
                                                abundance=abundance)
                except Exception:  # noqa
                    ctx.count("reuse:rejected-rest-times")
        try:
            with unchanged("c14", case, rest_times=L):
                reused.calculate_activation(environment, exposure=envd["exposure"], rest_times=L, abundance=abundance)
        except Violation:
            raise
        except Exception as e:  # noqa
            raise Violation("c14:reuse:sample-state", "Sample(%r) %s: the reused sample raised %s: %s, a fresh one does not"
                            % (formula, where, type(e).__name__, str(e)[:120]), case)
        if dict(vars(environment)) != snap:
            raise Violation("c14:reuse:environment-modified", "Sample(%r) %s: the ActivationEnvironment changed from %r to %r"
                            % (formula, where, snap, dict(vars(environment))), case)
        if base_failed is not None:
            ctx.count("sample:skipped:row-level-exception")
            return
        bad = compare_sample(E, atoms, fresh.activity, expected, scale, formula, which)
        if bad:
            raise Violation(bad[0], "%s: %s" % (where, bad[1]), case)
        bad = compare_sample(E, atoms, reused.activity, expected, scale, formula, which)
        if bad or not same_activity(reused.activity, fresh.activity):
            raise Violation("c14:reuse:sample-state",
                            "Sample(%r) %s: the reused sample differs from a fresh one: %s"
                            % (formula, where, bad[1] if bad else "activity %r vs %r" % (
                                sorted((k.daughter, x) for k, x in reused.activity.items())[:4],
                                sorted((k.daughter, x) for k, x in fresh.activity.items())[:4])), case)
        if list(reused.rest_times) != envd["rests"] or reused.exposure != envd["exposure"] or reused.environment is not environment:
            raise Violation("c14:reuse:sample-attributes", "Sample(%r) %s: rest_times %r exposure %r recorded"
                            % (formula, where, reused.rest_times, reused.exposure), case)


def task_reuse(ctx, n):
    E = env()
    ctx.search("reuse", reuse_cases(E), check_reuse, n)


def task_samples(ctx, n):
    E = env()
    strat = st.tuples(sample_atoms(E), environments(), st.sampled_from(["NIST", "IAEA"])).map(list)
    ctx.search("samples", strat, check_sample, n)


def task_elements(ctx):
    """Every element with activation data (and a few without) as a natural sample, both abundance functions."""
    E = env()
    P = sample_pool(E)
    envd = dict(fluence=1e8, Cd=70.0, fast=50.0, exposure=10.0, rests=[0.0, 1.0, 24.0, 360.0], mass=1.0, mass2=2.0, grow=1.0)
    syms = P["active"] + P["inactive"][:8]
    # both abundance functions for every element, in both orders within the
    # process: pass 0 uses NIST then IAEA for even positions and IAEA then NIST for
    # odd ones, pass 1 the reverse (so every element sees N,I,I,N or I,N,N,I)
    # second pass in a fast-dominated beam (thermal/fast ratio below 1) with Cd ratio exactly 1
    envs = (envd, dict(envd, fast=0.5, Cd=1.0))
    for rep in (0, 1):
        envd = envs[rep]
        for n, sym in enumerate(syms):
            order = ("NIST", "IAEA") if (n + rep) % 2 == 0 else ("IAEA", "NIST")
            for which in order:
                for spec in ([sym, 0, 0],) + tuple([sym, 0, c] for c in E.table.symbol(sym).ions[:1]):
                    ctx.check(check_sample, [[[spec, "1"]], envd, which])


FAMILY_ENVS = [
    dict(fluence=1e10, Cd=0.0, fast=0.0, exposure=10.0, rests=[0.0, 1.0, 24.0], mass=1.0, mass2=2.0, grow=1.0),
    dict(fluence=1e12, Cd=20.0, fast=0.5, exposure=100.0, rests=[2.0, 0.0, 360.0], mass=0.1, mass2=2.0, grow=1.0),
]


def family_formulas(E):
    """For every daughter listed under two parent elements: both parents in one
    formula, both orders, mass ratios ~1:1, 30:1, 1:30 (by atom count)."""
    out = []
    for name, p1, p2, hl in ra.shared_daughters(E.rows):
        for atoms in ([[[p1, 0, 0], "1"], [[p2, 0, 0], "1"]], [[[p2, 0, 0], "1"], [[p1, 0, 0], "1"]],
                      [[[p1, 0, 0], "30"], [[p2, 0, 0], "1"]], [[[p2, 0, 0], "30"], [[p1, 0, 0], "1"]]):
            out.append((name, atoms, hl))
    return out


def task_families(ctx):
    E = env()
    fams = family_formulas(E)
    ctx.extra["shared_daughter_parent_pairs"] = len(fams) // 4
    for n, (name, atoms, hl) in enumerate(fams):
        for m, envd in enumerate(FAMILY_ENVS):
            ctx.count("family:" + ("fast" if envd["fast"] else "thermal-only"))
            ctx.check(check_sample, [atoms, envd, "NIST" if (n + m) % 2 == 0 else "IAEA"])


# ----------------------------------------------------------------------
# aimed probes: fluences at which two rates of a '2n' chain coincide
AIMED_DELTAS = [0.0, 1e-9, -1e-9, 1e-7, -1e-7, 5e-7, -5e-7, 3e-6, -3e-6]
AIMED_CD = [0.0, 1.0, 20.0]


def clamp_exposure(x):
    return float(min(max(x, 1e-3), 1e4))


def task_aimed(ctx, part, parts):
    """For every '2n' row and Cd ratio in {0, 1, 20}: the fluences (from the independent
    reading of the table) at which target burn-up = product decay, intermediate removal =
    product decay, target burn-up = intermediate removal; evaluated at fluence (1 + delta),
    delta in {0, +-1e-9, +-1e-7, +-5e-7, +-3e-6}, exposure = T_half and T_half/10 of the product
    (clamped to the domain); judged like every row."""
    E = env()
    rows2n = [r for r in E.rows if r["reaction"] == "2n"][part::parts]
    for row in rows2n:
        key = (row["Z"], row["A"])
        for cd in AIMED_CD:
            for name, f0 in ra.crossings_2n(row, cd):
                ctx.count("aimed:" + name)
                for d in AIMED_DELTAS:
                    for ex in sorted(set([clamp_exposure(row["Thalf_hrs"]), clamp_exposure(row["Thalf_hrs"] / 10)])):
                        envd = dict(fluence=float(f0 * (1.0 + d)), Cd=cd, fast=0.0, exposure=ex,
                                    rests=[0.0, clamp_exposure(row["Thalf_hrs"])], mass=1.0, mass2=2.0, grow=0.5)
                        for v in isotope_violations(ctx, key, envd, only_pos=row["pos"]):
                            ctx.violation(v.bucket, "[aimed at %s, delta %g] %s" % (name, d, v.message), v.case)


def task_aimed_b(ctx):
    """The 'b' form has a removable singularity at lamp = lam.  No table row sits there, so
    each 'b' row is probed with its parent half-life replaced by T_half (1 + delta), delta in
    +-{1e-9, 1e-7, 5e-7, 3e-6} (a synthetic record passed to activity()); judged by the same
    reference and classifier."""
    E = env()
    for row in [r for r in E.rows if r["reaction"] == "b"]:
        iso = E.table[row["Z"]][row["A"]]
        ai = iso.neutron_activation[row["pos"]]
        for d in AIMED_DELTAS[1:]:
            tp = row["Thalf_hrs"] * (1.0 + d)
            row2 = dict(row, Thalf_parent=tp)
            ai2 = type(ai)(**dict(vars(ai), Thalf_parent=tp))
            for ex in sorted(set([clamp_exposure(row["Thalf_hrs"]), clamp_exposure(row["Thalf_hrs"] / 10)])):
                envd = dict(fluence=1e12, Cd=20.0, fast=2.0, exposure=ex, rests=[0.0], mass=1.0, mass2=2.0, grow=0.5)
                case = {"kind": "b-synthetic", "Z": row["Z"], "A": row["A"], "pos": row["pos"], "delta": d, "env": envd}
                ctx.case(("aimed-b", row["row"], d, ex), nontrivial=True, cls=["aimed-b"])
                try:
                    got = E.act.activity(OneRow(iso, ai2), envd["mass"], make_env(E, envd), ex, [0.0])[ai2][0]
                except Exception as e:  # noqa
                    ctx.violation("c14:b:exception:%s:parent-halflife-near-product-halflife" % type(e).__name__,
                                  "%s -> %s with parent half-life T(1%+g): %s: %s" % (row["isotope"], row["daughter"], d, type(e).__name__, e), case)
                    continue
                ref, _ = ra.solve(row2, envd["fluence"], envd["Cd"], envd["fast"], envd["mass"], ex)
                verdict = classify(row2, envd, ex, got, ref)
                if verdict is not None:
                    ctx.violation("c14:b:%s" % verdict[0], "[parent half-life set to T(1%+g)] %s -> %s: %s"
                                  % (d, row["isotope"], row["daughter"], verdict[1]), case)


def task_rows(ctx, n, part, parts, epi=True):
    E = env()
    keys = E.keys[part::parts]

    def fn(c, envd):
        run_env(c, envd, keys)
        if epi:
            check_epithermal(c, envd, keys)
    ctx.search("rows", environments(), fn, n)


def tasks(tier):
    from .. import depth
    return _tasks(tier) + [("little-stack", depth.task, dict(prop=PROPERTY))]


def _tasks(tier):
    if tier == "quick":
        out = [("rows-%d" % k, task_rows, dict(n=60, part=k, parts=4)) for k in range(4)]
        out.append(("samples", task_samples, dict(n=400)))
        out.append(("reuse", task_reuse, dict(n=200)))
        out.append(("elements", task_elements, {}))
        out.append(("families", task_families, {}))
        out.append(("table", task_table, {}))
        out += [("route-" + r, task_route, dict(route=r)) for r in ROUTES]
        out += [("aimed-2n-%d" % k, task_aimed, dict(part=k, parts=4)) for k in range(4)]
        out.append(("aimed-b", task_aimed_b, {}))
        return out
    out = []
    for rep in range(3):
        for k in range(4):
            out.append(("rows-%d-%s" % (k, "abc"[rep]), task_rows, dict(n=1200, part=k, parts=4)))
    out.append(("samples-a", task_samples, dict(n=10000)))
    out.append(("samples-b", task_samples, dict(n=10000)))
    out.append(("reuse-a", task_reuse, dict(n=5000)))
    out.append(("reuse-b", task_reuse, dict(n=5000)))
    out.append(("elements", task_elements, {}))
    out.append(("families", task_families, {}))
    out.append(("table", task_table, {}))
    out += [("route-" + r, task_route, dict(route=r)) for r in ROUTES]
    out += [("aimed-2n-%d" % k, task_aimed, dict(part=k, parts=4)) for k in range(4)]
    out.append(("aimed-b", task_aimed_b, {}))
    return out


def replay(ctx, case):
    if isinstance(case, dict) and case.get("kind") == "little-stack":
        from .. import depth
        return depth.check(ctx, case)
    kind = case.get("kind")
    if case.get("route") and not _STATE:
        env(case["route"])          # replays run in a fresh process: take the same initialisation route
    if kind == "route":
        check_route(ctx, case["route"])
        return
    if kind == "row":
        # record every violation of the row (a known-finding entry names one bucket)
        for v in isotope_violations(ctx, (case["Z"], case["A"]), case["env"], only_pos=case["pos"]):
            ctx.violation(v.bucket, v.message, v.case)
        check_epithermal(ctx, case["env"], [(case["Z"], case["A"])])
    elif kind == "sample":
        check_sample(ctx, [case["atoms"], case["env"], case["abundance"]])
    elif kind == "reuse":
        check_reuse(ctx, case)
    elif kind == "b-synthetic":
        task_aimed_b(ctx)
    elif kind == "table":
        task_table(ctx)
    else:
        raise ValueError("unknown case kind %r" % kind)
