"""
C10 - private tables are isolated from the public table and from each other.

Histories interleave table creation, module.init(T), public reads/calculations,
reads on T, assignments and in-place mutations of T's per-atom data, pickling
and formula(table=T).  Each history runs in a fresh interpreter
(pbt/histories.py).  At the end every private table is completed and three
things are observed: the digest of the public table and of every private table
(must equal the canonical digest unless that table was itself mutated), the set
of mutable objects shared between tables (must be empty), and the per-event
observations (public events must equal the canonical observations, pickles
must restore the same object, formulas must contain only atoms of T).
"""
from hypothesis import strategies as st

from ..runner import Violation
from .. import histories as H
from . import c09

PROPERTY = "C10"
RULE = ("histories over: create T1/T2; <entry>(T) for the 9 loader entry points (mass/density inserted before the "
        "others, as the code asserts); public attribute reads and calculator calls (C09 events); reads/calculations on T; "
        "assignment to _mass/_density/covalent_radius/K_alpha/crystal_structure/neutron/magnetic_ff/neutron_activation "
        "of T's atoms; in-place mutation of the dict/list/array/object served for crystal_structure, neutron (incl. "
        "energy tables), magnetic_ff, neutron_activation, xray of T's atoms; pickle round trips; formula(s, table=T). "
        "Each runs in a fresh interpreter. Oracle: public digest and the digest of every unmutated private table equal "
        "the canonical digest; no mutable object is reachable from two tables; public event observations equal the "
        "canonical ones; pickle restores the identical object; parsed atoms belong to T. "
        "non-trivial = a lazy group is initialised on a private table before the public table touched it, or a "
        "mutation/assignment on T is followed by a public read/calculation of the same group; distinct by event list.")
ASSUMPTIONS = list(c09.ASSUMPTIONS[:2]) + [
    "mutations are applied only after the group was initialised on that table (the property says 'initialising ... and "
    "then assigning to or mutating'); the generator inserts the init when missing",
    "a mutated table's own digest is not judged; the other tables' are",
]

TABLES = ["T1", "T2"]
ENTRY_OF_GROUP = {"neutron": "nsf.init", "xray": "xsf.init", "emission": "xsf.init_spectral_lines",
                  "covalent_radius": "covalent_radius.init", "crystal_structure": "crystal_structure.init",
                  "magnetic_ff": "magnetic_ff.init", "activation": "activation.init"}
ASSIGN = [("_mass", "el+", 123.456, None), ("_mass", "iso", 55.5, None), ("_density", "el+", 9.99, None),
          ("covalent_radius", "el+", 9.87, "covalent_radius"), ("K_alpha", "cu", 7.77, "emission"),
          ("K_alpha", "el+", 7.77, "emission"),
          ("crystal_structure", "el+", "<assigned>", "crystal_structure"), ("neutron", "el+", "<assigned>", "neutron"),
          ("neutron", "iso", "<assigned>", "neutron"), ("magnetic_ff", "el+", {"99": "<assigned>"}, "magnetic_ff"),
          ("neutron_activation", "iso2", "<assigned>", "activation")]
MUTATE = [("crystal_structure", "el+", "crystal_structure"), ("neutron", "el+", "neutron"), ("neutron", "el-", "neutron"),
          ("neutron", "iso", "neutron"), ("neutron", "D", "neutron"), ("neutron", "ed", "neutron"), ("neutron", "lu", "neutron"),
          ("magnetic_ff", "el+", "magnetic_ff"), ("neutron_activation", "iso2", "activation"), ("xray", "el+", "xray"),
          ("xray", "ion", "xray")]
LOOKUPS = [("name", "iron"), ("name", "deuterium"), ("name", "cobalt"), ("symbol", "Fe"), ("symbol", "D"),
           ("isotope", "56-Fe"), ("isotope", "Co"), ("isotope", "T")]
FORMULAS = ["H2O", "Fe[56]{2+}2O{2-}3", "10wt% NaCl@2.16 // H2O@1", "D2O@1n", "5g NaCl // 50mL H2O@1", "aa:AKR"]


def public_events():
    return [e for e in c09.reduced_alphabet() if e[0] in ("read", "hasattr", "calc") and e[-1] == "public"]


def event_strategy():
    pub = public_events()
    tbl = st.sampled_from(TABLES)
    t_read = st.tuples(st.sampled_from(["covalent_radius", "crystal_structure", "neutron", "neutron_activation", "xray",
                                        "K_alpha", "magnetic_ff", "mass", "density", "number_density", "abundance"]),
                       st.sampled_from(["el+", "iso", "ion", "iso2"]), tbl).map(lambda t: ["read", t[0], t[1], t[2]])
    t_calc = st.tuples(st.sampled_from(H.CALCS), tbl).map(lambda t: ["calc", t[0], t[1]])
    t_init = st.tuples(st.sampled_from(H.INIT_ENTRIES + H.INIT_ENTRIES + H.RELOAD_ENTRIES), tbl).map(lambda t: ["init", t[0], t[1]])
    t_assign = st.tuples(st.sampled_from(ASSIGN), tbl).map(lambda t: ["assign", t[0][0], t[0][1], t[1], t[0][2]])
    t_mutate = st.tuples(st.sampled_from(MUTATE), tbl).map(lambda t: ["mutate", t[0][0], t[0][1], t[1]])
    t_pickle = st.tuples(st.sampled_from(["el+", "iso", "ion", "isoion", "D"]), tbl).map(lambda t: ["pickle", t[0], t[1]])
    t_formula = st.tuples(st.sampled_from(FORMULAS + H.FORMULA_ROUTES), tbl).map(lambda t: ["formula", t[0], t[1]])
    any_tbl = st.sampled_from(["public", "T1", "T2"])
    t_lookup = st.tuples(st.sampled_from(LOOKUPS), any_tbl).map(lambda t: ["lookup", t[0][0], t[0][1], t[1]])
    return st.one_of(st.sampled_from(pub), st.sampled_from(pub), t_init, t_init, t_read, t_calc, t_assign, t_mutate,
                     t_mutate, t_pickle, t_formula, t_formula, t_lookup, tbl.map(lambda t: ["create", t]),
                     st.sampled_from([["crowd", 17], ["crowd", 5]]))


def ev_table(ev):
    if ev[0] in ("read", "hasattr", "getattr3", "assign", "mutate", "lookup"):
        return ev[3]
    if ev[0] in ("init", "calc", "pickle", "formula"):
        return ev[2]
    if ev[0] == "keepdrop":
        return ev[1]
    if ev[0] == "create":
        return ev[1]
    return "public"


def ev_group(ev):
    if ev[0] in ("assign", "mutate"):
        return H.GROUP_OF.get(ev[1])
    return c09.ev_group(ev)


def fixup(history):
    """Insert what the code requires: the table exists; mass and density before
    the other loaders; a group is initialised on T before T's data of that
    group is read, assigned or mutated; everything before a calculation on T."""
    out = []
    created = set()
    done = {}

    def ensure(tbl, entry):
        if entry not in done[tbl]:
            if entry not in ("mass.init", "density.init"):
                ensure(tbl, "mass.init")
                ensure(tbl, "density.init")
            out.append(["init", entry, tbl])
            done[tbl].add(entry)

    for ev in history:
        tbl = ev_table(ev)
        if tbl == "public":
            out.append(ev)
            continue
        if ev[0] == "create":
            if tbl in created:
                continue
            created.add(tbl)
            done[tbl] = set()
            out.append(ev)
            continue
        if tbl not in created:
            created.add(tbl)
            done[tbl] = set()
            out.append(["create", tbl])
        if ev[0] == "init":
            if ev[1].endswith("+reload"):
                ensure(tbl, ev[1][:-7])   # reload=True of a loaded group of T: replaces T's data of that group only
                out.append(ev)
            elif ev[1] in done[tbl]:
                out.append(ev)        # repeated init is a legal no-op
            else:
                ensure(tbl, ev[1])
            continue
        ensure(tbl, "mass.init")
        ensure(tbl, "density.init")
        g = ev_group(ev)
        if ev[0] == "calc" or ev[0] == "formula":
            for e in H.INIT_ENTRIES:
                ensure(tbl, e)
        elif g is not None:
            ensure(tbl, ENTRY_OF_GROUP[g])
        out.append(ev)
    return out


def mutated_tables(history):
    return set(ev_table(e) for e in history if e[0] in ("assign", "mutate"))


def nontrivial(history):
    touched = set()
    dirty = set()
    for ev in history:
        g = ev_group(ev)
        tbl = ev_table(ev)
        if ev[0] == "init" and tbl != "public" and g is not None and g not in touched:
            return True
        if ev[0] in ("assign", "mutate") and g is not None:
            dirty.add(g)
        if tbl == "public" and g in dirty:
            return True
        if g is not None and (tbl == "public" or ev[0] == "init"):
            touched.add(g)
    return False


def cause(history, group, table):
    for ev in history:
        if ev[0] in ("assign", "mutate") and ev_group(ev) == group and ev_table(ev) != table:
            return "leak:%s:%s:%s" % (ev[0], ev[1], ev[2])
    for ev in history:
        # a changed mass or density legitimately shows in T's own derived values; on another table it is a leak
        # (the names, symbols and charge lists of group 'core' do not depend on mass or density)
        if (group != "core" and ev[0] in ("assign", "mutate") and ev[1] in ("_mass", "_density")
                and ev_table(ev) != table):
            return "leak:%s:%s:%s" % (ev[0], ev[1], ev[2])
    for ev in history:
        g = ev_group(ev)
        if g == group:
            if ev[0] == "init" and ev_table(ev) != "public":
                return "private-init-first:%s" % ev[1]
            break
    return "order"


def judge_all(history, res, canon):
    """Every disagreement of the history, one (bucket, message) per root-cause label."""
    out = []
    if "error" in res:
        raise RuntimeError("history runner failed: %s" % res["error"])
    if "final_error" in res:
        return [("c10:final:%s" % res["final_error"].split(":")[0],
                 "completing the private tables failed: %s" % res["final_error"])]
    mutated = mutated_tables(history)
    for ev, o in zip(history, res["obs"]):
        tbl = ev_table(ev)
        if ev[0] == "pickle":
            if o != ["ok", True]:
                out.append(("c10:pickle:%s" % ev[1], "pickle round trip of %s of %s gave %r" % (ev[1], tbl, o)))
        elif ev[0] == "lookup":
            if o[0] != "ok" or o[1][1] != tbl or o[1][2] is not True:
                out.append(("c10:lookup:%s" % ev[1], "%s.%s(%r) served %r (table %r expected, identical to table[Z]: %r)"
                            % (tbl, ev[1], ev[2], o[1][0] if o[0] == "ok" else o, tbl, o[1][2] if o[0] == "ok" else None)))
        elif ev[0] == "keepdrop":
            if o != ["ok", []]:
                out.append(("c10:dropped-table:restore", "atoms kept from %s after its PeriodicTable object was dropped: %r"
                            % (tbl, o[1] if o[0] == "ok" else o)))
        elif ev[0] == "crowd":
            if o != ["ok", []]:
                out.append(("c10:formula-table:crowd", "%d further private tables each parsed formulas: %r" % (ev[1], o)))
        elif ev[0] == "formula":
            if o != ["ok", [tbl]]:
                out.append(("c10:formula-table:%s" % (ev[1][6:] if ev[1].startswith("route:") else
                                                      "fasta" if ":" in ev[1] else "grammar"),
                            "formula(%r, table=%s) contains atoms of tables %r" % (ev[1], tbl, o)))
        elif ev[0] in ("create", "init", "assign", "mutate"):
            if o[0] != "ok":
                out.append(("c10:%s-raises:%s:%s" % (ev[0], ev[1], o[1]), "%s raised %s" % (H.ev_key(ev), o[1:])))
        elif tbl == "public":
            want = canon["obs"].get(H.ev_key(ev))
            if want is not None and o != want and not (o[0] == "exc" and want[0] == "exc" and o[1] == want[1]):
                g = ev_group(ev) or "none"
                out.append(("c10:public:%s:%s" % (g, cause(history, g, "public")),
                            "public event %s observed %s, canonical %s" % (H.ev_key(ev), c09._short(o), c09._short(want))))
    for tbl in sorted(res["digest"]):
        if tbl in mutated:
            continue
        bad = [k for k in H.diff_digest(canon["digest"], res["digest"][tbl]) if k in res["digest"][tbl]]
        for g in sorted(set(c09.DIGEST_GROUP[k] for k in bad)):
            mine = [k for k in bad if c09.DIGEST_GROUP[k] == g]
            out.append(("c10:%s:%s:%s" % ("public" if tbl == "public" else "private", g, cause(history, g, tbl)),
                        "table %s serves different values for %s %s" % (tbl, ", ".join(mine), "; ".join(
                            "%s=%s" % (k, res["digest"][tbl][k]) for k in mine
                            if str(res["digest"][tbl][k]).startswith("exc")))))
    for a, b, label in res.get("shared", []):
        out.append(("c10:shared-object:%s" % label, "tables %s and %s share a mutable object served as %s" % (a, b, label)))
    dedup = []
    for j in out:
        if j[0] not in [d[0] for d in dedup]:
            dedup.append(j)
    return dedup


def judge(history, res, canon):
    js = judge_all(history, res, canon)
    return js[0] if js else None


def attribute(history, js, canon):
    """All findings of a history with leak causes settled by experiment: when several
    assignments/mutations precede a leak, keep one at a time and see which one leaks alone,
    so that a bucket never names an innocent mutation.  Returns a list of (bucket, message)."""
    if js is None:
        return []
    if isinstance(js, tuple):
        js = [js]
    out = []
    muts = [i for i, e in enumerate(history) if e[0] in ("assign", "mutate")]
    for j in js:
        if ":leak:" not in j[0] or len(muts) < 2:
            out.append(j)
            continue
        found = []
        hs = [[e for k, e in enumerate(history) if k == i or k not in muts] for i in muts]
        for h, r in zip(hs, run(hs, 2)):
            for jj in judge_all(h, r, canon):
                if ":leak:" in jj[0] and jj not in found:
                    found.append(jj)
        out.extend(found or [(j[0] + ":combined", j[1])])
    dedup = []
    for j in out:
        if j[0] not in [d[0] for d in dedup]:
            dedup.append(j)
    return dedup


def run(histories, par):
    return H.run_parallel(lambda h: H.run_history(h, final="c10"), histories, par)


def prepare(tier):
    return c09.prepare(tier)


def get_canon(ctx):
    H.zygote_prepare()
    return ctx.shared


def classes(h):
    c = ["len:%d" % min(20, 5 * (len(h) // 5))]
    if "T2" in set(ev_table(e) for e in h):
        c.append("two-private-tables")
    if mutated_tables(h):
        c.append("has-mutation")
    return c


def sweep(ctx, histories, canon, par):
    for h, r in zip(histories, run(histories, par)):
        ctx.case(tuple(H.ev_key(e) for e in h), nontrivial=nontrivial(h), sample=[H.ev_key(e) for e in h], cls=classes(h))
        for j in attribute(h, judge_all(h, r, canon), canon):
            if not ctx.skip_bucket(j[0]):
                ctx.violation(j[0], j[1], {"kind": "history", "events": shrink(h, j[0], canon)})


def shrink(h, bucket, canon):
    def fails(s):
        s = fixup(s)
        js = attribute(s, judge_all(s, run([s], 1)[0], canon), canon)
        return any(j[0] == bucket for j in js)
    return fixup(H.ddmin(h, fails))


# ----------------------------------------------------------------------
def family_init_first(full):
    """init(m, T) is the first event of its group, then public reads/calcs."""
    pub = public_events()
    out = []
    for g, entry in sorted(ENTRY_OF_GROUP.items()):
        for e in pub:
            if not full and not (c09.ev_group(e) == g):
                continue
            out.append(fixup([["init", entry, "T1"], e]))
    return out


def family_mutate(full):
    """public touch first, then init on T, then assign/mutate, then public read; and the T2 variant."""
    out = []
    for p, route, g in MUTATE:
        obs = ["read", p, route if route in H.ROUTES else "el+", "public"]
        out.append(fixup([obs, ["mutate", p, route, "T1"], obs]))
        out.append(fixup([["mutate", p, route, "T1"], obs]))
        if full:
            out.append(fixup([["init", ENTRY_OF_GROUP[g], "T2"], ["mutate", p, route, "T1"], obs]))
            out.append(fixup([["mutate", p, route, "T1"], ["init", ENTRY_OF_GROUP[g], "T2"], obs]))
    # after customising T1, T1's own calculators run first (this primes any memo keyed by something
    # that does not include the table), then the public table and T2 are observed by the final digest
    for p, route, g in MUTATE:
        calcs = [c for c, gg in c09.CALC_GROUP.items() if gg == g and c not in H.NO_TABLE_CALCS]
        out.append(fixup([["mutate", p, route, "T1"]] + [["calc", c, "T1"] for c in calcs] + [["create", "T2"]]))
    for p, route, val, g in ASSIGN:
        if g is not None:
            calcs = [c for c, gg in c09.CALC_GROUP.items() if gg == g and c not in H.NO_TABLE_CALCS]
            out.append(fixup([["assign", p, route, "T1", val]] + [["calc", c, "T1"] for c in calcs]))
    for p, route, val, g in ASSIGN:
        out.append(fixup([["assign", p, route, "T1", val], ["create", "T2"]]))
        if full:
            out.append(fixup([["create", "T2"], ["init", "nsf.init", "T2"], ["assign", p, route, "T1", val]]))
    # customised mass/density on T1, then T1 itself is read (primes any memo), then the others are observed
    for p, val in (("_mass", 123.456), ("_density", 9.99)):
        for r in ("iso", "el+", "isoion"):
            out.append(fixup([["assign", p, "el+", "T1", val], ["read", "density", r, "T1"], ["read", "mass", r, "T1"],
                              ["read", "number_density", "el+", "T1"], ["create", "T2"]]))
    for r in ("el+", "iso", "ion", "isoion", "D"):
        out.append(fixup([["pickle", r, "T1"], ["pickle", r, "T2"], ["pickle", r, "public"]]))
    for f in FORMULAS + H.FORMULA_ROUTES:
        out.append(fixup([["formula", f, "T1"]]))
    # many private tables in one process (one table per user of a service): the early tables still get their own atoms
    for n in (17, 40):
        out.append(fixup([["formula", "H2O", "T1"], ["formula", "D2O@1n", "T2"], ["crowd", n], ["formula", "H2O", "T1"],
                          ["formula", "Fe[56]{2+}2O{2-}3", "T2"], ["formula", "H2O", "public"], ["crowd", 3],
                          ["formula", "route:parse_formula", "T1"]]))
    # atoms outlive their table object (always the last event on that table)
    for tb in ("T1", "T2"):
        out.append(fixup([["create", tb], ["keepdrop", tb]]))
        out.append(fixup([["create", tb], ["init", "nsf.init", tb], ["assign", "_mass", "el+", tb, 55.0], ["read", "mass", "el+", tb],
                          ["keepdrop", tb]]))
    out.append(fixup([["create", "T1"], ["create", "T2"], ["read", "neutron", "el+", "public"], ["keepdrop", "T1"],
                      ["pickle", "ion", "T2"], ["pickle", "ion", "public"]]))
    for order in (["T1", "public", "T2"], ["public", "T1", "T2"], ["T2", "T1", "public"]):
        out.append(fixup([["lookup", how, key, t] for t in order for how, key in LOOKUPS]))
    return out


def task_family(ctx, which, par, full, shard=0, nshards=1):
    canon = get_canon(ctx)
    hs = family_init_first(full) if which == "init-first" else family_mutate(full)
    sweep(ctx, hs[shard::nshards], canon, par)


def task_random(ctx, n, max_len):
    canon = get_canon(ctx)
    strat = st.lists(event_strategy(), min_size=2, max_size=max_len).map(fixup)

    def fn(c, h):
        r = run([h], 1)[0]
        c.case(tuple(H.ev_key(e) for e in h), nontrivial=nontrivial(h), sample=[H.ev_key(e) for e in h], cls=classes(h))
        for j in attribute(h, judge_all(h, r, canon), canon):
            if not c.skip_bucket(j[0]):
                raise Violation(j[0], j[1], {"kind": "history", "events": h})
    # histories cost a fork each: Hypothesis' shrinker is replaced by delta debugging on the event list
    ctx.search("random", strat, fn, n, shrink=False,
               post_shrink=lambda b, case: {"kind": "history", "events": shrink(case["events"], b, canon)})


def tasks(tier):
    if tier == "quick":
        t = [("family-init-first", task_family, dict(which="init-first", par=4, full=False)),
             ("family-mutate-0", task_family, dict(which="mutate", par=2, full=False, shard=0, nshards=2)),
             ("family-mutate-1", task_family, dict(which="mutate", par=2, full=False, shard=1, nshards=2))]
        for k in range(10):
            t.append(("random-%d" % k, task_random, dict(n=30, max_len=12)))
        return t
    t = []
    for k in range(3):
        t.append(("family-init-first-%d" % k, task_family, dict(which="init-first", par=1, full=True, shard=k, nshards=3)))
    t.append(("family-mutate", task_family, dict(which="mutate", par=2, full=True)))
    for k in range(11):
        t.append(("random-%d" % k, task_random, dict(n=700, max_len=12 + (k % 3) * 7)))
    return t


def replay(ctx, case):
    canon = get_canon(ctx)
    h = case["events"]
    r = run([h], 1)[0]
    ctx.case(tuple(H.ev_key(e) for e in h), nontrivial=nontrivial(h))
    for j in attribute(h, judge_all(h, r, canon), canon):
        if not ctx.skip_bucket(j[0]):
            raise Violation(j[0], j[1], case)
