"""
C04 - neutron results depend only on composition per unit mass, density and
wavelength: density scaling, cell size, grouping/order, energy vs wavelength,
unit conversions, vector vs scalar calls, non-negativity.

All relations are between runs of the library (metamorphic); the reference
calculator is used only for the *scale* of the operands (absolute floor where
an output is a cancelling sum or a clipped difference).
"""
import math
from fractions import Fraction

from hypothesis import strategies as st

from ..runner import Violation
from ..guards import unchanged
from .. import formula_ast as fa
from .. import neutron_c03 as ng
from ..refcalc_neutron import OUTPUTS

PROPERTY = "C04"
RULE = ("base: 1-8 distinct atoms with neutron data (ions, isotopes, D/T, energy dependent atoms 5/17 of the draws) with "
        "documented count spellings, density 1e-12..1e2 (log-uniform, dilute tail included), wavelength in [0.05, 50] A. Per base compound: "
        "density x k (k in 1e-9..1e9; SLDs and cross sections x k, penetration / k, rel 1e-12); all counts x k as a bracketed "
        "string (k = 1e-12..1e12 in the grammar's decimals) and as a dict (k in 1e-12..1e12) (unchanged, rel 1e-11); a regrouped variant = permutation, split counts, 1-3 nesting "
        "levels of implicit/explicit groups with multipliers, same multiset verified in Fractions (unchanged, rel 1e-11); "
        "dict route vs string route; before the repeated / scaled / regrouped evaluations the caller reads .atoms of a "
        "Formula of the same text (and of the object handed in) and edits the returned dict in place (move, change, "
        "clear): a new .atoms read and every later evaluation must be unaffected (and follow the reference); the density given as natural_density= must equal density = rho_n x sum n(m - q m_e) / "
        "sum n(m_natural - q m_e) computed here from the table masses, and count scaling (string, dict), regrouping, "
        "density scaling, the '@<d>n' suffix and a Formula with natural_density assigned must all agree with it (ions and "
        "isotope ions with counts != 1 are in the atom pool); a Formula object with another preset density called with natural_density= (vs the "
        "string) and without a density keyword (its own density; object unchanged); energy=E vs wavelength=neutron_wavelength(E) (rel 1e-12); vector call of length "
        "1..12 (list/tuple/float array, integer-valued list/tuple/int32/int64 array) vs the scalar calls at the float values (shape exact, rel 1e-14); the same vector call repeated straight away at "
        "density x k, and again (twice) after the caller overwrote that list/array in place with other wavelengths "
        "(entries vs scalar calls and vs the density relation: a result must not depend on earlier calls); every result: imaginary and incoherent SLD, "
        "cross sections, penetration >= 0. Every comparison adds the floor 1e-13 x operand scale. Conversions: E, "
        "lambda, v over 6 decades, scalar and vector. non-trivial = (>= 3 distinct atoms and >= 2 nesting levels in the "
        "regrouped variant) or (energy dependent atom and vector length >= 2); distinct by base string, density, wavelengths.")
ASSUMPTIONS = [
    "relations compare two library results; tolerances: density 1e-12, counts/regrouping 1e-11, energy 1e-12, "
    "vector 1e-14 relative, plus 2 x 1e-13 x operand scale (from pbt/refcalc_neutron.py) for sums that cancel and for "
    "the clipped incoherent difference",
    "anchor 1.798 A = 2200 m/s = 25.3 meV is quoted to 4 digits: checked to 1e-3 A",
    "the constants E*lambda^2 and v*lambda are additionally compared with h^2/(2 m_n) and h/m_n computed from "
    "periodictable.constants (rel 1e-12)",
]

MULTS = [Fraction(2), Fraction(4), Fraction(5), Fraction(10), Fraction(1, 2), Fraction(1, 4), Fraction(8),
         Fraction(5, 2), Fraction(20), Fraction(1)]
SPLITS = [Fraction(1, 2), Fraction(1, 4), Fraction(1, 5), Fraction(3, 4)]
KCOUNT = ["2", "3", "10", "0.5", "7.25", "1000", "0.001", "12.", ".5", "64",
          "0.000000001", "0.0000000001", ".000000000001", "1000000000", "1000000000000", "25000000000."]


# ----------------------------------------------------------------------
# regrouping
class _R(object):
    def __init__(self, r):
        self.r = list(r) or [0]
        self.i = 0

    def __call__(self, n):
        v = self.r[self.i % len(self.r)] + self.i // len(self.r)
        self.i += 1
        return v % n


def _count(fr, rnd):
    if fr == 1:
        return None if rnd(2) else "1"
    return ng.dec(fr)


def _build(items, level, rnd):
    """(groups, seps) holding exactly the multiset items = [(spec, Fraction)]."""
    groups = []
    i = 0
    while i < len(items):
        size = 1 + rnd(3)
        chunk = items[i:i + size]
        i += size
        m = MULTS[rnd(len(MULTS))]
        inner = [(s, c / m) for s, c in chunk]
        if level > 0 and rnd(2):
            gs, ss = _build(inner, level - 1, rnd)
            pads = ["", " "[:rnd(2)], " "[:rnd(2)], ""]
            groups.append(["e", gs, ss, None if m == 1 else ng.dec(m), pads])
        else:
            groups.append(["i", None if m == 1 else ng.dec(m),
                           [["a", s, bool(rnd(2)), _count(c, rnd)] for s, c in inner]])
    seps = [fa.SEPS[rnd(len(fa.SEPS))] for _ in groups[1:]]
    return groups, seps


def regroup(atoms, r):
    """A tree with the same multiset as *atoms* = [[spec, count_str]]: permuted, some
    counts split in two occurrences, grouped and nested with multipliers."""
    rnd = _R(r)
    items = [(s, Fraction(c)) for s, c in atoms]
    out = []
    for s, c in items:
        if rnd(3) == 0:
            p = SPLITS[rnd(len(SPLITS))]
            out += [(s, c * p), (s, c * (1 - p))]
        else:
            out.append((s, c))
    for i in range(len(out) - 1, 0, -1):
        j = rnd(i + 1)
        out[i], out[j] = out[j], out[i]
    gs, ss = _build(out, 3, rnd)
    return {"g": gs, "s": ss, "d": None}


def base_tree(atoms):
    return {"g": [["i", None, [["a", s, False, c] for s, c in atoms]]], "s": [], "d": None}


# ----------------------------------------------------------------------
def _scat(obj, rho, **kw):
    E = ng.env()
    with unchanged("c04", {"kind": "call", "args": repr(kw)[:200]}, compound=obj if isinstance(obj, dict) else None, **kw):
        return ng.flatten(E["pt"].neutron_scattering(obj, density=rho, **kw))


def _call(obj, **kw):
    E = ng.env()
    with unchanged("c04", {"kind": "call", "args": repr(kw)[:200]}, **kw):
        return ng.flatten(E["pt"].neutron_scattering(obj, **kw))


def nonneg(res, case, what):
    np = ng.env()["np"]
    for o in OUTPUTS[1:]:
        a = np.asarray(res[o], dtype=float)
        if not bool(np.all(a >= 0)):
            raise Violation("c04:negative:%s" % o, "%s: %s = %r" % (what, o, res[o]), case)


def same(bucket, a, b, floors, rel, case, what, factor=None, index=None):
    """a[o] == factor[o] * b[o] for every output (scalars, or element *index* of a)."""
    np = ng.env()["np"]
    for o in OUTPUTS:
        x = float(np.asarray(a[o], dtype=float).reshape(-1)[index or 0])
        k = 1.0 if factor is None else factor[o]
        y = float(b[o]) * k
        tol = rel * max(abs(x), abs(y)) + 2.0 * floors[o]
        if not abs(x - y) <= tol:
            raise Violation("%s:%s" % (bucket, o), "%s: %s = %r, expected %r" % (what, o, x, y), case)


def pick(res, i):
    np = ng.env()["np"]
    return dict((o, float(np.asarray(res[o], dtype=float).reshape(-1)[i])) for o in OUTPUTS)


def edit_atoms(f, how, case, what):
    """Read f.atoms, check a second read gives an equal dict, then edit the FIRST dict in place the
    way a caller who owns it may (the docstring says referencing the attribute computes the counts);
    a third read must still give the original composition."""
    a1 = f.atoms
    want = dict(a1)
    keys = list(a1)
    if keys:
        if how % 3 == 0:
            a1[keys[-1]] = a1.pop(keys[0]) * 3 + 1
        elif how % 3 == 1:
            a1[keys[0]] = a1[keys[0]] * 7.5 + 2
        else:
            a1.clear()
    a3 = f.atoms
    if not (a3 == want and all(x is y for x, y in zip(sorted(a3, key=id), sorted(want, key=id)))):
        raise Violation("c04:atoms-edit:atoms-changed", "%s: after the caller edited the dict returned by .atoms, "
                        "a new read of .atoms gives %r instead of %r" % (what, a3, want), case)


def check_relations(ctx, v):
    E = ng.env()
    np, pt, R, pool = E["np"], E["pt"], E["ref"], E["pool"]
    atoms = v["atoms"]
    tree = base_tree(atoms)
    s0 = fa.render(tree)
    comp_fr = fa.composition(pool, tree)
    comp = dict((k, float(n)) for k, n in comp_fr.items())
    rho, lam = v["density"], v["lam"]
    var = regroup(atoms, v["r"])
    assert fa.composition(pool, var) == comp_fr, "regroup changed the multiset"
    s_var = fa.render(var)
    depth = fa.tree_depth(var)
    edep = ng.has_edep(comp)
    vec = v["vec"]
    nt = (len(comp) >= 3 and depth >= 2) or (edep and len(vec) >= 2)
    specs = [s for s, _ in atoms]
    cls = ng.comp_classes(specs, comp) + ["regroup-depth:%d" % depth, "veclen:%d" % len(vec), "vecform:" + v["vform"]]
    ctx.case((s0, rho, lam, tuple(vec), s_var), nontrivial=nt,
             sample={"base": s0, "regrouped": s_var, "density": rho, "wavelength": lam, "vector": vec}, cls=cls)
    case = dict(v, kind="relations")

    ref, floors = R.scattering(comp, rho, lam, E["axis"])
    base = _scat(s0, rho, wavelength=lam)
    nonneg(base, case, s0)

    # the caller reads .atoms of a Formula of the same text (and of the object it hands in) and edits the
    # returned dict in place; the same evaluation again must give the same numbers and follow the reference
    how = v["r"][0]
    f0 = pt.formula(s0)
    edit_atoms(f0, how, case, "formula(%r)" % s0)
    edit_atoms(pt.formula(s0), how + 1, case, "a second formula(%r)" % s0)
    again = _scat(s0, rho, wavelength=lam)
    same("c04:atoms-edit:string", base, again, floors, 1e-14, case, "%s evaluated again after an .atoms dict was edited" % s0)
    again = _scat(f0, rho, wavelength=lam)
    same("c04:atoms-edit:formula-object", base, again, floors, 1e-14, case,
         "Formula(%s) evaluated after its .atoms dict was edited" % s0)
    ng.compare_outputs("c04:atoms-edit:reference", again, comp, rho, [lam], case, "edep" if edep else "ordinary")

    # density x k
    k = v["kd"]
    r1 = _scat(s0, rho * k, wavelength=lam)
    nonneg(r1, case, "density x k")
    fac = dict((o, 1.0 / k) for o in OUTPUTS)
    fac["penetration"] = k
    same("c04:density-scale", base, r1, floors, 1e-12, case, "%s density %r vs %r" % (s0, rho, rho * k), fac)

    # counts x k: bracketed string, leading-count string, dict
    kc = v["kc"]
    t2 = {"g": [["e", tree["g"], tree["s"], kc, ["", "", "", ""]]], "s": [], "d": None}
    s2 = fa.render(t2)
    edit_atoms(pt.formula(s2), how + 2, case, "formula(%r)" % s2)
    r2 = _scat(s2, rho, wavelength=lam)
    same("c04:count-scale:string", base, r2, floors, 1e-11, case, "%s vs %s" % (s0, s2))
    kf = v["kf"]
    d3 = dict((ng.resolve(E["table"], s), float(Fraction(c)) * kf) for s, c in atoms)
    r3 = _scat(d3, rho, wavelength=lam)
    same("c04:count-scale:dict", base, r3, floors, 1e-11, case, "%s vs dict x %r" % (s0, kf))

    # regrouped / permuted
    edit_atoms(pt.formula(s_var), how, case, "formula(%r)" % s_var)
    r4 = _scat(s_var, rho, wavelength=lam)
    nonneg(r4, case, s_var)
    same("c04:regroup", base, r4, floors, 1e-11, case, "%s vs %s" % (s0, s_var))

    # the same relations with the density given as NATURAL density (keyword, '@..n' suffix, Formula
    # attribute).  The isotope-substituted density it stands for is computed here from the table masses:
    # rho_n * sum n (m_atom - q m_e) / sum n (m_natural element - q m_e)
    rho_n = rho
    d_ref = R.density_from_natural(comp, rho_n)
    facn = dict((o, rho / d_ref) for o in OUTPUTS)
    facn["penetration"] = d_ref / rho
    nA = _call(s0, natural_density=rho_n, wavelength=lam)
    nonneg(nA, case, "natural_density")
    same("c04:natural-density:value", base, nA, floors, 1e-12, case,
         "%s natural_density=%r must be density=%r" % (s0, rho_n, d_ref), facn)
    fln = dict((o, floors[o] * (d_ref / rho if o != "penetration" else 1.0)) for o in floors)
    n2 = _call(s2, natural_density=rho_n, wavelength=lam)
    same("c04:natural-density:count-scale:string", nA, n2, fln, 1e-11, case, "natural_density=%r: %s vs %s" % (rho_n, s0, s2))
    n3 = _call(d3, natural_density=rho_n, wavelength=lam)
    same("c04:natural-density:count-scale:dict", nA, n3, fln, 1e-11, case, "natural_density=%r: %s vs dict x %r" % (rho_n, s0, kf))
    n4 = _call(s_var, natural_density=rho_n, wavelength=lam)
    same("c04:natural-density:regroup", nA, n4, fln, 1e-11, case, "natural_density=%r: %s vs %s" % (rho_n, s0, s_var))
    tag = ng.dec(Fraction(repr(float(rho_n))))
    if float(tag) == rho_n:
        s5 = (s2 if v["vvar"] else s_var) + "@" + tag + "n"
        n5 = _call(s5, wavelength=lam)
        same("c04:natural-density:tag", nA, n5, fln, 1e-11, case, "%s natural_density=%r vs %s" % (s0, rho_n, s5))
    fn = pt.formula(s_var if v["vvar"] else s2)
    fn.natural_density = rho_n
    n6 = _call(fn, wavelength=lam)
    same("c04:natural-density:formula-attribute", nA, n6, fln, 1e-11, case,
         "%s natural_density=%r vs Formula(%s).natural_density = %r" % (s0, rho_n, fn, rho_n))
    n7 = _call(s2, natural_density=rho_n * k, wavelength=lam)
    same("c04:natural-density:density-scale", nA, n7, fln, 1e-11, case,
         "%s natural_density %r vs %s natural_density %r" % (s0, rho_n, s2, rho_n * k), fac)
    if any(c for z, a, c in comp):
        ctx.count("natural-density:with-ions")
    if any(c and n != 1 for (z, a, c), n in comp.items()):
        ctx.count("natural-density:ion-count-not-1")

    # energy vs wavelength
    en = R.energy(lam)
    lam_e = E["nsf"].neutron_wavelength(en)
    r5 = _scat(s0, rho, energy=en)
    r6 = _scat(s0, rho, wavelength=lam_e)
    same("c04:energy-vs-wavelength", r5, r6, floors, 1e-12, case, "%s energy=%r vs wavelength=%r" % (s0, en, lam_e))
    # energy wins over wavelength when both are given ("If energy is specified then wavelength is ignored")
    r7 = _scat(s0, rho, energy=en, wavelength=lam * 3.0 + 1.0)
    same("c04:energy-overrides-wavelength", r5, r7, floors, 1e-12, case, "%s energy=%r with a wavelength" % (s0, en))

    # the compound as a Formula object that carries another density (and a name): the density keyword of the
    # call states the density of the calculation, the object is left as it was
    fobj = pt.formula(s0, density=rho * 2.5 + 0.125, name="preset")
    snap = (fobj.structure, fobj.density, fobj.name)
    r8 = _call(fobj, natural_density=rho, energy=en)
    r9 = _call(s0, natural_density=rho, wavelength=lam_e)
    same("c04:formula-object:natural_density", r8, r9, floors, 1e-12, case,
         "Formula(%s, density=%r) vs the string, both called with natural_density=%r" % (s0, fobj.density, rho))
    r10 = _call(fobj, wavelength=lam)
    fac10 = dict((o, rho / fobj.density) for o in OUTPUTS)
    fac10["penetration"] = fobj.density / rho
    same("c04:formula-object:own-density", base, r10, floors, 1e-12, case,
         "Formula(%s, density=%r) called without a density keyword" % (s0, fobj.density), fac10)
    if (fobj.structure, fobj.density, fobj.name) != snap:
        raise Violation("c04:formula-object:modified", "the Formula object changed: %r -> %r"
                        % (snap, (fobj.structure, fobj.density, fobj.name)), case)

    # vector vs scalar
    how = v["vby"]
    vals, vlam = ng.wl_values(v["vform"], how, vec)      # whole A / whole meV for the integer forms
    arg = ng.wl_object(v["vform"], vals)[0]
    target = pt.formula(s_var if v["vvar"] else s0)        # parsed once; a Formula is a formula initializer
    if v.get("vpreset"):
        target.density = rho * 0.5 + 3.0                   # the density= keyword of the calls replaces it
    rv = _scat(target, rho, **{how: arg})
    for o in OUTPUTS:
        ng.check_shape("c04:vector", o, rv[o], (len(vec),), case)
    nonneg(rv, case, "vector call")
    keep = ng.Retained("c04", case, foreign=[(how, arg)])
    keep.add("the vector call", [(o, rv[o]) for o in OUTPUTS])
    # the same compound and the SAME wavelength/energy object again, straight away, at density x k:
    # a result must not depend on the call before it
    rv2 = _scat(target, rho * k, **{how: arg})
    for o in OUTPUTS:
        ng.check_shape("c04:vector", o, rv2[o], (len(vec),), case)
    nonneg(rv2, case, "repeated vector call")
    keep.add("the repeated vector call", [(o, rv2[o]) for o in OUTPUTS])
    for i in range(len(vec)):
        fl = R.scattering(comp, rho, vlam[i], E["axis"])[1]
        same("c04:repeat:density-scale", rv, pick(rv2, i), fl, 1e-12, case,
             "vector call repeated at density x %r, entry %d" % (k, i), fac, index=i)
    for i in range(len(vec)):
        x = float(vals[i])                                 # the scalar call is made at the float value
        rs = _scat(target, rho, **{how: x})
        for o in OUTPUTS:
            ng.check_shape("c04:scalar", o, rs[o], (), case)
        fl = R.scattering(comp, rho, vlam[i], E["axis"])[1]
        same("c04:vector-vs-scalar", rv, rs, fl, 1e-14, case,
             "%s[%d] of the vector call vs scalar %s=%r" % (how, i, how, x), index=i)
    # the caller overwrites the same list/array with other wavelengths and calls again (twice in a row)
    vec2 = [v["vec2"][i % len(v["vec2"])] for i in range(len(vec))] if v.get("vec2") else None
    if vec2 and not isinstance(arg, tuple):
        vals, vlam2 = ng.wl_values(v["vform"], how, vec2)
        arg[:] = vals
        ra = _scat(target, rho, **{how: arg})
        rb = _scat(target, rho * k, **{how: arg})
        for o in OUTPUTS:
            ng.check_shape("c04:vector", o, ra[o], (len(vec),), case)
            ng.check_shape("c04:vector", o, rb[o], (len(vec),), case)
        nonneg(ra, case, "vector call after the wavelengths changed in place")
        keep.add("the call after the in-place change", [(o, ra[o]) for o in OUTPUTS])
        keep.add("its repeat at density x k", [(o, rb[o]) for o in OUTPUTS])
        for i in range(min(len(vec2), 4)):
            x = float(vals[i])
            rs = _scat(target, rho, **{how: x})
            fl = R.scattering(comp, rho, vlam2[i], E["axis"])[1]
            same("c04:repeat:wavelengths-changed-in-place", ra, rs, fl, 1e-14, case,
                 "%s[%d] after the caller overwrote the vector in place vs scalar %s=%r" % (how, i, how, x), index=i)
            same("c04:repeat:density-scale", ra, pick(rb, i), fl, 1e-12, case,
                 "overwritten vector repeated at density x %r, entry %d" % (k, i), fac, index=i)
    keep.verify("at the end of the relations")


# ----------------------------------------------------------------------
def close(a, b, rel):
    return abs(a - b) <= rel * max(abs(a), abs(b))


def check_conversions(ctx, v):
    E = ng.env()
    np, nsf, R = E["np"], E["nsf"], E["ref"]
    e1, e2, vel = v["e1"], v["e2"], v["v"]
    ctx.case(("conv", e1, e2, vel), nontrivial=True, sample=v, cls=["conversions"])
    case = dict(v, kind="conversions")
    l1, l2 = float(nsf.neutron_wavelength(e1)), float(nsf.neutron_wavelength(e2))
    c_e = R.h * R.h / (2.0 * R.mn) / R.eV * 1e3 * 1e20           # meV A^2
    c_v = R.h / R.mn * 1e10                                      # A m/s
    if not close(e1 * l1 * l1, e2 * l2 * l2, 1e-13):
        raise Violation("c04:conv:E-lambda2-not-constant", "E*lambda^2 = %r at %r meV, %r at %r meV"
                        % (e1 * l1 * l1, e1, e2 * l2 * l2, e2), case)
    if not close(e1 * l1 * l1, c_e, 1e-12):
        raise Violation("c04:conv:E-lambda2-constant", "E*lambda^2 = %r, h^2/(2 m_n) = %r meV A^2" % (e1 * l1 * l1, c_e), case)
    back = float(nsf.neutron_energy(nsf.neutron_wavelength(e1)))
    if not close(back, e1, 1e-14):
        raise Violation("c04:conv:roundtrip-energy", "neutron_energy(neutron_wavelength(%r)) = %r" % (e1, back), case)
    lam = v["lam"]
    back = float(nsf.neutron_wavelength(nsf.neutron_energy(lam)))
    if not close(back, lam, 1e-14):
        raise Violation("c04:conv:roundtrip-wavelength", "neutron_wavelength(neutron_energy(%r)) = %r" % (lam, back), case)
    en = float(nsf.neutron_energy(lam))
    if not close(en * lam * lam, c_e, 1e-12):
        raise Violation("c04:conv:E-lambda2-constant", "neutron_energy(%r)*lambda^2 = %r, expected %r" % (lam, en * lam * lam, c_e), case)
    lv, lv2 = float(nsf.neutron_wavelength_from_velocity(vel)), float(nsf.neutron_wavelength_from_velocity(vel * 3.5))
    if not close(vel * lv, vel * 3.5 * lv2, 1e-13):
        raise Violation("c04:conv:v-lambda-not-constant", "v*lambda = %r at %r m/s, %r at %r m/s"
                        % (vel * lv, vel, vel * 3.5 * lv2, vel * 3.5), case)
    if not close(vel * lv, c_v, 1e-12):
        raise Violation("c04:conv:v-lambda-constant", "v*lambda = %r, h/m_n = %r A m/s" % (vel * lv, c_v), case)
    # E = 1/2 m v^2 ties the two conversions together
    e_v = 0.5 * R.mn * vel * vel / R.eV * 1e3
    if not close(float(nsf.neutron_wavelength(e_v)), lv, 1e-12):
        raise Violation("c04:conv:energy-velocity-inconsistent",
                        "v = %r m/s: wavelength_from_velocity %r but neutron_wavelength(m v^2/2 = %r meV) = %r"
                        % (vel, lv, e_v, float(nsf.neutron_wavelength(e_v))), case)
    # vectors
    ev = np.array([e1, e2, 25.3])
    lvv = nsf.neutron_wavelength(ev)
    if np.shape(lvv) != (3,) or not all(close(float(lvv[i]), float(nsf.neutron_wavelength(float(ev[i]))), 1e-15) for i in range(3)):
        raise Violation("c04:conv:vector", "neutron_wavelength(%r) = %r" % (ev, lvv), case)
    evv = nsf.neutron_energy(lvv)
    if np.shape(evv) != (3,) or not all(close(float(evv[i]), float(ev[i]), 1e-14) for i in range(3)):
        raise Violation("c04:conv:vector", "neutron_energy(neutron_wavelength(%r)) = %r" % (ev, evv), case)
    vv = nsf.neutron_wavelength_from_velocity(np.array([vel, 2200.0]))
    if np.shape(vv) != (2,) or not close(float(vv[0]), lv, 1e-15):
        raise Violation("c04:conv:vector", "neutron_wavelength_from_velocity vector = %r" % (vv,), case)
    # anchors
    a1, a2 = float(nsf.neutron_wavelength(25.3)), float(nsf.neutron_wavelength_from_velocity(2200.0))
    if not (abs(a1 - 1.798) < 1e-3 and abs(a2 - 1.798) < 1e-3):
        raise Violation("c04:conv:anchor", "25.3 meV -> %r A, 2200 m/s -> %r A, documented 1.798 A" % (a1, a2), case)
    a3 = float(nsf.neutron_energy(1.798))
    if not abs(a3 - 25.3) < 0.02:
        raise Violation("c04:conv:anchor", "1.798 A -> %r meV, documented 25.3 meV" % a3, case)


# ----------------------------------------------------------------------
def strat_relations():
    atoms = st.lists(st.tuples(ng.atom_spec(), fa.count_str(allow_none=False)).map(list), min_size=1, max_size=8,
                     unique_by=lambda t: ng._canon(t[0]))
    logf = lambda lo, hi: st.floats(lo, hi).map(lambda x: float("%.6g" % 10 ** x))
    return st.fixed_dictionaries({
        "atoms": atoms,
        "density": st.one_of(ng.density_value(), logf(-3, 2), logf(-12, 2)),
        "lam": ng.one_wavelength(),
        "kd": st.one_of(logf(-3, 3), logf(-9, 9), st.sampled_from([1e-9, 1e-5, 1e9])),
        "kc": st.sampled_from(KCOUNT),
        "kf": st.one_of(logf(-3, 3), logf(-12, 12), st.sampled_from([1e-12, 1e-10, 1e12])),
        "r": st.lists(st.integers(0, 10 ** 6), min_size=6, max_size=12),
        "vec": st.lists(ng.one_wavelength(), min_size=1, max_size=12),
        "vec2": st.lists(ng.one_wavelength(), min_size=1, max_size=6),
        "vform": st.sampled_from(["list", "array", "array", "tuple", "intlist", "intlist", "inttuple", "intarray32",
                                  "intarray64"]),
        "vby": st.sampled_from(["wavelength", "wavelength", "energy"]),
        "vvar": st.booleans(),
        "vpreset": st.booleans(),
    })


def task_relations(ctx, n):
    ng.env()
    ctx.search("relations", strat_relations(), check_relations, n)


def task_conversions(ctx, n):
    ng.env()
    logf = lambda lo, hi: st.floats(lo, hi).map(lambda x: 10 ** x)
    s = st.fixed_dictionaries({"e1": logf(-3, 3), "e2": logf(-3, 3), "v": logf(0.5, 6.5), "lam": logf(-2, 3)})
    ctx.search("conversions", s, check_conversions, n)


def tasks(tier):
    if tier == "quick":
        return [("relations-%d" % k, task_relations, dict(n=300)) for k in range(5)] + \
               [("conversions", task_conversions, dict(n=1500))]
    return [("relations-%d" % k, task_relations, dict(n=8000)) for k in range(15)] + \
           [("conversions", task_conversions, dict(n=100000))]


def replay(ctx, case):
    if case["kind"] == "relations":
        check_relations(ctx, case)
    elif case["kind"] == "conversions":
        check_conversions(ctx, case)
    else:
        raise ValueError(case["kind"])
