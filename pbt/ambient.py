"""
Ambient process state.

The properties quantify over inputs and call histories; none of them mentions the state of the *process* the calls
are made in.  A caller may legitimately have changed the working directory, pointed PERIODICTABLE_DATA at the
package's own data directory, set numpy's print options or error state, silenced warnings, made calls from another thread than the one that imported the library, or have a
garbage collector that runs at other moments.  Every answer must be the same.

The runner picks, per task, a subset of these perturbations as a pure function of (VERIF_SEED, position of the task)
and applies it before the task body runs (VERIF_AMBIENT=plain switches the layer off, VERIF_AMBIENT=cwd,numpy,…
forces a subset).  The oracles do not depend on any of this state (absolute paths, no printing of numpy values);
decimal arithmetic of the oracles runs in the explicit context of pbt/dec.py.  The chosen subset is recorded in the evidence (`extra.ambient`) and appended
to the message of every violation found under it.

Perturbations
  cwd      chdir to a fresh empty directory; PERIODICTABLE_DATA = the package directory (the documented override,
           pointing at the same files); warnings silenced
  numpy    np.set_printoptions(precision=2, suppress=True, floatmode='fixed', threshold=3, legacy='1.25'),
           np.seterr(all='ignore')
  decimal  the thread's decimal context and decimal.DefaultContext (inherited by new threads and by contexts built
           later): prec=3, ROUND_DOWN — set before periodictable is imported.  Oracle arithmetic runs in an explicit
           80-digit context (pbt/dec.py); properties whose oracles compute in the thread's context throughout
           (C14, C15: AMBIENT_SKIP) are left out
  thread   every other call of a search oracle is made from a freshly started thread (never concurrently), the
           first one included, so first accesses happen off the main thread
  gc       gc.collect() after every 64th oracle call and generation thresholds (50, 2, 2)
  imports  every periodictable submodule imported up front, in an order drawn from the hash
  pyparsing  process-wide pyparsing settings a host application with a grammar of its own may have made before the
           formula grammar is first built: ParserElement.inline_literals_using(Suppress), enable_packrat()
  reload   every lazy group of the public table is loaded, then importlib.reload() of a hash-chosen subset of the
           calculator modules (nsf, xsf, activation, fasta, cromermann, util, magnetic_ff, covalent_radius,
           crystal_structure): re-executing a module must not lose data that was loaded before
  subclass every private table the check creates is an instance of a user subclass of PeriodicTable (pbt/subtable.py:
           undefined attributes are looked up in the public table)
  rejects  between the oracle calls the caller makes calls that the library legitimately REJECTS and catches the
           exception (unknown symbol / isotope / charge, unbalanced bracket, bare '@', percentages above 100, no
           density, unknown packing factor, invalid sequence code, missing FASTA file, ... on the public and on a
           private table; 30 kinds, each verified to raise when the task starts): a rejected call leaves nothing behind
  aged     when a search has finished, the process is AGED (`age()`: 6 000 distinct formula structures counted, every ion
           of every isotope looked up, 24 further private tables created and used for a parse, 3 000 distinct strings
           parsed on the public table) and the first 24 cases of the search are judged again by the same oracle:
           what was right early in the life of a process is right late in it (bounded caches, counters, recycled slots)
  warnerr  DeprecationWarning, PendingDeprecationWarning, FutureWarning and UserWarning are ERRORS (a test suite with
           filterwarnings=error), except pyparsing's own warnings about the camelCase names the library still uses
           (RuntimeWarning is left alone: numpy's divide/invalid warnings are the caller's own business): a
           deprecated idiom inside the library would turn into an exception - or, swallowed by a broad except, into
           missing data
Tasks of the history properties fork one interpreter per history and must start from a process that never
imported periodictable, so `imports` and `thread` are not applied to C08, C09 and C10.
"""
import hashlib
import os
import sys

BITS = ["cwd", "numpy", "thread", "gc", "imports", "decimal", "pyparsing", "reload", "subclass", "rejects", "aged", "warnerr"]
NO_PRELOAD = {"C08", "C09", "C10"}
RELOADABLE = ["nsf", "xsf", "activation", "fasta", "cromermann", "util", "magnetic_ff", "covalent_radius",
              "crystal_structure"]
SUBMODULES = ["activation", "constants", "core", "covalent_radius", "cromermann", "crystal_structure", "density",
              "fasta", "formulas", "magnetic_ff", "mass", "nsf", "nsf_resonances", "util", "xsf"]


def choose(seed, prop, task, mod=None, idx=None):
    forced = os.environ.get("VERIF_AMBIENT")
    if forced is not None:
        got = [b for b in forced.replace("plain", "").split(",") if b]
        on = [b for b in BITS if b in got]
    else:
        if idx is None:
            h = hashlib.blake2b(repr((seed, prop, task, "ambient")).encode(), digest_size=16).digest()
            on = [b for i, b in enumerate(BITS) if h[i] & 1]
        else:
            # a fixed pattern over the task list: perturbation j is on in task idx iff bit (j mod 3) of idx + seed is set,
            # so every perturbation is on in about half the tasks of every run, sibling tasks (…-a, …-b) get
            # complementary sets, and another seed shifts the assignment
            on = [b for j, b in enumerate(BITS) if ((idx + seed) >> (j % 3)) & 1]
    if prop in NO_PRELOAD:
        on = [b for b in on if b not in ("imports", "thread")]
    if prop in NO_PRELOAD:
        on = [b for b in on if b not in ("reload", "rejects", "aged")]
    # tasks whose first periodictable action is part of the case (initialisation routes, private-first
    # configurations) are named by the module: PRISTINE_TASKS = ("route-", ...) name prefixes, or PRISTINE = True
    if mod is not None and (getattr(mod, "PRISTINE", False)
                            or any(task.startswith(p) for p in getattr(mod, "PRISTINE_TASKS", ()))):
        on = [b for b in on if b not in ("imports", "reload", "rejects", "aged")]
    if mod is not None:
        on = [b for b in on if b not in getattr(mod, "AMBIENT_SKIP", ())]
    if task.startswith("fuzz"):
        on = [b for b in on if b not in ("thread", "cwd")]     # libFuzzer owns its subprocess
    return on


def enter(on, seed, prop, task, repo):
    """Apply the perturbations named in *on* to this process.  Returns a dict of run-time switches for Ctx."""
    sw = {"thread": "thread" in on, "gc": "gc" in on, "names": list(on), "rejects": "rejects" in on,
          "aged": "aged" in on}
    if "cwd" in on:
        import tempfile
        import warnings
        d = tempfile.mkdtemp(prefix="verif-ambient-")
        os.chdir(d)
        sw["tmpdir"] = d
        os.environ["PERIODICTABLE_DATA"] = os.path.join(os.path.realpath(repo), "periodictable")
        warnings.simplefilter("ignore")
    if "numpy" in on:
        import numpy as np
        np.set_printoptions(precision=2, suppress=True, floatmode="fixed", threshold=3, legacy="1.25")
        np.seterr(all="ignore")
    if "decimal" in on:
        import decimal
        for c in (decimal.getcontext(), decimal.DefaultContext):
            c.prec = 3
            c.rounding = decimal.ROUND_DOWN
    if "gc" in on:
        import gc
        gc.set_threshold(50, 2, 2)
    if "imports" in on:
        import importlib
        h = hashlib.blake2b(repr((seed, prop, task, "imports")).encode(), digest_size=16).digest()
        order = sorted(range(len(SUBMODULES)), key=lambda i: (h[i % 16] + 31 * i * (h[(i + 7) % 16] + 1)) % 257)
        for i in order:
            try:
                importlib.import_module("periodictable." + SUBMODULES[i])
            except ImportError:
                pass
    if "warnerr" in on:
        import warnings
        import pyparsing
        for cat in (DeprecationWarning, PendingDeprecationWarning, FutureWarning, UserWarning):
            warnings.filterwarnings("error", category=cat)
        warnings.filterwarnings("ignore", category=pyparsing.PyparsingWarning)
        try:
            from hypothesis.errors import HypothesisWarning
            warnings.filterwarnings("ignore", category=HypothesisWarning)
        except ImportError:
            pass
        warnings.filterwarnings("ignore", category=DeprecationWarning, module=r"(hypothesis|_pytest|atheris)(\..*)?")
    if "subclass" in on:
        from . import subtable
        subtable.FLAVOUR = "overlay"
    if "pyparsing" in on:
        import pyparsing
        pyparsing.ParserElement.inline_literals_using(pyparsing.Suppress)
        pyparsing.ParserElement.enable_packrat()
    if "reload" in on:
        import importlib
        import periodictable
        el = periodictable.elements
        for touch in (lambda: el.Fe.neutron, lambda: el.Fe.xray, lambda: el.Fe.K_alpha, lambda: el.Fe.covalent_radius,
                      lambda: el.Fe.crystal_structure, lambda: el.Fe.magnetic_ff, lambda: el.Fe[56].neutron_activation):
            touch()
        h = hashlib.blake2b(repr((seed, prop, task, "reload")).encode(), digest_size=16).digest()
        for i, m in enumerate(RELOADABLE):
            if h[i] & 1:
                importlib.reload(importlib.import_module("periodictable." + m))
    return sw


_AGE = [0]


def age(light=False):
    """Make the process old: many distinct structures, ions, tables and strings pass through the library."""
    import periodictable as pt
    from periodictable import core, mass, density
    _AGE[0] += 1
    k = _AGE[0]
    H, O, C = pt.elements.H, pt.elements.O, pt.elements.C
    for i in range(1, 1500 if light else 6001):
        f = pt.formula({C: i, H: 2 * i + k, O: 1 + (i % 7)})
        f.atoms
        if i % 50 == 0:
            f.mass, f.charge, f.hill
    n = 0
    for el in pt.elements:
        for iso in el:
            for c in el.ions:
                iso.ion[c]
                n += 1
        for c in el.ions:
            el.ion[c]
    for j in range(6 if light else 24):
        T = core.PeriodicTable("aged-%d-%d" % (k, j))
        mass.init(T)
        density.init(T)
        pt.formula("C%dH%dO" % (j + 2, 2 * j + 1), table=T).atoms
    for i in range(1, 400 if light else 3001):
        pt.formula("C%dH%dN%dO" % (i, 2 * i + 1, 1 + i % 5)).atoms
    return n


_REJECTS = []


def rejected_call(n):
    """Make the n-th legitimately rejected call (round robin) and swallow its exception, as a caller would."""
    if not _REJECTS:
        import periodictable as pt
        from periodictable import core, mass, density, fasta, activation, nsf
        T = core.PeriodicTable("ambient-rejects")
        mass.init(T)
        density.init(T)
        cand = [
            lambda: pt.formula("Qq2O"), lambda: pt.formula("H2O)"), lambda: pt.formula("Fe[999]2O3"),
            lambda: pt.formula("Fe{9+}O"), lambda: pt.formula("H2O@"), lambda: pt.formula("Zz3(H2O)2", table=T),
            lambda: pt.formula("(H2O", table=T), lambda: pt.formula("O[99]", table=T),
            lambda: pt.formula("60wt% NaCl@2 // 50wt% KCl@2 // H2O@1"), lambda: pt.formula("5 furlongs Si"),
            lambda: pt.neutron_sld("H2O"), lambda: pt.neutron_sld("Qq", table=T, density=1),
            lambda: pt.xray_sld("SiO2", energy=8.0), lambda: pt.elements.symbol("Qq"),
            lambda: pt.elements.name("unobtainium"), lambda: pt.elements.isotope("999-Fe"), lambda: pt.elements.Fe[999],
            lambda: pt.elements.Fe.ion[99], lambda: T.Fe[999], lambda: fasta.Sequence("x", "AKR1", type="aa"),
            lambda: fasta.Sequence("x", "AKR", type="protein"), lambda: pt.formula("dna:ACGQ1"),
            lambda: activation.Sample("Qq", 1), lambda: nsf.D2O_sld("Qq2O"),
            lambda: pt.mix_by_weight("H2O@1", 1, "Qq", 2), lambda: pt.mix_by_volume("H2O", 1, "NaCl", 2),
            lambda: pt.formula("NaCl").volume("dodecahedral"), lambda: pt.elements.H.ion[1].xray.f0(0.5),
            lambda: nsf.neutron_composite_sld(["Qq"], wavelength=1.0),
            lambda: fasta.Sequence.load("/nonexistent/file.fasta"),
            # the free neutron has no x-ray table (its file name would be nitrogen's)
            lambda: pt.xray_sld(pt.elements[0], density=1.0, energy=8.0),
            lambda: pt.elements[0].xray.sld(energy=8.0),
        ]
        for fn in cand:
            try:
                fn()
            except Exception:  # noqa
                _REJECTS.append(fn)
    if _REJECTS:
        try:
            _REJECTS[n % len(_REJECTS)]()
        except Exception:  # noqa
            pass


def leave(sw):
    d = sw.get("tmpdir")
    if d:
        try:
            os.chdir("/")
            os.rmdir(d)
        except OSError:
            pass


def hop(fn, *args):
    """Call fn(*args) in a freshly started thread and hand back its result or re-raise its exception here."""
    import threading
    box = {}

    def run():
        try:
            box["r"] = fn(*args)
        except BaseException as e:  # noqa
            box["e"] = e
    t = threading.Thread(target=run)
    t.start()
    t.join()
    if "e" in box:
        raise box["e"]
    return box.get("r")
