"""
Independent readers of the x-ray data files and the reference interpolation
used by the C05 check.

Nothing here imports code of periodictable except to find the directory of the
package that was imported (so that a scratch copy given by VERIF_REPO is read):

    <dirname(periodictable.__file__)>/xsf/<symbol>.nff      Henke f1/f2 tables
    <dirname(periodictable.__file__)>/xsf/f0_WaasKirf.dat   Waasmaier-Kirfel coefficients

*.nff : header line 'E(eV) f1 f2', then rows  <E in eV> <f1> <f2>; f1 = -9999
means "not available" (NaN).  Energies are converted to keV with `decimal`
(exact division by 1000, then one rounding to double).

The reference for a query energy E is a *set of acceptable values*: the
two-point interpolant evaluated at E(1-w), E, E(1+w) (w = 8 eps) and the node
values inside that window.  This covers (a) the one-ulp freedom in converting a
node from eV to keV, (b) the few-ulp difference between a wavelength and its
round trip through hc/lambda; it costs |slope| * 8 ulp(E) of sensitivity.
Intervals in which the file is not strictly increasing are reported in
`bad` and the check does not judge energies there.
"""
import bisect
import glob
import math
import os
import re
from decimal import Decimal
from .dec import highprec

EPS = 2.0 ** -52
WINDOW = 8 * EPS

NUM = r"[-+]?(?:\d+\.?\d*|\.\d+)(?:[eE][-+]?\d+)?"
ROW = re.compile(r"^\s*(%s)\s+(%s)\s+(%s)\s*$" % (NUM, NUM, NUM))
HEAD = re.compile(r"^\s*E\(eV\)\s+f1\s+f2\s*$")


def xsf_dir():
    import periodictable
    return os.path.join(os.path.dirname(os.path.abspath(periodictable.__file__)), "xsf")


def nff_symbols():
    """Element symbols that have a .nff file, e.g. ['Ac', 'Ag', ...]."""
    out = []
    for fn in glob.glob(os.path.join(xsf_dir(), "*.nff")):
        base = os.path.basename(fn)[:-4]
        out.append(base[0].upper() + base[1:])
    return sorted(out)


class Nff(object):
    """One table: Ek (keV, file order), f1 (None = not available), f2."""

    @highprec
    def __init__(self, symbol):
        self.symbol = symbol
        path = os.path.join(xsf_dir(), symbol.lower() + ".nff")
        with open(path, "rb") as f:
            text = f.read().decode("ascii")
        lines = text.replace("\r\n", "\n").replace("\r", "\n").split("\n")
        if not HEAD.match(lines[0]):
            raise ValueError("%s: unexpected header %r" % (path, lines[0]))
        self.ev_text, self.Ek, self.f1, self.f2 = [], [], [], []
        for ln in lines[1:]:
            if not ln.strip():
                continue
            m = ROW.match(ln)
            if not m:
                raise ValueError("%s: unreadable row %r" % (path, ln))
            e, a, b = m.groups()
            self.ev_text.append(e)
            self.Ek.append(float(Decimal(e) / Decimal(1000)))
            self.f1.append(None if Decimal(a) == Decimal(-9999) else float(Decimal(a)))
            self.f2.append(None if Decimal(b) == Decimal(-9999) else float(Decimal(b)))
        n = len(self.Ek)
        # keV ranges around rows that are not strictly increasing
        self.bad = []
        for i in range(n - 1):
            if not self.Ek[i + 1] > self.Ek[i]:
                lo = min(self.Ek[max(i - 1, 0):i + 3])
                hi = max(self.Ek[max(i - 1, 0):i + 3])
                self.bad.append((lo, hi))
        # absorption edges: |f1 step| > 0.5 between neighbouring nodes
        self.edges = [i for i in range(n - 1)
                      if self.f1[i] is not None and self.f1[i + 1] is not None
                      and abs(self.f1[i + 1] - self.f1[i]) > 0.5]
        self.first_f1 = min(i for i in range(n) if self.f1[i] is not None)
        # rows whose tabulated f1 is zero or negative (dips below absorption edges)
        self.nonpos = [i for i in range(n) if self.f1[i] is not None and self.f1[i] <= 0]
        # rows that are not inside a strictly increasing stretch: the interpolant is ambiguous there
        self.bad_rows = set()
        for i in range(n - 1):
            if not self.Ek[i + 1] > self.Ek[i]:
                self.bad_rows.update((i, i + 1))

    @property
    def emin(self):
        return self.Ek[0]

    @property
    def emax(self):
        return self.Ek[-1]

    def in_bad(self, E, w=WINDOW):
        lo, hi = E * (1 - w), E * (1 + w)
        return any(hi >= b0 and lo <= b1 for b0, b1 in self.bad)

    def near_edge(self, E, nodes=2):
        """True if E lies within *nodes* nodes of an absorption edge."""
        if not self.edges or E < self.Ek[0] or E > self.Ek[-1]:
            return False
        j = bisect.bisect_right(self.Ek, E) - 1
        k = bisect.bisect_left(self.edges, j - nodes)
        return k < len(self.edges) and self.edges[k] <= j + nodes

    def _point(self, y, q):
        """(value|None, scale) of the interpolant of column *y* at *q*; None = NaN."""
        x = self.Ek
        if q < x[0] or q > x[-1]:
            return None, 0.0
        j = bisect.bisect_right(x, q) - 1
        if x[j] == q:
            return y[j], abs(y[j] or 0.0)
        y0, y1 = y[j], y[j + 1]
        if y0 is None or y1 is None:
            return None, 0.0
        t = (q - x[j]) / (x[j + 1] - x[j])
        return y0 + (y1 - y0) * t, max(abs(y0), abs(y1))

    def accept(self, col, E, w=WINDOW, exact_row=None):
        """Acceptable results for column *col* (1 or 2) at energy E (keV):
        (lo, hi, nan_ok, scale); lo is None if no finite value is acceptable.
        Returns None if E touches a non-monotonic stretch of the file.

        *exact_row*: the query is exactly the energy of that table row (as the
        library itself serves it): the tabulated value of the row is required,
        whatever its neighbours are (tolerance 4 eps: scale is |y|/8 because
        the caller allows 32 eps * scale)."""
        y = self.f1 if col == 1 else self.f2
        if exact_row is not None:
            if exact_row in self.bad_rows:
                return None
            v = y[exact_row]
            if v is None:
                return None, None, True, 0.0
            return v, v, False, abs(v) / 8
        if self.in_bad(E, w):
            return None
        elo, ehi = E * (1 - w), E * (1 + w)
        vals, nan_ok, scale = [], False, 0.0
        for q in (elo, E, ehi):
            v, s = self._point(y, q)
            if v is None:
                nan_ok = True
            else:
                vals.append(v)
                scale = max(scale, s)
        for i in range(bisect.bisect_left(self.Ek, elo), bisect.bisect_right(self.Ek, ehi)):
            if y[i] is None:
                nan_ok = True
            else:
                vals.append(y[i])
                scale = max(scale, abs(y[i]))
        if not vals:
            return None, None, True, 0.0
        return min(vals), max(vals), nan_ok, scale


# ----------------------------------------------------------------------
F0_SYM = re.compile(r"^([A-Z][a-z]?)(?:(\d+)([+-]))?$")


@highprec
def read_f0():
    """{file symbol: dict(Z, a[5], b[5], c, element, charge)}; element/charge
    are None for entries that do not name an atom or ion (Cval, Siva)."""
    path = os.path.join(xsf_dir(), "f0_WaasKirf.dat")
    with open(path, "rb") as f:
        lines = f.read().decode("latin-1").replace("\r\n", "\n").split("\n")
    out = {}
    sym = z = names = None
    for ln in lines:
        if ln.startswith("#S"):
            w = ln.split()
            z, sym, names = int(w[1]), w[2], None
        elif ln.startswith("#L"):
            names = ln.split()[1:]
        elif ln.startswith("#") or not ln.strip():
            continue
        elif sym is not None and names is not None:
            nums = re.findall(NUM, ln)
            if len(nums) != len(names):
                raise ValueError("f0 %s: %d numbers for %d names" % (sym, len(nums), len(names)))
            d = dict(zip(names, (float(Decimal(t)) for t in nums)))
            m = F0_SYM.match(sym)
            el = ch = None
            if m:
                el = m.group(1)
                ch = 0 if m.group(2) is None else int(m.group(2)) * (1 if m.group(3) == "+" else -1)
            if sym in out:
                raise ValueError("f0: duplicate entry %s" % sym)
            out[sym] = dict(Z=z, a=[d["a%d" % k] for k in range(1, 6)],
                            b=[d["b%d" % k] for k in range(1, 6)], c=d["c"],
                            element=el, charge=ch)
            sym = names = None
        else:
            raise ValueError("f0: data line without #S/#L: %r" % ln)
    return out


def f0_value(entry, q):
    """c + sum a_i exp(-b_i s^2), s = Q/(4 pi), in plain Python (math.fsum)."""
    s2 = (q / (4 * math.pi)) ** 2
    return math.fsum([entry["c"]] + [a * math.exp(-b * s2) for a, b in zip(entry["a"], entry["b"])])
