"""
Atom pools and strategies.

An atom *spec* is the JSON-able triple [symbol, isotope, charge] with symbol a
table symbol or 'D'/'T' (isotope 0 then), isotope 0 for the natural element and
charge 0 for the neutral atom.  Its *key* is (Z, A, charge) with D -> (1, 2).
"""
from hypothesis import strategies as st

DT = {"D": 2, "T": 3}


class Pool(object):
    """Enumeration of the atoms of a table (built at run time from the table)."""

    def __init__(self, table, symbols=None, need=None):
        self.table = table
        self.info = {}
        for el in table:
            if el.number == 0:
                continue
            if symbols is not None and el.symbol not in symbols:
                continue
            self.info[el.symbol] = (el.number, list(el.isotopes), tuple(el.ions))
        self.symbols = sorted(self.info, key=lambda s: self.info[s][0])
        self.with_ions = [s for s in self.symbols if self.info[s][2]]
        self.with_isotopes = [s for s in self.symbols if self.info[s][1]]
        self.with_both = [s for s in self.symbols if self.info[s][1] and self.info[s][2]]
        self.Z = dict((s, self.info[s][0]) for s in self.symbols)
        self.Z["D"] = self.Z["T"] = 1

    # -- strategies ----------------------------------------------------
    def element(self):
        return st.sampled_from(self.symbols).map(lambda s: [s, 0, 0])

    def isotope(self):
        return st.sampled_from(self.with_isotopes).flatmap(
            lambda s: st.sampled_from(self.info[s][1]).map(lambda a: [s, a, 0]))

    def dt(self):
        return st.sampled_from(["D", "T"]).map(lambda s: [s, 0, 0])

    def ion(self):
        return st.sampled_from(self.with_ions).flatmap(
            lambda s: st.sampled_from(self.info[s][2]).map(lambda c: [s, 0, c]))

    def isotope_ion(self):
        return st.sampled_from(self.with_both).flatmap(
            lambda s: st.tuples(st.sampled_from(self.info[s][1]),
                                st.sampled_from(self.info[s][2])).map(
                                    lambda ac: [s, ac[0], ac[1]]))

    def dt_ion(self):
        return st.tuples(st.sampled_from(["D", "T"]), st.sampled_from(self.info["H"][2])).map(
            lambda sc: [sc[0], 0, sc[1]])

    def atom(self, dt=True):
        """Any atom; each class gets at least ~10 % of the draws."""
        alts = [self.element(), self.element(), self.isotope(), self.ion()]
        if self.with_both:
            alts.append(self.isotope_ion())
        if dt and "H" in self.info:
            alts += [self.dt(), self.dt_ion()]
        return st.one_of(*alts)


def spec_class(spec):
    s, a, c = spec
    if s in DT:
        return "DT-ion" if c else "DT"
    if a and c:
        return "isotope-ion"
    if a:
        return "isotope"
    if c:
        return "ion"
    return "element"


def spec_key(pool, spec):
    s, a, c = spec
    if s in DT:
        return (1, DT[s], c)
    return (pool.Z[s], a, c)


def resolve(table, spec):
    """The atom object of *table* named by *spec* (raises if undefined)."""
    s, a, c = spec
    atom = table.symbol(s)
    if a:
        atom = atom[a]
    if c:
        atom = atom.ion[c]
    return atom


def atom_key(atom):
    """(Z, A, charge) of an atom object."""
    return (atom.number, getattr(atom, "isotope", 0), atom.charge)


def key_to_atom(table, key):
    z, a, c = key
    atom = table[z]
    if a:
        atom = atom[a]
    if c:
        atom = atom.ion[c]
    return atom
