"""
Reference mathematics for C11 (mixtures) and C12 (density, natural density,
substitution, cell volume).

Everything is computed in `fractions.Fraction` from the masses and densities of
the *atoms* of a table (element / isotope masses, electron mass); no Formula
method is used.  A material is the pair

    comp   {(Z, A, charge): Fraction}   composition, defined up to a common factor
    rho    Fraction | None              mass density in g/cm^3, None = unknown

and a mixture is again a material, so mixtures nest.
"""
from fractions import Fraction
from math import pi, sqrt, cos, radians


class NeedDensity(Exception):
    """A quantity by volume of a material whose density is unknown."""


class Ambiguous(Exception):
    """The documentation does not settle what the case means."""


# ----------------------------------------------------------------------
# atoms
def key_atom(table, key):
    z, a, c = key
    atom = table[z]
    if a:
        atom = atom[a]
    if c:
        atom = atom.ion[c]
    return atom


def atom_mass(table, key, emass):
    """mass (u) of the atom: isotope mass or element mass, minus charge electrons."""
    z, a, c = key
    el = table[z]
    m = el[a].mass if a else el.mass
    return Fraction(m) - c * Fraction(emass)


def natural_mass(table, key, emass):
    """mass with the isotope replaced by the natural element, ion charge kept."""
    z, a, c = key
    return Fraction(table[z].mass) - c * Fraction(emass)


def comp_mass(table, comp, emass):
    return sum((n * atom_mass(table, k, emass) for k, n in comp.items()), Fraction(0))


def natural_ratio(table, comp, emass):
    """sum n*natural mass / sum n*actual mass."""
    nat = sum((n * natural_mass(table, k, emass) for k, n in comp.items()), Fraction(0))
    return nat / comp_mass(table, comp, emass)


def compound_density(table, comp, tag, emass):
    """Density of a compound from its '@' tag (count_str, suffix) or, untagged,
    the density of its only atom; else None."""
    if tag is not None:
        d = Fraction(float(tag[0]))
        if tag[1] == "n":
            d = d / natural_ratio(table, comp, emass)
        return d
    if len(comp) == 1:
        (k,) = comp
        d = key_atom(table, k).density
        return None if d is None else Fraction(d)
    return None


# ----------------------------------------------------------------------
# mixtures
def mix_weight(table, parts, emass):
    """parts: [(comp, rho, q)] with q the masses.  -> (comp, rho)"""
    parts = [(c, r, q) for c, r, q in parts if q > 0]
    out = {}
    for c, r, q in parts:
        m = comp_mass(table, c, emass)
        for k, n in c.items():
            out[k] = out.get(k, 0) + n * q / m
    rho = None
    if parts and all(r is not None and r != 0 for _, r, _ in parts):
        rho = sum(q for _, _, q in parts) / sum(q / r for _, r, q in parts)
    return out, rho


def mix_volume(table, parts, emass):
    """parts: [(comp, rho, q)] with q the volumes.  -> (comp, rho)"""
    parts = [(c, r, q) for c, r, q in parts if q > 0]
    if any(r is None or r == 0 for _, r, _ in parts):
        raise NeedDensity()
    out = {}
    for c, r, q in parts:
        m = comp_mass(table, c, emass)
        for k, n in c.items():
            out[k] = out.get(k, 0) + n * q * r / m
    rho = None
    if parts:
        rho = sum(q * r for _, r, q in parts) / sum(q for _, _, q in parts)
    return out, rho


def normalised(comp):
    """composition scaled to sum 1 (floats); zero entries dropped."""
    comp = dict((k, v) for k, v in comp.items() if v != 0)
    tot = sum(comp.values())
    return dict((k, float(Fraction(v) / tot) if isinstance(v, Fraction) else v / tot) for k, v in comp.items())


# ----------------------------------------------------------------------
# volume
PACKING = {
    "cubic": pi / 6,
    "bcc": pi * sqrt(3) / 8,
    "hcp": pi / sqrt(18),
    "fcc": pi / sqrt(18),
    "diamond": pi * sqrt(3) / 16,
}
# the five values as printed in the documentation table (5 digits): a cross
# check of the closed forms above
PACKING_DOC = {"cubic": 0.52360, "bcc": 0.68017, "hcp": 0.74048, "fcc": 0.74048, "diamond": 0.34009}
for _k in PACKING:
    assert abs(PACKING[_k] - PACKING_DOC[_k]) < 6e-6, _k


def sphere_volume(radii_counts, pf):
    """sum n * 4/3 pi r^3 / pf in cm^3 (r in Angstrom)."""
    v = 0.0
    for r, n in radii_counts:
        v += n * r * r * r
    return v * 4.0 * pi / 3.0 / pf * 1e-24


def gram(alpha, beta, gamma):
    ca, cb, cg = cos(radians(alpha)), cos(radians(beta)), cos(radians(gamma))
    return 1 - ca * ca - cb * cb - cg * cg + 2 * ca * cb * cg


def lattice_volume(a, b, c, alpha, beta, gamma):
    """cell volume in cm^3 (lengths in Angstrom, angles in degrees)."""
    return a * b * c * sqrt(gram(alpha, beta, gamma)) * 1e-24
